#!/bin/bash
# Re-run every seeded change against the COMMITTED checks, N at a time: worker k gets its own git worktree of /repo
# (/tmp/seedwt/repo$k) and its own copy of the committed /verif (/tmp/seedwt/verif$k, own Coq build), and runs the checks
# with VERIF_DEV_SRC / PYTHONPATH pointing at its worktree.  /repo itself is not touched.  Writes seeded/RESULTS.md.
N=${1:-5}
VERIF="$(cd "$(dirname "$0")/.." && pwd)"
W=/tmp/seedwt
rm -rf $W; mkdir -p $W
git -C /repo worktree prune
ls -d $VERIF/seeded/C*/*/ > $W/all.txt
for k in $(seq 1 $N); do
  (
    git -C /repo worktree add --detach -q $W/repo$k HEAD || exit 2
    mkdir -p $W/verif$k && git -C $VERIF archive HEAD | tar -x -C $W/verif$k
    cd $W/verif$k
    export VERIF_DEV_SRC=$W/repo$k/src PYTHONPATH=$W/repo$k/src PYTHONHASHSEED=0
    ( cd coq && /venv/bin/python ../harness/translate/gen.py >/dev/null && coq_makefile -f _CoqProject -o Makefile >/dev/null 2>&1 && make -j4 >/dev/null 2>&1 )
    awk -v n=$N -v k=$k 'NR % n == k % n' $W/all.txt | while read d; do
      cid=$(basename $(dirname $d)); name=$(basename $d)
      if ! git -C $W/repo$k apply --check "$d/patch.diff" 2>/dev/null; then echo "| $cid | $name | no | - | - |" >> $W/rows$k.txt; continue; fi
      git -C $W/repo$k apply "$d/patch.diff"
      res=$(timeout 3000 /venv/bin/python harness/check.py $cid --tier quick 2>&1 | grep -E "VIOLATION|^C[0-9]+ ")
      git -C $W/repo$k checkout -- .
      nv=$(echo "$res" | grep -c VIOLATION)
      nf=$(echo "$res" | grep -c "no-failing-input-found")
      summary=$(echo "$res" | grep -E "^C[0-9]+ " | sed 's/|/ /g' | cut -c1-150)
      if [ "$nv" -gt 0 ]; then v="DETECTED ($nv violation line(s)$( [ $nf -gt 0 ] && echo ', no-failing-input-found'))"; else v="missed"; fi
      echo "| $cid | $name | yes | $v | $summary |" >> $W/rows$k.txt
    done
    # the unchanged worktree must be green for the properties this worker ran
    for cid in $(awk -v n=$N -v k=$k 'NR % n == k % n' $W/all.txt | xargs -n1 dirname | xargs -n1 basename | sort -u); do
      timeout 3000 /venv/bin/python harness/check.py $cid --tier quick 2>&1 | grep -E "VIOLATION" | sed "s/^/CLEAN-TREE-ALARM worker $k: /" > $W/alarm$k.tmp
      if [ -s $W/alarm$k.tmp ]; then
        cat $W/alarm$k.tmp >> $W/alarms.txt
        for f in build/replay/$cid-quick-*.json; do echo "  $f: $(head -c 900 $f)" >> $W/alarms.txt; done     # what failed, before the tree is removed
      fi
    done
  ) &
done
wait
out=$VERIF/seeded/RESULTS.md
echo "| property | seeded change | patch applies | quick check | verdict lines |" > $out
echo "|---|---|---|---|---|" >> $out
cat $W/rows*.txt | sort >> $out
for k in $(seq 1 $N); do git -C /repo worktree remove --force $W/repo$k; done
git -C /repo worktree prune
echo "rows: $(grep -c '^| C' $out)  detected: $(grep -c DETECTED $out)  missed: $(grep -c missed $out)"
[ -s $W/alarms.txt ] && cat $W/alarms.txt
rm -rf $W/verif* 
