#!/bin/bash
# Re-run every seeded change against the current checks; writes /verif/seeded/RESULTS.md
VERIF="$(cd "$(dirname "$0")/.." && pwd)"      # the tree this script lives in (so that it can run from a snapshot)
out=$VERIF/seeded/RESULTS.md
echo "| property | seeded change | patch applies | quick check | verdict lines |" > $out
echo "|---|---|---|---|---|" >> $out
cd /repo || exit 2
if ! git diff --quiet; then echo "/repo has local changes; refusing"; exit 2; fi
for d in $VERIF/seeded/C*/*/; do
  cid=$(basename $(dirname $d)); name=$(basename $d)
  if ! git -C /repo apply --check "$d/patch.diff" 2>/dev/null; then echo "| $cid | $name | no | - | - |" >> $out; continue; fi
  git -C /repo apply "$d/patch.diff"
  res=$(cd $VERIF && PYTHONPATH=/repo/src PYTHONHASHSEED=0 timeout 3000 /venv/bin/python harness/check.py $cid --tier quick 2>&1 | grep -E "VIOLATION|^C[0-9]+ ")
  git -C /repo checkout -- .
  nv=$(echo "$res" | grep -c VIOLATION)
  nf=$(echo "$res" | grep -c "no-failing-input-found")
  summary=$(echo "$res" | grep -E "^C[0-9]+ " | sed 's/|/ /g' | cut -c1-150)
  if [ "$nv" -gt 0 ]; then v="DETECTED ($nv violation line(s)$( [ $nf -gt 0 ] && echo ', no-failing-input-found'))"; else v="missed"; fi
  echo "| $cid | $name | yes | $v | $summary |" >> $out
  echo "ROW | $cid | $name | yes | $v | $summary |"
done
echo done
