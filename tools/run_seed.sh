#!/bin/bash
# usage: run_seed.sh <Cxx> <dir with patch.diff demo.py> [tier]
# 1. demo on the unchanged /repo (expect exit 0)  2. apply patch  3. demo (expect exit 1)  4. unit tests  5. check  6. undo
cid=$1; dir=$2; tier=${3:-quick}
cd /repo || exit 2
if ! git diff --quiet; then echo "/repo has local changes; refusing"; exit 2; fi
mkdir -p /tmp/seed/run
sed "s#/tmp/seed/$cid/#/repo/#g; s#/tmp/seed/$cid#/repo#g" "$dir/demo.py" > /tmp/seed/run/demo.py
PYTHONPATH=/repo/src timeout 300 /venv/bin/python /tmp/seed/run/demo.py > /tmp/seed/demo0.out 2>&1; d0=$?
git apply --check "$dir/patch.diff" 2>/dev/null || { echo "RESULT $cid $dir patch-does-not-apply"; exit 2; }
git apply "$dir/patch.diff"
trap 'git -C /repo checkout -- . ' EXIT
PYTHONPATH=/repo/src timeout 300 /venv/bin/python /tmp/seed/run/demo.py > /tmp/seed/demo1.out 2>&1; d1=$?
ut=$(cd /repo && timeout 600 /venv/bin/python -m pytest -q -p no:cacheprovider tests/unit_tests 2>&1 | tail -1)
cd /verif && out=$(PYTHONPATH=/repo/src PYTHONHASHSEED=0 timeout 3000 /venv/bin/python harness/check.py $cid --tier $tier 2>&1 | grep -E "VIOLATION|^C[0-9]+ ")
nv=$(echo "$out" | grep -c VIOLATION)
echo "RESULT $cid $dir demo_clean=$d0 demo_patched=$d1 unit='$ut' violations=$nv"
echo "$out" | tail -2 | cut -c1-260
