#!/venv/bin/python
"""Run the repository's pinned test suite and compare with BASELINE.json's stable_pass list."""
import json, subprocess, sys, xml.etree.ElementTree as ET, tempfile, os
base = json.load(open('/root/.vp/BASELINE.json'))
out = tempfile.mktemp(suffix='.xml')
subprocess.run("cd /repo && /venv/bin/python -m pytest -ra -q -p no:cacheprovider --timeout=900 --continue-on-collection-errors --junitxml=%s" % out,
               shell=True, stdout=subprocess.DEVNULL, stderr=subprocess.DEVNULL)
passed = set()
for tc in ET.parse(out).getroot().iter('testcase'):
    if not any(ch.tag in ('failure', 'error', 'skipped') for ch in tc):
        passed.add("%s::%s" % (tc.get('classname'), tc.get('name')))
os.remove(out)
missing = [t for t in base['stable_pass'] if t not in passed]
print("baseline: %d/%d stable tests pass" % (len(base['stable_pass']) - len(missing), len(base['stable_pass'])))
for t in missing:
    print("  MISSING", t)
sys.exit(1 if missing else 0)
