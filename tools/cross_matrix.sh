#!/bin/bash
# For every seeded change run ALL 20 quick checks (on worktrees, as tools/all_seeds_parallel.sh does) and list which properties
# alarm.  An alarm of a property other than the one the change was written against is either a real second violation (shared
# code) or a coupling of the machinery that has to be removed.  Output: /tmp/seedwt/matrix.txt  (seed-property seed-name: alarmed...)
N=${1:-6}
VERIF="$(cd "$(dirname "$0")/.." && pwd)"
W=/tmp/seedwt
rm -rf $W; mkdir -p $W
git -C /repo worktree prune
# optional: SEEDS_OF="C02 C05" restricts the seeded changes, CHECKS="C02 C05 C06" the checks that are run
ls -d $VERIF/seeded/C*/*/ > $W/all0.txt
if [ -n "$SEEDS_OF" ]; then : > $W/all.txt; for c in $SEEDS_OF; do grep "/seeded/$c/" $W/all0.txt >> $W/all.txt; done; else cp $W/all0.txt $W/all.txt; fi
CHECKS=${CHECKS:-$(seq -f "C%02g" 1 20)}
for k in $(seq 1 $N); do
  (
    git -C /repo worktree add --detach -q $W/repo$k HEAD || exit 2
    mkdir -p $W/verif$k && git -C $VERIF archive HEAD | tar -x -C $W/verif$k
    cd $W/verif$k
    export VERIF_DEV_SRC=$W/repo$k/src PYTHONPATH=$W/repo$k/src PYTHONHASHSEED=0
    ( cd coq && /venv/bin/python ../harness/translate/gen.py >/dev/null && coq_makefile -f _CoqProject -o Makefile >/dev/null 2>&1 && make -j4 >/dev/null 2>&1 )
    awk -v n=$N -v k=$k 'NR % n == k % n' $W/all.txt | while read d; do
      cid=$(basename $(dirname $d)); name=$(basename $d)
      git -C $W/repo$k apply "$d/patch.diff" 2>/dev/null || continue
      al=""
      for c in $CHECKS; do
        if timeout 3000 /venv/bin/python harness/check.py $c --tier quick 2>&1 | grep -q VIOLATION; then al="$al $c"; fi
      done
      git -C $W/repo$k checkout -- .
      echo "$cid $name:$al" >> $W/matrix$k.txt
    done
  ) &
done
wait
cat $W/matrix*.txt | sort > $W/matrix.txt
for k in $(seq 1 $N); do git -C /repo worktree remove --force $W/repo$k; done
git -C /repo worktree prune
rm -rf $W/verif*
echo "done: $(wc -l < $W/matrix.txt) seeds"
