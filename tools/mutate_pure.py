#!/usr/bin/env python3
"""Small semantic mutants of the functions translated by harness/translate/pure.py: each must break the theorem file of its
property (and only files that depend on it).  Usage: PYTHONPATH=/repo/src /venv/bin/python tools/mutate_pure.py"""
import subprocess, sys, os
sys.path.insert(0, "/verif")
from harness.lib import coqrun
from harness.translate import gen

MUTANTS = [
    ("C04", "api/tracepoint/tracepoint_config.py", "return ts <= self._end", "return ts < self._end"),
    ("C04", "api/tracepoint/trigger.py", "if period_ns > 0 and time_since_last < period_ns:", "if period_ns > 0 and time_since_last <= period_ns:"),
    ("C04", "api/tracepoint/trigger.py", "if period_ns > 0 and time_since_last < period_ns:", "if period_ns >= 0 and time_since_last < period_ns:"),
    ("C04", "api/tracepoint/trigger.py", "return self.fire_period * 1_000_000", "return self.fire_period * 1_000"),
    ("C04", "api/tracepoint/tracepoint_config.py", "self._fire_count += 1", "self._fire_count += 2"),
    ("C03", "api/tracepoint/trigger.py", 'if event == "line" and file == self.path and line == self.line:', 'if file == self.path and line == self.line:'),
    ("C03", "api/tracepoint/trigger.py", 'if event == "call" and function_name == self.__function_name:', 'if function_name == self.__function_name:'),
    ("C03", "processor/trigger_handler.py", "if ctx.can_trigger() and ctx.acquire():", "if ctx.acquire() and ctx.can_trigger():"),
    ("C03", "processor/trigger_handler.py", "        if len(self._tp_config) == 0:\n            return None\n", ""),
    ("C03", "processor/trigger_handler.py", "                for action in actions:\n", "                for action in actions[:1]:\n"),
    ("C03", "processor/trigger_handler.py", 'if event in ["line", "return", "exception"] and self._callbacks.is_set:', 'if event in ["line", "return"] and self._callbacks.is_set:'),
    ("C03", "processor/trigger_handler.py", "filename = os.path.basename(frame.f_code.co_filename)", "filename = frame.f_code.co_filename"),
    ("C03", "processor/trigger_handler.py", "        if len(actions) == 0:\n            return self.trace_call\n", "        if len(actions) == 0:\n            return None\n"),
    ("C05", "processor/bfs/__init__.py", "            child._depth = self._depth + 1\n", "            child._depth = self._depth\n"),
    ("C05", "processor/bfs/__init__.py", "            self._children.append(child)\n", "            self._children.insert(0, child)\n"),
    ("C05", "processor/variable_processor.py", "return string[:max_length], len(string) > max_length", "return string[:max_length], len(string) >= max_length"),
    ("C05", "processor/variable_set_processor.py", "if self.__var_cache.size > self.__config.max_variables:", "if self.__var_cache.size >= self.__config.max_variables:"),
    ("C05", "processor/bfs/__init__.py", "pop = queue.pop(0)", "pop = queue.pop()"),
    ("C05", "processor/bfs/__init__.py", "            queue += pop.children\n", "            queue = pop.children + queue\n"),
    ("C05", "processor/bfs/__init__.py", "        else:\n            return\n", "        else:\n            continue\n"),
    ("C05", "processor/variable_set_processor.py", "        if process_result.process_children:\n            # process children and add to node\n", "        if True:\n"),
    ("C05", "processor/variable_set_processor.py", "        if not self.check_var_count():\n            # we have exceeded the var count, so do not continue\n            return False\n\n        node_value = node.value\n        if node_value is None:\n            # this node has no value, continue with children\n            return True\n",
     "        node_value = node.value\n        if node_value is None:\n            # this node has no value, continue with children\n            return True\n        if not self.check_var_count():\n            return False\n"),
    ("C05", "processor/variable_set_processor.py", "        node.parent.add_child(var_id)\n", ""),
    ("C05", "processor/variable_processor.py", "if total >= var_collector.max_collection_size:", "if total > var_collector.max_collection_size:"),
    ("C05", "processor/variable_processor.py", "if frame_depth + 1 >= var_collector.max_var_depth:", "if frame_depth >= var_collector.max_var_depth:"),
    ("C05", "processor/variable_processor.py", "    'traceback'\n]", "    'traceback',\n    'bytes'\n]"),
    ("C05", "processor/variable_processor.py", "NO_CHILD_TYPES += ITER_LIKE_TYPES\n", "NO_CHILD_TYPES = NO_CHILD_TYPES + []\n"),
    ("C02", "processor/variable_processor.py", "NodeValue(str(total), val_)", "NodeValue(str(total + 1), val_)"),
    ("C02", "processor/variable_processor.py", '    prefix = "_" + name\n', '    prefix = "__" + name\n'),
    ("C02", "processor/variable_processor.py", "        return val[len(prefix):]\n", "        return val[len(name):]\n"),
    ("C07", "processor/variable_set_processor.py", "        if check_id is not None:\n            # this means the watch result is already in the var_lookup\n            return VariableId(check_id, name), self.__to_string(value)\n", ""),
    ("C07", "processor/variable_set_processor.py", "        var_id = self.__var_cache.check_id(identity_hash_id)\n\n        return VariableId(var_id, name)", "        var_id = check_id\n\n        return VariableId(var_id, name)"),
    ("C07", "processor/variable_processor.py", "node.original_name), process_children=False)", "node.original_name), process_children=True)"),
    ("C07", "processor/variable_processor.py", "    identity_hash_id = str(id(node.value))\n", "    identity_hash_id = str(id(node))\n"),
    ("C07", "processor/variable_processor.py", "    var_collector.append_variable(var_id, variable)\n", ""),
    ("C07", "processor/variable_processor.py", "    variable = Variable(str(variable_type.__name__), variable_value_str, identity_hash_id, [], truncated)", "    variable = Variable(str(variable_type.__name__), variable_value_str, var_id, [], truncated)"),
    ("C02", "processor/context/snapshot_action.py", "        return current_frame_index == 0\n", "        return current_frame_index <= 1\n"),
    ("C02", "processor/context/snapshot_action.py", "        if config_type == NO_FRAME_TYPE:\n            return False\n", ""),
    ("C02", "processor/variable_processor.py", "    if var_name.startswith(\"_\"):\n        return ['protected']", "    if var_name.startswith(\"_\"):\n        return ['private']"),
    ("C10", "processor/context/action_context.py", "        if isinstance(result, BaseException):\n", "        if isinstance(result, BaseException) and False:\n"),
    ("C10", "utils.py", '("yes", "true", "t", "1", "y")', '("yes", "true", "t", "1", "y", "on")'),
    ("C19", "config/config_service.py", "            if callable(attr):\n                return attr()\n", ""),
    ("C19", "config/config_service.py", "                        return from_env\n", "                        return from_env.strip()\n"),
    ("C19", "config/config_service.py", "            if attr is None:\n                from deep import config", "            if True:\n                from deep import config"),
    ("C19", "utils.py", '("yes", "true", "t", "1", "y")', '("yes", "true", "1", "y")'),
    ("C11", "api/tracepoint/trigger.py", "        SPAN: args[SPAN],\n        FIRE_COUNT: args.get(FIRE_COUNT, '1'),", "        SPAN: args[SPAN],\n        FIRE_COUNT: args.get(FIRE_COUNT, '-1'),"),
    ("C11", "api/tracepoint/trigger.py", "    if STAGE in args:\n        stage_ = args[STAGE]", "    if STAGE in args and SPAN not in args:\n        stage_ = args[STAGE]"),
    ("C19", "config/config_service.py", "        for path in in_app_exclude:\n            if filename.startswith(path):\n                return False, path\n\n        for path in in_app_include:\n            if filename.startswith(path):\n                return True, path",
     "        for path in in_app_include:\n            if filename.startswith(path):\n                return True, path\n\n        for path in in_app_exclude:\n            if filename.startswith(path):\n                return False, path"),
    ("C02", "processor/frame_collector.py", "return filename[len(match):], is_app_frame", "return filename[len(match) + 1:], is_app_frame"),
    ("C08", "api/tracepoint/tracepoint_config.py", "        if self._line_no < 0:\n            return 0\n        return self._line_no", "        return self._line_no"),
    ("C18", "api/resource/__init__.py", '        if self.schema_url == "":\n            schema_url = other.schema_url', '        if self.schema_url == "":\n            schema_url = self.schema_url'),
    ("C18", "api/resource/__init__.py", "        merged_attributes.update(other.attributes)\n", ""),
    ("C18", "api/attributes/__init__.py", "self._dict.popitem(last=False)\n                    self.dropped += 1", "self._dict.popitem(last=False)"),
    ("C18", "api/attributes/__init__.py", "self.max_length is not None and len(self._dict) == self.max_length", "self.max_length is not None and len(self._dict) + 1 == self.max_length"),
    ("C18", "api/attributes/__init__.py", "                if key in self._dict:\n                    del self._dict[key]\n                elif (", "                if ("),
    ("C18", "api/attributes/__init__.py", "self._dict.popitem(last=False)", "self._dict.popitem(last=True)"),
    ("C12", "config/tracepoint_config.py", "            new_config = self._tracepoint_config\n", ""),
    ("C12", "config/tracepoint_config.py", "        self._current_hash = new_hash\n", "        self._current_hash = old_hash\n"),
    ("C12", "config/tracepoint_config.py", "new_config + self._custom)", "self._custom + new_config)"),
    ("C12", "processor/trigger_handler.py", "        self._tp_config = new_config\n", "        self._tp_config = list(self._tp_config) + new_config\n"),
    ("C12", "poll/poll.py", "if response.response_type == ResponseType.NO_CHANGE:", "if response.response_type != ResponseType.NO_CHANGE:"),
    ("C12", "poll/poll.py", "update_new_config(response.ts_nanos, response.current_hash,", "update_new_config(request.ts_nanos, request.current_hash,"),
    ("C12", "poll/poll.py", "current_hash=self.config.tracepoints.current_hash,", "current_hash=None,"),
    ("C12", "poll/poll.py", "            self.config.tracepoints.update_no_change(response.ts_nanos)\n", "            self.config.tracepoints.update_no_change(response.ts_nanos)\n            return\n        if not response.response:\n            return\n"),
    ("C13", "config/tracepoint_config.py", "        self._custom_ids.append(tp_id)\n        self.__trigger_update(None, None)\n        return tp_id", "        self._custom_ids.insert(0, tp_id)\n        self.__trigger_update(None, None)\n        return tp_id"),
    ("C13", "config/tracepoint_config.py", "                del self._custom[idx]\n", "                del self._custom[0]\n"),
    ("C13", "config/tracepoint_config.py", "                self.__trigger_update(None, None)\n                return", "                return"),
    ("C15", "processor/trigger_handler.py", "            if context.event == 'line' and line_context_done:\n                break\n", ""),
    ("C15", "processor/trigger_handler.py", "            if context.event != 'line':\n                break\n", ""),
    ("C15", "processor/context/callback_context.py", "        if event in ['exception', 'return']:", "        if event in ['exception', 'return', 'line']:"),
    ("C15", "processor/context/callback_context.py", "if file != self.__filename or function_name != self.__function_name:", "if file != self.__filename:"),
    ("C04", "api/tracepoint/trigger.py", "return self.__get_int(FIRE_PERIOD, 1000)", "return self.__get_int(FIRE_PERIOD, 100)"),
    ("C14", "processor/trigger_handler.py", "        if self.__hooks_installed:\n            sys.settrace(self.__old_sys_trace)", "        if True:\n            sys.settrace(self.__old_sys_trace)"),
    ("C14", "processor/trigger_handler.py", "            threading.settrace(self.__old_thread_trace)\n", "            threading.settrace(self.__old_sys_trace)\n"),
    ("C14", "processor/trigger_handler.py", "        self.__inert = True\n", ""),
    ("C03", "processor/trigger_handler.py", "                actions += trigger.actions\n", "                actions = trigger.actions\n"),
    ("C20", "processor/context/span_action.py", "        if self.trigger_context.config.has_span_processor:\n            return super().can_trigger()\n        return False", "        return super().can_trigger()"),
    ("C17", "processor/context/metric_action.py", "        if self.__has_metric_processor():\n            return super().can_trigger()\n        return False", "        return super().can_trigger()"),
]
FULL = "--full" in sys.argv          # run the whole quick check of the mutant's property: is a concrete failing input found too?
sel = [a for a in sys.argv[1:] if a != "--full"]
if sel:
    MUTANTS = [m for m in MUTANTS if m[0] in sel]
ALL = ["C02", "C03", "C04", "C05", "C07", "C08", "C10", "C11", "C12", "C13", "C14", "C15", "C17", "C18", "C19", "C20"]


def verdicts():
    gen.regenerate()
    coqrun.ensure_built()
    return {c: coqrun.check_props(c)["ok"] for c in ALL}


def main():
    assert subprocess.run(["git", "-C", "/repo", "diff", "--quiet"]).returncode == 0, "/repo has local changes"
    base = verdicts()
    print("unchanged tree:", base)
    bad = 0
    for cid, path, old, new in MUTANTS:
        full = os.path.join("/repo/src/deep", path)
        src = open(full).read()
        if src.count(old) != 1:
            print("MUTANT NOT APPLICABLE", cid, path, repr(old[:40]))
            bad += 1
            continue
        open(full, "w").write(src.replace(old, new))
        if FULL:
            try:
                out = subprocess.run(["/venv/bin/python", "/verif/harness/check.py", cid, "--tier", "quick"], cwd="/verif", text=True,
                                     stdout=subprocess.PIPE, stderr=subprocess.STDOUT, env=dict(os.environ, PYTHONPATH="/repo/src", PYTHONHASHSEED="0")).stdout
            finally:
                subprocess.run(["git", "-C", "/repo", "checkout", "--", "."])
            lines = [l for l in out.splitlines() if l.startswith("VIOLATION")]
            concrete = [l for l in lines if "no-failing-input-found" not in l]
            print("%-8s %-4s %-45s %d violation line(s)%s" % ("input" if concrete else ("proof-only" if lines else "MISSED"), cid, repr(new.strip()[:45]),
                                                          len(lines), "" if concrete else "  <<<"))
            continue
        try:
            v = verdicts()
        finally:
            subprocess.run(["git", "-C", "/repo", "checkout", "--", "."])
        broken = sorted(c for c in ALL if not v[c])
        ok = cid in broken
        bad += not ok
        print("%s %-4s %-45s broke %s" % ("caught" if ok else "MISSED", cid, repr(new.strip()[:45]), broken))
    if FULL:
        return
    v = verdicts()
    print("restored tree:", v)
    sys.exit(1 if bad or not all(v.values()) else 0)


main()
