#!/bin/bash
# try_seeds_parallel.sh <N> <list-file>     list-file: lines "Cxx /path/to/dir-with-patch.diff-and-demo.py"
# For every candidate seeded change (in parallel, on worktrees; /repo is not touched): demonstration on the unchanged worktree,
# apply, demonstration, pinned unit tests, the WORKING TREE's quick check of the property, undo.  Output: /tmp/seedwt/try.txt
N=${1:-6}; LIST=$2
VERIF="$(cd "$(dirname "$0")/.." && pwd)"
W=/tmp/seedwt
rm -rf $W; mkdir -p $W
git -C /repo worktree prune
for k in $(seq 1 $N); do
  (
    git -C /repo worktree add --detach -q $W/repo$k HEAD || exit 2
    mkdir -p $W/verif$k && rsync -a --exclude build --exclude .git --exclude '*.vo' --exclude '*.vok' --exclude '*.vos' --exclude '*.glob' --exclude '.*.aux' $VERIF/ $W/verif$k/
    cd $W/verif$k
    export VERIF_DEV_SRC=$W/repo$k/src PYTHONPATH=$W/repo$k/src PYTHONHASHSEED=0
    ( cd coq && /venv/bin/python ../harness/translate/gen.py >/dev/null && coq_makefile -f _CoqProject -o Makefile >/dev/null 2>&1 && make -j4 >/dev/null 2>&1 )
    awk -v n=$N -v k=$k 'NR % n == k % n' $LIST | while read cid dir; do
      mkdir -p $W/run$k; sed "s#/tmp/seed/$cid/#$W/repo$k/#g; s#/tmp/seed/$cid#$W/repo$k#g" "$dir/demo.py" > $W/run$k/demo.py
      ( cd $W/run$k && timeout 300 /venv/bin/python demo.py > $W/run$k/d0.out 2>&1 ); d0=$?
      if ! git -C $W/repo$k apply --check "$dir/patch.diff" 2>/dev/null; then echo "TRY $cid $dir patch-does-not-apply" >> $W/try$k.txt; continue; fi
      git -C $W/repo$k apply "$dir/patch.diff"
      ( cd $W/run$k && timeout 300 /venv/bin/python demo.py > $W/run$k/d1.out 2>&1 ); d1=$?
      ut=$(cd $W/repo$k && timeout 900 /venv/bin/python -m pytest -q -p no:cacheprovider tests/unit_tests 2>&1 | tail -1 | sed 's/ in .*//')
      res=$(timeout 3000 /venv/bin/python harness/check.py $cid --tier quick 2>&1 | grep -E "VIOLATION|^C[0-9]+ ")
      git -C $W/repo$k checkout -- .
      nv=$(echo "$res" | grep -c VIOLATION); nf=$(echo "$res" | grep -c "no-failing-input-found")
      echo "TRY $cid $dir demo_clean=$d0 demo_patched=$d1 unit='$ut' violations=$nv nofail=$nf | $(echo "$res" | grep -E '^C[0-9]+ ' | cut -c1-140)" >> $W/try$k.txt
    done
  ) &
done
wait
cat $W/try*.txt | sort > $W/try.txt
for k in $(seq 1 $N); do git -C /repo worktree remove --force $W/repo$k; done
git -C /repo worktree prune
rm -rf $W/verif* $W/run*
cat $W/try.txt
