#!/bin/bash
# Which lines of /repo/src/deep do the quick checks EXECUTE?  (a development tool, not a registered check: it tells where the
# correspondence / oracles have never looked).  Uses coverage's sys.monitoring core, which does not touch sys.settrace (the
# agent's own hook).  Runs on a scratch copy of /verif so that the evidence files are not rewritten.  Output: /tmp/cov/report.txt
W=/tmp/cov
VERIF="$(cd "$(dirname "$0")/.." && pwd)"
rm -rf $W; mkdir -p $W/verif
git -C $VERIF archive HEAD | tar -x -C $W/verif
cd $W/verif
export PYTHONPATH=/repo/src PYTHONHASHSEED=0 COVERAGE_CORE=sysmon
( cd coq && /venv/bin/python ../harness/translate/gen.py >/dev/null && coq_makefile -f _CoqProject -o Makefile >/dev/null 2>&1 && make -j8 >/dev/null 2>&1 )
for i in $(seq -w 1 20); do echo C$i; done | xargs -P ${1:-5} -I{} sh -c \
  '/venv/bin/python -m coverage run --data-file='$W'/.coverage.{} --source=/repo/src/deep harness/check.py {} --tier quick 2>&1 | grep -E "^C[0-9]+ |VIOLATION"'
cd $W
/venv/bin/python -m coverage combine --data-file=$W/.coverage $W/.coverage.C* >/dev/null 2>&1
/venv/bin/python -m coverage report --data-file=$W/.coverage -m --omit='*/deepproto/*' > $W/report.txt 2>/dev/null
tail -1 $W/report.txt
rm -rf $W/verif
