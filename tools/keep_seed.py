#!/usr/bin/env python3
"""keep_seed.py <Cxx> <src-dir> <name> <detected: yes|no|after-strengthening> <needs...>  -> /verif/seeded/<Cxx>/<name>/"""
import json, os, shutil, sys
cid, src, name, detected = sys.argv[1:5]
needs = " ".join(sys.argv[5:])
dst = os.path.join('/verif/seeded', cid, name)
os.makedirs(dst, exist_ok=True)
for f in ('patch.diff', 'demo.py', 'notes.md'):
    if os.path.exists(os.path.join(src, f)):
        shutil.copy(os.path.join(src, f), os.path.join(dst, f))
json.dump(dict(property=cid, breaks=cid, needs_to_manifest=needs,
               ran=["git -C /repo apply patch.diff", "PYTHONPATH=/repo/src /venv/bin/python demo.py  (exit 1 with the change, 0 without)",
                    "harness/check.py %s --tier quick" % cid, "git -C /repo checkout -- ."],
               detected_by_quick_check=detected, author="independent sub-agent given only the property text"),
          open(os.path.join(dst, 'meta.json'), 'w'), indent=1)
print("kept", dst)
