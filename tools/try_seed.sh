#!/bin/bash
# usage: try_seed.sh <Cxx> <dir-with-patch.diff-and-demo.py> [tier]
# applies the seeded change to /repo, runs its demo and the property's check, and always undoes it.
cid=$1; dir=$2; tier=${3:-quick}
cd /repo || exit 2
if ! git diff --quiet; then echo "/repo has local changes; refusing"; exit 2; fi
git apply --check "$dir/patch.diff" || { echo "patch does not apply"; exit 2; }
git apply "$dir/patch.diff"
trap 'git -C /repo checkout -- . ; echo "[undone]"' EXIT
echo "--- demo (expected to fail with the change):"
PYTHONPATH=/repo/src timeout 300 /venv/bin/python "$dir/demo.py" > /tmp/demo.out 2>&1; echo "demo exit=$?"; tail -3 /tmp/demo.out
echo "--- check $cid $tier:"
cd /verif && PYTHONPATH=/repo/src PYTHONHASHSEED=0 timeout 3000 /venv/bin/python harness/check.py $cid --tier $tier 2>&1 | grep -E "VIOLATION|KNOWN|^C[0-9]+ " | head -12
