(* C20 -- Plugins are optional: ordered, skipped when inactive, isolated when faulty. *)
From Deep Require Import Base ExnFlow Plugins PluginsProofs.
From DeepGen Require Import Skeleton.
From DeepGen Require Import PSpans.
From Deep Require Import PureSupport TieSpans.
From Coq Require Import Sorted.

(* loader: exactly the candidates that import, construct and report active are loaded, ordered by declared order *)
Theorem C20_loader :
  forall cs, (forall c, In c (load cs) <-> In c cs /\ usable c = true) /\ Sorted le_order (load cs).
Proof. exact load_spec. Qed.
Print Assumptions C20_loader.
Theorem C20_failing_candidate_affects_nothing :
  forall l1 bad l2, usable bad = false -> load (l1 ++ bad :: l2) = load (l1 ++ l2).
Proof. exact unusable_candidate_affects_nothing. Qed.
Print Assumptions C20_failing_candidate_affects_nothing.
Theorem C20_equal_order_keeps_input_order :
  forall l, (forall a b, In a l -> In b l -> cd_order a = cd_order b) -> psort l = l.
Proof. exact equal_order_keeps_input_order. Qed.
Print Assumptions C20_equal_order_keeps_input_order.

(* isolation: in each loop over plugins (resource providers, snapshot decorators, span creation, span closing,
   metric dispatch, plugin shutdown, the callbacks of a pending context, the results of a trigger, the
   configuration listeners) -- bodies REGENERATED from /repo/src -- whatever Exception-class failures the
   callbacks raise, every element of the collection is attempted and the statements after the loop are reached *)
Definition isolated (b : stmt) : bool := match esc (only_exc b) with [] => true | _ => false end && no_exit (only_exc b).
Lemma all_isolated : forallb isolated plugin_loop_bodies = true.
Proof. vm_compute. reflexivity. Qed.
Theorem C20_every_plugin_attempted :
  forall b, In b plugin_loop_bodies ->
  forall n ts o, each n (only_exc b) ts o -> o = ONorm /\ length ts = n.
Proof.
  intros b I. pose proof all_isolated as A. rewrite forallb_forall in A. specialize (A b I). unfold isolated in A.
  apply andb_true_iff in A as [A1 A2]. intros n ts o X. eapply each_attempts_all; [|exact A2|exact X].
  destruct (esc (only_exc b)); [reflexivity|discriminate].
Qed.
Print Assumptions C20_every_plugin_attempted.
(* the nine loops over plugins, callbacks, results and listeners, and the loop over shutdown's fixed steps, were all found *)
Theorem C20_loops_found : length plugin_loop_bodies = 10%nat.
Proof. vm_compute. reflexivity. Qed.
Print Assumptions C20_loops_found.

(* ---- tie by translation: SpanActionContext.can_trigger as it is in /repo/src NOW (gen/PSpans.v): the span plugin is optional -
   without one the span action cannot trigger, whatever its limits and condition say *)
Theorem C20_the_code_span_needs_a_processor :
  forall has_processor gate_,
  gen_span_can_trigger has_processor gate_ = has_processor && gate_ /\ gen_span_can_trigger false gate_ = false.
Proof. intros. split; [apply tie_span_can_trigger | reflexivity]. Qed.
Print Assumptions C20_the_code_span_needs_a_processor.
