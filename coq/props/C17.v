(* C17 -- Metric tracepoints report each defined metric with the right type, labels, value. *)
From Deep Require Import Base Config Limiter LimiterProofs Cond Metric MetricProofs.
From DeepGen Require Import PMetrics.
From Deep Require Import PureSupport TieMetrics.

(* on a permitted hit every metric definition is reported to every processor, and nothing else is *)
Theorem C17_dispatch_exact :
  forall ev ms procs c, In c (dispatch ev ms procs) <-> exists m p, In m ms /\ In p procs /\ c = call_of ev m p.
Proof. exact dispatch_in. Qed.
Print Assumptions C17_dispatch_exact.

(* exactly once: |metrics| x |processors| calls, those of one definition being one per processor, in order *)
Theorem C17_once :
  forall ev ms1 m ms2 procs,
  dispatch ev (ms1 ++ m :: ms2) procs = dispatch ev ms1 procs ++ map (call_of ev m) procs ++ dispatch ev ms2 procs /\
  length (dispatch ev (ms1 ++ m :: ms2) procs) = (length (ms1 ++ m :: ms2) * length procs)%nat.
Proof. intros. split; [apply dispatch_nth|apply dispatch_length]. Qed.
Print Assumptions C17_once.

(* the operation is the metric's type, the namespace defaults to "deep", name/help/unit are passed on *)
Theorem C17_call_fields :
  forall ev m p,
  c_op (call_of ev m p) = lower (m_type m) /\ c_name (call_of ev m p) = m_name m /\
  c_help (call_of ev m p) = m_help m /\ c_unit (call_of ev m p) = m_unit m /\
  (nonempty_opt (m_namespace m) = None -> c_namespace (call_of ev m p) = DEEP) /\
  (forall n, nonempty_opt (m_namespace m) = Some n -> c_namespace (call_of ev m p) = n).
Proof.
  intros ev m p. repeat split; simpl; [intros ->; reflexivity | intros n ->; reflexivity].
Qed.
Print Assumptions C17_call_fields.

(* the value is the expression's number, or 1 when there is no expression, it is not numeric, or it fails *)
Theorem C17_value :
  forall ev m,
  (forall e v, nonempty_opt (m_expr m) = Some e -> r_num (ev e) = Some v -> metric_value ev m = v) /\
  ((nonempty_opt (m_expr m) = None \/ exists e, nonempty_opt (m_expr m) = Some e /\ r_num (ev e) = None) ->
   metric_value ev m = ONE).
Proof. intros ev m. split; [intros e v; apply metric_value_numeric | apply metric_value_default]. Qed.
Print Assumptions C17_value.

(* with no metric processor nothing is reported and no fire budget is used *)
Theorem C17_no_processor : forall l s h ev ms, metric_hit l s h ev ms [] = (s, []).
Proof. exact no_processor. Qed.
Print Assumptions C17_no_processor.

Theorem C17_permitted_hit_reports :
  forall l s h ev ms p ps, snd (step l s h) = true -> snd (metric_hit l s h ev ms (p :: ps)) = dispatch ev ms (p :: ps).
Proof. exact metric_hit_permitted. Qed.
Print Assumptions C17_permitted_hit_reports.

(* ---- tie by translation: MetricActionContext.can_trigger / _convert_type as they are in /repo/src NOW (gen/PMetrics.v):
   with no metric processor active the action cannot trigger, whatever its limits and condition say; the operation a metric
   is reported through is its type name in lower case *)
Theorem C17_the_code_needs_a_processor :
  forall has_processor gate_,
  gen_metric_can_trigger has_processor gate_ = has_processor && gate_ /\ gen_metric_can_trigger false gate_ = false.
Proof. intros. split; [apply tie_metric_can_trigger | reflexivity]. Qed.
Print Assumptions C17_the_code_needs_a_processor.

Theorem C17_the_code_operation_is_the_model : forall ev m p, gen_convert_type (m_type m) = c_op (call_of ev m p).
Proof. exact tie_convert_type. Qed.
Print Assumptions C17_the_code_operation_is_the_model.
