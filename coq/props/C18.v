(* C18 -- Resource identity: merge precedence, mandatory keys, bounded attribute store.
   Property theorems only; each is closed by [exact] of a lemma from AttrsProofs.v. *)
From Deep Require Import Base Attrs AttrsProofs.
From DeepGen Require Import PStore PMerge.
From Deep Require Import PureSupport TieStore TieMerge.

(* Every state reachable from any constructor call by ANY sequence of set/del/merge_in
   operations: never more than capacity, keys distinct, keys non-empty strings, every stored
   value cleaned (strings within the value limit, sequences homogeneous). *)
Theorem C18_capacity_and_clean :
  forall (c vl : option nat) (attrs : list (key * val)) (imm : bool) (ops : list op),
  let s := fst (run (make c vl attrs imm) ops) in
  (forall n, cap s = Some n -> (length (items s) <= n)%nat) /\
  NoDup (akeys (items s)) /\
  (forall k v, In (k, v) (items s) -> k <> [] /\ wf_cval (vlimit s) v).
Proof. exact reachable_inv. Qed.
Print Assumptions C18_capacity_and_clean.

(* Oldest-first eviction, re-set moves to the end, every drop counted: exact step law. *)
Theorem C18_fifo_and_drop_count :
  forall s k v, immutable s = false ->
  let s' := fst (set_item s k v) in
  match cap s, key_ok k, clean (vlimit s) k v with
  | Some O, _, _ => items s' = items s /\ dropped s' = S (dropped s)
  | _, Some ks, Some c =>
      if inb ks (items s)
      then items s' = aremove ks (items s) ++ [(ks, c)] /\ dropped s' = dropped s
      else if is_cap (cap s) (length (items s))
           then items s' = tl (items s) ++ [(ks, c)] /\ dropped s' = S (dropped s)
           else items s' = items s ++ [(ks, c)] /\ dropped s' = dropped s
  | _, _, _ => s' = s
  end.
Proof. exact set_item_law. Qed.
Print Assumptions C18_fifo_and_drop_count.

Theorem C18_conservation :
  forall s k v, Inv s -> immutable s = false ->
  let s' := fst (set_item s k v) in
  (length (items s') + dropped s' =
   length (items s) + dropped s +
   match cap s, key_ok k, clean (vlimit s) k v with
   | Some O, _, _ => 1
   | _, Some ks, Some _ => if inb ks (items s) then 0 else 1
   | _, _, _ => 0
   end)%nat.
Proof. exact set_item_conservation. Qed.
Print Assumptions C18_conservation.

Theorem C18_invalid_rejected :
  forall s k v, cap s <> Some O -> (key_ok k = None \/ clean (vlimit s) k v = None) ->
  fst (set_item s k v) = s.
Proof. exact set_item_invalid_noop. Qed.
Print Assumptions C18_invalid_rejected.

Theorem C18_cleaned_values : forall limit k v c, clean limit k v = Some c -> wf_cval limit c.
Proof. exact clean_wf. Qed.
Print Assumptions C18_cleaned_values.

(* Frozen: every operation sequence leaves a frozen store exactly as it was, and single
   set/del are refused with TypeError. *)
Theorem C18_frozen : forall ops s, immutable s = true -> fst (run s ops) = s.
Proof. exact frozen_run. Qed.
Print Assumptions C18_frozen.
Theorem C18_frozen_refuses :
  forall s, immutable s = true ->
  (forall k v, set_item s k v = (s, RTypeError)) /\ (forall k, del_item s k = (s, RTypeError)).
Proof. intros s H; split; intros; [apply frozen_set | apply frozen_del]; exact H. Qed.
Print Assumptions C18_frozen_refuses.

(* Resources: later source overrides earlier key by key. *)
Theorem C18_merge_lookup :
  forall a b k, wf_res a -> wf_res b -> compatible a b ->
  alookup k (r_attrs (merge a b)) =
  match alookup k (r_attrs b) with Some v => Some v | None => alookup k (r_attrs a) end.
Proof. exact merge_lookup. Qed.
Print Assumptions C18_merge_lookup.

Theorem C18_schema_rule :
  forall a b, wf_res a -> wf_res b ->
  (compatible a b -> r_schema (merge a b) = if is_empty (r_schema a) then r_schema b else r_schema a) /\
  (~ compatible a b -> merge a b = a).
Proof. intros a b Ha Hb; split; [apply merge_schema; assumption | apply merge_incompatible]. Qed.
Print Assumptions C18_schema_rule.

(* defaults + environment + code + plugin_1 .. plugin_n: last holder of a key wins *)
Theorem C18_chain :
  forall l base k, wf_res base -> Forall wf_res l ->
  r_schema base = [] -> Forall (fun r => r_schema r = []) l ->
  alookup k (r_attrs (merge_all base l)) = last_holding k l (alookup k (r_attrs base)).
Proof. exact merge_all_chain. Qed.
Print Assumptions C18_chain.

(* mandatory keys: service.name is always there after create; default (SDK identity) keys
   survive create and every later plugin merge, whatever the schemas *)
Theorem C18_service_name :
  forall dflt env attrs schema,
  wf_res dflt -> wf_res env -> r_schema dflt = [] -> r_schema env = [] ->
  truthy (alookup SERVICE_NAME (r_attrs (create dflt env attrs schema))) = true.
Proof. exact create_service_name. Qed.
Print Assumptions C18_service_name.

Theorem C18_mandatory_keys_survive :
  forall dflt env attrs schema plugins k,
  wf_res dflt -> wf_res env -> Forall wf_res plugins ->
  In k (akeys (r_attrs dflt)) ->
  In k (akeys (r_attrs (merge_all (create dflt env attrs schema) plugins))).
Proof.
  intros dflt env attrs schema plugins k Hd He Hp H.
  apply merge_all_keeps_keys; [|exact Hp|apply create_keeps_defaults; assumption].
  unfold create. destruct (truthy _); repeat (apply merge_wf || apply mk_resource_wf || assumption).
Qed.
Print Assumptions C18_mandatory_keys_survive.

(* every resource the agent can build is well-formed, so the hypotheses above are met *)
Theorem C18_resources_wf : forall attrs schema, wf_res (mk_resource attrs schema).
Proof. exact mk_resource_wf. Qed.
Print Assumptions C18_resources_wf.

(* non-vacuity: a concrete full store evicts its oldest key and counts the drop *)
Example C18_example :
  let s := make (Some 2%nat) None [(KStr [97], VPrim (PInt 1)); (KStr [98], VPrim (PInt 2))] false in
  let s' := fst (set_item s (KStr [99]) (VPrim (PStr [120]))) in
  items s' = [([98], CP (CInt 2)); ([99], CP (CStr [120]))] /\ dropped s' = 1%nat.
Proof. vm_compute. split; reflexivity. Qed.

(* ---- tie by translation: BoundedAttributes.__setitem__ / __delitem__ as they are in /repo/src NOW (gen/PStore.v is
   regenerated on every run) are the model's set_item / del_item for every store, key text and value *)
Theorem C18_the_code_store_is_the_model :
  forall s k v,
  gen_setitem (option_map Z.of_nat (cap s)) (option_map Z.of_nat (vlimit s)) (immutable s) (items s) (Z.of_nat (dropped s)) k v =
    (let '(s', o) := set_item s (KStr k) v in ((items s', Z.of_nat (dropped s')), o)) /\
  gen_delitem (immutable s) (items s) k = (let '(s', o) := del_item s k in (items s', o)).
Proof. intros. split; [apply tie_setitem | apply tie_delitem]. Qed.
Print Assumptions C18_the_code_store_is_the_model.

(* stated over the translated code: a set on a store within its capacity leaves it within its capacity *)
Theorem C18_the_code_keeps_the_capacity :
  forall (c : nat) vl it d k v it' d' o,
  (length it <= c)%nat ->
  gen_setitem (Some (Z.of_nat c)) vl false it d k v = ((it', d'), o) -> (length it' <= c)%nat.
Proof. exact code_setitem_capacity. Qed.
Print Assumptions C18_the_code_keeps_the_capacity.

(* ---- tie by translation: Resource.merge as it is in /repo/src NOW (gen/PMerge.v) is the model's merge, for every pair of
   resources - so the precedence and "never modifies an operand" theorems above are statements about the code *)
Theorem C18_the_code_merges_as_the_model : forall a b, code_merge a b = merge a b.
Proof. exact tie_merge. Qed.
Print Assumptions C18_the_code_merges_as_the_model.

(* two different non-empty schemas: the receiver is handed back as it is (nothing is merged, nothing is modified) *)
Theorem C18_the_code_keeps_the_receiver_on_incompatible_schemas :
  forall a b, is_empty (r_schema a) = false -> is_empty (r_schema b) = false -> str_eqb (r_schema a) (r_schema b) = false ->
  code_merge a b = a.
Proof. exact code_merge_incompatible. Qed.
Print Assumptions C18_the_code_keeps_the_receiver_on_incompatible_schemas.
