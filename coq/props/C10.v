(* C10 -- Conditions and expressions: gate firing, frame scope, errors contained. *)
From Deep Require Import Base Config Limiter LimiterProofs Cond CondProofs.
From DeepGen Require Import PTruth PGate.
From Deep Require Import TieGate.

(* a hit collects only if the limits allow it and its condition evaluated to true *)
Theorem C10_gate :
  forall l s cond ts ev, snd (step l s (hit_of cond ts ev)) = true ->
  can_trigger l s ts = true /\ gate cond ev = true.
Proof. intros l s cond ts ev H. apply step_collects_only_if in H. exact H. Qed.
Print Assumptions C10_gate.

(* a condition that fails to evaluate is false, whatever the text of the error ("1", "true", ...) *)
Theorem C10_failing_condition_rejects :
  forall l s c ts ev cls msg, blank c = false -> ev c = EErr cls msg ->
  step l s (hit_of (Some c) ts ev) = (s, false).
Proof.
  intros l s c ts ev cls msg B E. unfold step, hit_of, gate. simpl. rewrite B, E. simpl.
  rewrite andb_false_r. reflexivity.
Qed.
Print Assumptions C10_failing_condition_rejects.

(* a rejected hit uses none of the fire budget ... *)
Theorem C10_rejected_keeps_budget :
  forall l s h, snd (step l s h) = false -> fst (step l s h) = s.
Proof. exact step_rejected_keeps_budget. Qed.
Print Assumptions C10_rejected_keeps_budget.

(* ... so after any number of rejected hits the first permitted true hit still collects *)
Theorem C10_rejected_then_collects :
  forall l hs h, (forall x, In x hs -> h_cond x = false) ->
  (fc l = -1 \/ 0 < fc l) -> in_window l (h_ts h) = true -> h_cond h = true ->
  snd (run l stats0 (hs ++ [h])) = map (fun _ => false) hs ++ [true].
Proof. exact rejected_hits_then_live. Qed.
Print Assumptions C10_rejected_then_collects.

(* scope: locals shadow the module's globals, which shadow the builtins; a name in none of the
   three is unresolved -- there is no fourth scope (nothing of the agent's own) *)
Theorem C10_scope :
  forall lo gl bu n,
  (forall v, alookup n lo = Some v -> resolve lo gl bu n = Some v) /\
  (forall v, alookup n lo = None -> alookup n gl = Some v -> resolve lo gl bu n = Some v) /\
  (alookup n lo = None -> alookup n gl = None -> resolve lo gl bu n = alookup n bu) /\
  (~ In n (akeys lo) -> ~ In n (akeys gl) -> ~ In n (akeys bu) -> resolve lo gl bu n = None).
Proof.
  intros lo gl bu n. unfold resolve. repeat split.
  - intros v E. rewrite E. reflexivity.
  - intros v E1 E2. rewrite E1, E2. reflexivity.
  - intros E1 E2. rewrite E1, E2. reflexivity.
  - intros A B C. apply alookup_None_notin in A, B, C. rewrite A, B, C. reflexivity.
Qed.
Print Assumptions C10_scope.

(* each expression has its own result: the result of e among l1 ++ e :: l2 is its result alone, an
   error result when e fails, and the other results do not depend on e *)
Theorem C10_error_local :
  forall ev l1 e l2,
  nth_error (watches ev (l1 ++ e :: l2)) (length l1) = Some (watch1 ev e) /\
  (forall cls m, ev e = EErr cls m -> snd (watch1 ev e) = WErr m) /\
  (forall e', firstn (length l1) (watches ev (l1 ++ e' :: l2)) = watches ev l1 /\
              skipn (S (length l1)) (watches ev (l1 ++ e' :: l2)) = watches ev l2).
Proof. exact watches_local. Qed.
Print Assumptions C10_error_local.

(* non-vacuity *)
Example C10_example :
  gate (Some [120]) (fun _ => EErr [75;101;121;69;114;114;111;114] [49]) = false /\
  gate (Some [120]) (fun _ => EVal [84;114;117;101]) = true /\ gate (Some [32]) (fun _ => EErr [] []) = true.
Proof. vm_compute. auto. Qed.

(* ---- tie by translation: ActionContext.can_trigger as it is in /repo/src NOW: limits first, then the condition; a hit
   passes the gate only with an absent / blank condition or one that EVALUATED to a truth word *)
Theorem C10_the_code_gate :
  forall limits cond ts ev,
  gen_action_can_trigger limits cond ts ev = limits ts && gate cond ev /\
  (gen_action_can_trigger limits cond ts ev = true ->
   limits ts = true /\
   (cond = None \/ exists c, cond = Some c /\ (blank c = true \/ exists t, ev c = EVal t /\ str2bool t = true))).
Proof. intros. split; [apply tie_action_can_trigger | apply code_gate]. Qed.
Print Assumptions C10_the_code_gate.

(* one hit as the handler codes it (`if ctx.can_trigger() and ctx.acquire(): ctx.process()`) over the translated
   ActionContext.can_trigger, whatever the limiter answers and whatever acquiring would record: a hit whose condition is false or
   fails to evaluate does not reach `acquire`, so the statistics stay exactly as they were (TieHit.code_hit_is_model_step
   composes this with the translated limiter into Limiter.step) *)
Theorem C10_the_code_rejected_hit_keeps_the_budget :
  forall (limits_ok : bool) (acquire : (Z * Z) * bool) (st : Z * Z) cond ts ev,
  gate cond ev = false ->
  (if gen_action_can_trigger (fun _ => limits_ok) cond ts ev then acquire else (st, false)) = (st, false).
Proof.
  intros limits_ok acquire st cond ts ev G. rewrite tie_action_can_trigger, G, andb_false_r. reflexivity.
Qed.
Print Assumptions C10_the_code_rejected_hit_keeps_the_budget.
