(* C09 -- Delivery runs off the application thread, exactly once, and flush really drains. *)
From Deep Require Import Base Tasks TasksProofs.

(* for every sequence of submissions (any subset failing), worker completions in any order the two-worker pool
   allows, and flush steps: every accepted task is executed at most once, and exactly once when it is done;
   the only transition that executes a task is a worker's (Finish) *)
Theorem C09_exactly_once : forall rr l, Forall once (tasks (run rr ts0 l)).
Proof. exact exactly_once. Qed.
Print Assumptions C09_exactly_once.

(* a failing task changes no other task *)
Theorem C09_failure_contained :
  forall rr s i j, i <> j -> nth_error (tasks (step rr s (Finish i))) j = nth_error (tasks s) j.
Proof. exact finish_changes_only_itself. Qed.
Print Assumptions C09_failure_contained.

(* flush returns normally whatever the tasks did ... *)
Theorem C09_flush_returns_normally : forall l b, fl (run false ts0 l) = FReturned b -> b = true.
Proof. exact flush_returns_normally. Qed.
Print Assumptions C09_flush_returns_normally.

(* ... and only after every accepted task has finished *)
Theorem C09_flush_drains :
  forall l b, fl (run false ts0 l) = FReturned b ->
  is_open (run false ts0 l) = false /\ Forall (fun t => tf_done t = true) (tasks (run false ts0 l)).
Proof. exact flush_drains. Qed.
Print Assumptions C09_flush_drains.

(* work submitted after closing is refused visibly, nothing is enqueued *)
Theorem C09_refused_after_close :
  forall rr s f, is_open s = false ->
  tasks (step rr s (Submit f)) = tasks s /\ refused (step rr s (Submit f)) = S (refused s).
Proof. exact submit_after_close_refused. Qed.
Print Assumptions C09_refused_after_close.

(* waiting with result() (which re-raises) is refuted *)
Theorem C09_reraise_refuted : fl reraise_witness = FReturned false.
Proof. exact reraise_refuted. Qed.
Print Assumptions C09_reraise_refuted.
