(* C04 -- Rate limiting: fire_count, fire_period and the time window are never exceeded. *)
From Deep Require Import Base Config Limiter LimiterProofs.
From DeepGen Require Import PLimits.
From Deep Require Import TieLimits.

(* for every history of hits (positive times, any order of magnitude, any conditions) and every
   setting: at most fire_count collections unless fire_count is -1 *)
Theorem C04_count :
  forall l hs, (forall h, In h hs -> h_ts h > 0) -> fc l <> -1 ->
  Z.of_nat (count_true (snd (run l stats0 hs))) <= Z.max 0 (fc l).
Proof. exact seq_count. Qed.
Print Assumptions C04_count.

(* consecutive collections are at least fire_period milliseconds apart *)
Theorem C04_spacing :
  forall l hs, (forall h, In h hs -> h_ts h > 0) ->
  spaced (fp l * 1000000) (fired hs (snd (run l stats0 hs))).
Proof. exact seq_spacing. Qed.
Print Assumptions C04_spacing.

(* no collection outside the window the action holds *)
Theorem C04_window :
  forall l hs t, (forall h, In h hs -> h_ts h > 0) ->
  In t (fired hs (snd (run l stats0 hs))) -> in_window l t = true.
Proof. exact seq_window. Qed.
Print Assumptions C04_window.

(* when the limits allow it and the condition holds, the hit does collect (the boundary value
   ts - last = period collects) *)
Theorem C04_live :
  forall l s h,
  (fc l = -1 \/ cnt s < fc l) -> in_window l (h_ts h) = true ->
  (lastf s = 0 \/ fp l * 1000000 <= 0 \/ h_ts h - lastf s >= fp l * 1000000) -> h_cond h = true ->
  step l s h = (fire s (h_ts h), true).
Proof. exact step_live. Qed.
Print Assumptions C04_live.

(* unparsable or absent settings fall back to 1 collection / 1000 ms *)
Theorem C04_unparsable_defaults :
  forall s d, parse_int s = None -> get_int (Some (AText s)) d = d.
Proof. intros s d E. unfold get_int. rewrite E. reflexivity. Qed.
Print Assumptions C04_unparsable_defaults.
Theorem C04_absent_defaults : forall a b, fc (mk_lim None None a b) = 1 /\ fp (mk_lim None None a b) = 1000.
Proof. intros; split; reflexivity. Qed.
Print Assumptions C04_absent_defaults.

(* any number of threads, any schedule of their steps (check; condition; atomic claim; collect) *)
Theorem C04_concurrent :
  forall l ths sched, (forall p, In p ths -> fst p > 0) ->
  let c := crun true l (cinit ths) sched in
  (length (c_collected c) <= length (c_acq c))%nat /\
  (fc l <> -1 -> Z.of_nat (length (c_acq c)) <= Z.max 0 (fc l)) /\
  spaced (fp l * 1000000) (c_acq c) /\
  (forall t, In t (c_acq c) -> in_window l t = true).
Proof. exact conc_safe. Qed.
Print Assumptions C04_concurrent.

(* the check-then-record discipline without the atomic claim violates the count: witness schedule *)
Theorem C04_unlocked_refuted : length (c_collected unlocked_witness) = 2%nat.
Proof. exact conc_unlocked_refuted. Qed.
Print Assumptions C04_unlocked_refuted.

(* ---- tie by translation: LocationAction.can_trigger / try_trigger, TracepointWindow.in_window and
   TracepointExecutionStats.fire as they are in /repo/src NOW are the model's functions, and what they allow is within the limits *)
Theorem C04_the_code_is_the_model :
  forall l s ts,
  gen_can_trigger (fc l) (fp l) (ws l) (we l) (cnt s) (lastf s) ts = can_trigger l s ts /\
  gen_in_window (ws l) (we l) ts = in_window l ts /\
  gen_fire (cnt s) (lastf s) ts = (cnt (fire s ts), lastf (fire s ts)) /\
  gen_try_trigger (fc l) (fp l) (ws l) (we l) (cnt s) (lastf s) ts =
    (if can_trigger l s ts then ((cnt (fire s ts), lastf (fire s ts)), true) else ((cnt s, lastf s), false)).
Proof. intros. repeat split; [apply tie_can_trigger | apply tie_in_window | apply tie_try_trigger]. Qed.
Print Assumptions C04_the_code_is_the_model.

Theorem C04_the_code_allows_only_within_limits :
  forall fc fp ws we cnt lastf ts,
  gen_can_trigger fc fp ws we cnt lastf ts = true ->
  (fc = -1 \/ cnt < fc) /\ gen_in_window ws we ts = true /\ (lastf = 0 \/ fp * 1000000 <= 0 \/ fp * 1000000 <= ts - lastf).
Proof. exact code_can_trigger_sound. Qed.
Print Assumptions C04_the_code_allows_only_within_limits.

(* the atomic step: a fire is recorded exactly when the limits allow it at that moment *)
Theorem C04_the_code_records_iff_allowed :
  forall fc fp ws we cnt lastf ts,
  gen_try_trigger fc fp ws we cnt lastf ts =
  if gen_can_trigger fc fp ws we cnt lastf ts then ((cnt + 1, ts), true) else ((cnt, lastf), false).
Proof. exact code_try_trigger. Qed.
Print Assumptions C04_the_code_records_iff_allowed.

(* the settings as coded (LocationAction.__get_int, fire_count, fire_period translated from /repo/src): the model's mk_lim, and
   a setting that is absent or not a decimal integer falls back to 1 fire / 1000 ms *)
Theorem C04_the_code_settings_are_the_model :
  forall c a b,
  gen_fire_count c = fc (mk_lim (alookup [102;105;114;101;95;99;111;117;110;116] c) (alookup [102;105;114;101;95;112;101;114;105;111;100] c) a b) /\
  gen_fire_period c = fp (mk_lim (alookup [102;105;114;101;95;99;111;117;110;116] c) (alookup [102;105;114;101;95;112;101;114;105;111;100] c) a b).
Proof. exact tie_settings. Qed.
Print Assumptions C04_the_code_settings_are_the_model.

Theorem C04_the_code_defaults :
  forall c,
  (alookup [102;105;114;101;95;99;111;117;110;116] c = None \/
   (exists s, alookup [102;105;114;101;95;99;111;117;110;116] c = Some (AText s) /\ parse_int s = None) -> gen_fire_count c = 1) /\
  (alookup [102;105;114;101;95;112;101;114;105;111;100] c = None \/
   (exists s, alookup [102;105;114;101;95;112;101;114;105;111;100] c = Some (AText s) /\ parse_int s = None) -> gen_fire_period c = 1000).
Proof. exact code_defaults. Qed.
Print Assumptions C04_the_code_defaults.

(* without a period there is nothing to keep apart: a hit that the count and the window allow collects whatever time it carries -
   also a time BEFORE the last recorded fire (a thread that was overtaken between reading the clock and claiming the fire, a clock
   that was set back) *)
Theorem C04_without_a_period_a_stale_hit_collects :
  forall l s h, (fc l = -1 \/ cnt s < fc l) -> in_window l (h_ts h) = true -> fp l <= 0 -> h_cond h = true ->
  step l s h = (fire s (h_ts h), true).
Proof. intros l s h A B C D. apply step_live; auto. right. left. lia. Qed.
Print Assumptions C04_without_a_period_a_stale_hit_collects.

(* KNOWN FINDING (clock-set-back): with a POSITIVE period the signed difference decides, so a hit that carries a time a whole period
   or more BEFORE the last recorded fire is refused although the two collections would be more than a period apart: period 1000 ms,
   last fire at 10 s, hit at 5 s *)
Theorem C04_clock_set_back_refuted :
  let l := {| fc := -1; fp := 1000; ws := 0; we := 0 |} in
  let s := {| cnt := 1; lastf := 10000000000 |} in
  step l s {| h_ts := 5000000000; h_cond := true |} = (s, false) /\ 10000000000 - 5000000000 >= fp l * 1000000.
Proof. vm_compute. split; [reflexivity|discriminate]. Qed.
Print Assumptions C04_clock_set_back_refuted.
