(* C04 -- Rate limiting: fire_count, fire_period and the time window are never exceeded. *)
From Deep Require Import Base Config Limiter LimiterProofs.

(* for every history of hits (positive times, any order of magnitude, any conditions) and every
   setting: at most fire_count collections unless fire_count is -1 *)
Theorem C04_count :
  forall l hs, (forall h, In h hs -> h_ts h > 0) -> fc l <> -1 ->
  Z.of_nat (count_true (snd (run l stats0 hs))) <= Z.max 0 (fc l).
Proof. exact seq_count. Qed.
Print Assumptions C04_count.

(* consecutive collections are at least fire_period milliseconds apart *)
Theorem C04_spacing :
  forall l hs, (forall h, In h hs -> h_ts h > 0) ->
  spaced (fp l * 1000000) (fired hs (snd (run l stats0 hs))).
Proof. exact seq_spacing. Qed.
Print Assumptions C04_spacing.

(* no collection outside the window the action holds *)
Theorem C04_window :
  forall l hs t, (forall h, In h hs -> h_ts h > 0) ->
  In t (fired hs (snd (run l stats0 hs))) -> in_window l t = true.
Proof. exact seq_window. Qed.
Print Assumptions C04_window.

(* when the limits allow it and the condition holds, the hit does collect (the boundary value
   ts - last = period collects) *)
Theorem C04_live :
  forall l s h,
  (fc l = -1 \/ cnt s < fc l) -> in_window l (h_ts h) = true ->
  (lastf s = 0 \/ h_ts h - lastf s >= fp l * 1000000) -> h_cond h = true ->
  step l s h = (fire s (h_ts h), true).
Proof. exact step_live. Qed.
Print Assumptions C04_live.

(* unparsable or absent settings fall back to 1 collection / 1000 ms *)
Theorem C04_unparsable_defaults :
  forall s d, parse_int s = None -> get_int (Some (AText s)) d = d.
Proof. intros s d E. unfold get_int. rewrite E. reflexivity. Qed.
Print Assumptions C04_unparsable_defaults.
Theorem C04_absent_defaults : forall a b, fc (mk_lim None None a b) = 1 /\ fp (mk_lim None None a b) = 1000.
Proof. intros; split; reflexivity. Qed.
Print Assumptions C04_absent_defaults.

(* any number of threads, any schedule of their steps (check; condition; atomic claim; collect) *)
Theorem C04_concurrent :
  forall l ths sched, (forall p, In p ths -> fst p > 0) ->
  let c := crun true l (cinit ths) sched in
  (length (c_collected c) <= length (c_acq c))%nat /\
  (fc l <> -1 -> Z.of_nat (length (c_acq c)) <= Z.max 0 (fc l)) /\
  spaced (fp l * 1000000) (c_acq c) /\
  (forall t, In t (c_acq c) -> in_window l t = true).
Proof. exact conc_safe. Qed.
Print Assumptions C04_concurrent.

(* the check-then-record discipline without the atomic claim violates the count: witness schedule *)
Theorem C04_unlocked_refuted : length (c_collected unlocked_witness) = 2%nat.
Proof. exact conc_unlocked_refuted. Qed.
Print Assumptions C04_unlocked_refuted.
