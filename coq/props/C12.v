(* C12 -- Installed tracepoints converge to the service's latest configuration. *)
From Deep Require Import Base ConfigSvc ConfigSvcProofs.

(* for every sequence of poll answers, register / unregister calls and task executions (any of the two
   running tasks first): once no update task is pending, what the handler acts on is exactly the latest
   polled configuration plus the tracepoints currently registered in code *)
Theorem C12_converges :
  forall ops, pending (run true svc0 ops) = [] -> installed (run true svc0 ops) = latest (run true svc0 ops).
Proof. exact converges. Qed.
Print Assumptions C12_converges.

(* the hash reported by the next poll is the hash of the latest polled configuration (which is installed, or
   has a pending task, by C12_converges) *)
Theorem C12_reported_hash : forall ops, HashOf (run true svc0 ops) (last_update_of ops).
Proof. exact reported_hash. Qed.
Print Assumptions C12_reported_hash.

Theorem C12_no_change_alters_nothing :
  forall s ts, let s' := step true s (PollNoChange ts) in
  polled s' = polled s /\ hash s' = hash s /\ custom s' = custom s /\ installed s' = installed s /\ pending s' = pending s.
Proof. exact no_change_alters_nothing. Qed.
Print Assumptions C12_no_change_alters_nothing.

Theorem C12_failed_poll_alters_nothing : forall fresh s, step fresh s PollFailed = s.
Proof. exact failed_poll_alters_nothing. Qed.
Print Assumptions C12_failed_poll_alters_nothing.

(* tasks that install the configuration captured when they were submitted are refuted: update, update, the
   second task runs first, then the first: quiescent with the OLDER configuration *)
Theorem C12_captured_refuted :
  pending captured_witness = [] /\ installed captured_witness = [1%nat] /\ latest captured_witness = [2%nat].
Proof. exact captured_refuted. Qed.
Print Assumptions C12_captured_refuted.
