(* C12 -- Installed tracepoints converge to the service's latest configuration. *)
From Deep Require Import Base ConfigSvc ConfigSvcProofs.
From DeepGen Require Import PService PPoll.
From Deep Require Import PureSupport TieService TiePoll.

(* for every sequence of poll answers, register / unregister calls and task executions (any of the two
   running tasks first): once no update task is pending, what the handler acts on is exactly the latest
   polled configuration plus the tracepoints currently registered in code *)
Theorem C12_converges :
  forall ops, pending (run true svc0 ops) = [] -> installed (run true svc0 ops) = latest (run true svc0 ops).
Proof. exact converges. Qed.
Print Assumptions C12_converges.

(* the hash reported by the next poll is the hash of the latest polled configuration (which is installed, or
   has a pending task, by C12_converges) *)
Theorem C12_reported_hash : forall ops, HashOf (run true svc0 ops) (last_update_of ops).
Proof. exact reported_hash. Qed.
Print Assumptions C12_reported_hash.

Theorem C12_no_change_alters_nothing :
  forall s ts, let s' := step true s (PollNoChange ts) in
  polled s' = polled s /\ hash s' = hash s /\ custom s' = custom s /\ installed s' = installed s /\ pending s' = pending s.
Proof. exact no_change_alters_nothing. Qed.
Print Assumptions C12_no_change_alters_nothing.

Theorem C12_failed_poll_alters_nothing : forall fresh s, step fresh s PollFailed = s.
Proof. exact failed_poll_alters_nothing. Qed.
Print Assumptions C12_failed_poll_alters_nothing.

(* tasks that install the configuration captured when they were submitted are refuted: update, update, the
   second task runs first, then the first: quiescent with the OLDER configuration *)
Theorem C12_captured_refuted :
  pending captured_witness = [] /\ installed captured_witness = [1%nat] /\ latest captured_witness = [2%nat].
Proof. exact captured_refuted. Qed.
Print Assumptions C12_captured_refuted.

(* ---- tie by translation: the service's update methods and the handler's listener as they are in /repo/src NOW
   (gen/PService.v is regenerated on every run) are the steps of the model *)
Theorem C12_the_code_steps_are_the_model :
  forall s ts h c,
  gen_update_no_change (last_update s) ts = last_update (step true s (PollNoChange ts)) /\
  gen_update_new_config (polled s) (hash s) (last_update s) (pending s) ts h c =
    (let s' := step true s (PollUpdate ts h c) in (polled s', hash s', last_update s', pending s')) /\
  (forall k t oh ch oc, (k < 2)%nat -> nth_error (pending s) k = Some t ->
     gen_update_listeners (polled s) (hash s) (map snd (custom s)) (installed s) ts oh ch oc (tk_captured t) =
     installed (step true s (RunTask k))) /\
  (forall i oh ch oc newc, gen_listener_config_change i ts oh ch oc newc = newc).
Proof.
  intros. split; [apply tie_no_change|]. split; [apply tie_new_config|]. split; [|reflexivity].
  intros. apply tie_run_task; assumption.
Qed.
Print Assumptions C12_the_code_steps_are_the_model.

(* stated over the translated code: what an update task installs does not depend on the configuration it was handed
   when it was submitted - it is the polled configuration of the moment it runs, followed by the registrations *)
Theorem C12_the_code_installs_the_current_state :
  forall polled hash custom installed ts oh ch oc captured,
  gen_update_listeners polled hash custom installed ts oh ch oc captured = polled ++ custom.
Proof. reflexivity. Qed.
Print Assumptions C12_the_code_installs_the_current_state.

(* ---- LongPoll.poll as it is in /repo/src NOW (gen/PPoll.v): one poll is one step of the model - PollNoChange with the answer's
   time when the answer says "no change", else PollUpdate with the answer's time, hash and tracepoints -, for every state of the
   service, every clock and every service behaviour (any function from the reported hash to an answer) *)
Theorem C12_the_code_poll_is_a_model_step :
  forall s now no_change answer,
  gen_poll (polled s) (hash s) (last_update s) (pending s) now no_change answer =
  svc_view (step true s (op_of_answer no_change (answer (hash s)))).
Proof. exact tie_poll. Qed.
Print Assumptions C12_the_code_poll_is_a_model_step.

(* the poll reports the hash of the configuration it currently holds (C12_reported_hash says which that is) and its outcome depends
   on the service only through the answer to THAT hash *)
Theorem C12_the_code_poll_reports_the_current_hash :
  forall polled hash last_update pending now no_change a1 a2,
  a1 hash = a2 hash ->
  gen_poll polled hash last_update pending now no_change a1 = gen_poll polled hash last_update pending now no_change a2.
Proof. exact poll_sends_current_hash. Qed.
Print Assumptions C12_the_code_poll_reports_the_current_hash.

(* non-vacuity: an update answer on the initial service installs nothing yet but leaves one task pending with the new hash held *)
Example C12_the_code_poll_example :
  gen_poll (polled svc0) (hash svc0) (last_update svc0) (pending svc0) 5 0 (fun _ => ((1, 7), (3%nat, [4%nat])))%Z =
  ([4%nat], Some 3%nat, 7%Z, [{| tk_captured := [4%nat] |}]).
Proof. vm_compute. reflexivity. Qed.
