(* C16 -- Log tracepoints emit the template with every field evaluated in place. *)
From Deep Require Import Base Config Limiter LimiterProofs Cond Template TemplateProofs.

(* for every template built from literal characters (braces doubled) and {expression} fields, and every
   frame state: the message is "[deep] " followed by the literal text with each field replaced by the
   text of its value -- or by its error text, the rest of the message still being produced *)
Theorem C16_render :
  forall segs ev, forallb wf_seg segs = true ->
  render (print segs) ev = Some (PREFIX ++ flat_map (seg_text ev) segs).
Proof. exact render_print. Qed.
Print Assumptions C16_render.

Theorem C16_failing_field_is_its_error_text :
  forall ev e cls msg, ev e = EErr cls msg -> seg_text ev (Field e) = msg.
Proof. intros ev e cls msg E. unfold seg_text, field_text. rewrite E. reflexivity. Qed.
Print Assumptions C16_failing_field_is_its_error_text.

(* a template without braces is emitted as it is *)
Theorem C16_literal : forall t ev, forallb plain t = true -> render t ev = Some (PREFIX ++ t).
Proof. exact render_literal. Qed.
Print Assumptions C16_literal.

(* one message per permitted hit *)
Theorem C16_once :
  forall l tpl hs, length (log_run l tpl hs) = count_true (snd (run l stats0 (map fst hs))).
Proof. exact log_run_length. Qed.
Print Assumptions C16_once.

(* the logger receives the message, the tracepoint id and the context id each in its own place *)
Theorem C16_labels :
  forall msg tp ctx, lr_msg (emit msg tp ctx) = msg /\ lr_tp (emit msg tp ctx) = tp /\ lr_ctx (emit msg tp ctx) = ctx.
Proof. intros; repeat split. Qed.
Print Assumptions C16_labels.

(* on a collecting tracepoint there is one LOG watch per field, in order, each with its own result *)
Theorem C16_snapshot_watches :
  forall ev a b, watches ev (fields (a ++ b)) = watches ev (fields a) ++ watches ev (fields b).
Proof. intros ev a b. rewrite fields_app. unfold watches. apply map_app. Qed.
Print Assumptions C16_snapshot_watches.

Example C16_example :
  render [97; 61; 123; 120; 125; 32; 123; 123; 125; 125] (fun _ => EVal [55]) = Some (PREFIX ++ [97; 61; 55; 32; 123; 125]).
Proof. vm_compute. reflexivity. Qed.
