(* C06 -- Collection is total and per-tracepoint independent. *)
From Deep Require Import Base Config Collector CollectorProofs.

(* Totality.  The model's collector is a total function of (limits, heap, frames, watches): every
   primitive through which it observes a host object - type name, guarded text, children by
   kind - is defined for every object, and an object that offers no attribute dictionary, or whose
   text cannot be produced, is a leaf / carries the reader's placeholder text.  What remains to be
   stated is that such objects still GET an entry carrying their real type name and identity, and
   that nothing else is disturbed: *)
Theorem C06_offending_value_has_entry :
  forall c h fuel fifo cs name o v x,
  In (v, x) (table (run fuel fifo c h (init cs [] name o))) ->
  v_ty x = o_ty (hget h (v_oid x)) /\ v_val x = firstn (max_str c) (otext (hget h (v_oid x))).
Proof.
  intros c h fuel fifo cs name o v x I.
  destruct (run_table_ok c h fuel fifo (init cs [] name o)) with (v := v) (x := x) as (A & B & _);
    [intros ? ? []|exact I|]. split; assumption.
Qed.
Print Assumptions C06_offending_value_has_entry.

(* an object without children (no attribute dictionary, NO_CHILD type) never enqueues anything,
   so it cannot disturb the collection of the other variables *)
Theorem C06_leaf_adds_nothing :
  forall c h o d v, o_kind (hget h o) = KLeaf -> children_of c h o d v = [].
Proof. intros c h o d v E. unfold children_of. rewrite E. destruct (max_depth c <=? d + 1)%nat; reflexivity. Qed.
Print Assumptions C06_leaf_adds_nothing.

(* Independence.  With one cache and one table per action, the snapshots of the tracepoints that
   share an event are computed from the heap alone; the snapshot of action A among l1 ++ A :: l2
   is its snapshot alone. *)
Record action_in := { ai_cfg : cfg; ai_frames : list frame_in; ai_watches : list (str * nat) }.
Definition snapshots_of (fuel : nat) (h : heap) (acts : list action_in) : list snap_out :=
  map (fun a => snapshot fuel true (ai_cfg a) h (ai_frames a) (ai_watches a)) acts.
Theorem C06_independent :
  forall fuel h l1 a l2,
  nth_error (snapshots_of fuel h (l1 ++ a :: l2)) (length l1) =
  Some (snapshot fuel true (ai_cfg a) h (ai_frames a) (ai_watches a)).
Proof.
  intros fuel h l1 a l2. unfold snapshots_of. rewrite map_app. simpl.
  rewrite nth_error_app2; rewrite map_length; [|lia]. rewrite Nat.sub_diag. reflexivity.
Qed.
Print Assumptions C06_independent.

(* a frame that is not selected carries no variables and touches neither cache nor table *)
Theorem C06_unselected_frame_untouched :
  forall fuel fifo c h a f, fr_collect f = false -> collect_frame fuel fifo c h a f = (a, []).
Proof. intros fuel fifo c h a f E. unfold collect_frame. rewrite E. reflexivity. Qed.
Print Assumptions C06_unselected_frame_untouched.
