(* C08 -- Wire fidelity: the service receives every snapshot field intact, with auth. *)
From Deep Require Import Base Wire WireProofs.
From DeepGen Require Import WireMap PLine.
From Deep Require Import TieLine.

(* the pairing (message field, record field) the protocol intends, written from the .proto documentation; the tables
   table_* and the field lists fields_* are REGENERATED from /repo/src (push/__init__.py and the record classes) *)
Definition expected_snapshot : list (str * str) := [([73; 68], [105; 100]); ([116; 114; 97; 99; 101; 112; 111; 105; 110; 116], [116; 114; 97; 99; 101; 112; 111; 105; 110; 116]); ([118; 97; 114; 95; 108; 111; 111; 107; 117; 112], [118; 97; 114; 95; 108; 111; 111; 107; 117; 112]); ([116; 115; 95; 110; 97; 110; 111; 115], [116; 115; 95; 110; 97; 110; 111; 115]); ([102; 114; 97; 109; 101; 115], [102; 114; 97; 109; 101; 115]); ([119; 97; 116; 99; 104; 101; 115], [119; 97; 116; 99; 104; 101; 115]); ([97; 116; 116; 114; 105; 98; 117; 116; 101; 115], [97; 116; 116; 114; 105; 98; 117; 116; 101; 115]); ([100; 117; 114; 97; 116; 105; 111; 110; 95; 110; 97; 110; 111; 115], [100; 117; 114; 97; 116; 105; 111; 110; 95; 110; 97; 110; 111; 115]); ([114; 101; 115; 111; 117; 114; 99; 101], [114; 101; 115; 111; 117; 114; 99; 101]); ([108; 111; 103; 95; 109; 115; 103], [108; 111; 103; 95; 109; 115; 103])].
Definition expected_tracepoint : list (str * str) := [([73; 68], [105; 100]); ([112; 97; 116; 104], [112; 97; 116; 104]); ([108; 105; 110; 101; 95; 110; 117; 109; 98; 101; 114], [108; 105; 110; 101; 95; 110; 111]); ([97; 114; 103; 115], [97; 114; 103; 115]); ([119; 97; 116; 99; 104; 101; 115], [119; 97; 116; 99; 104; 101; 115])].
Definition expected_frame : list (str * str) := [([102; 105; 108; 101; 95; 110; 97; 109; 101], [102; 105; 108; 101; 95; 110; 97; 109; 101]); ([115; 104; 111; 114; 116; 95; 112; 97; 116; 104], [115; 104; 111; 114; 116; 95; 112; 97; 116; 104]); ([109; 101; 116; 104; 111; 100; 95; 110; 97; 109; 101], [109; 101; 116; 104; 111; 100; 95; 110; 97; 109; 101]); ([108; 105; 110; 101; 95; 110; 117; 109; 98; 101; 114], [108; 105; 110; 101; 95; 110; 117; 109; 98; 101; 114]); ([99; 108; 97; 115; 115; 95; 110; 97; 109; 101], [99; 108; 97; 115; 115; 95; 110; 97; 109; 101]); ([105; 115; 95; 97; 115; 121; 110; 99], [105; 115; 95; 97; 115; 121; 110; 99]); ([99; 111; 108; 117; 109; 110; 95; 110; 117; 109; 98; 101; 114], [99; 111; 108; 117; 109; 110; 95; 110; 117; 109; 98; 101; 114]); ([116; 114; 97; 110; 115; 112; 105; 108; 101; 100; 95; 102; 105; 108; 101; 95; 110; 97; 109; 101], [116; 114; 97; 110; 115; 112; 105; 108; 101; 100; 95; 102; 105; 108; 101; 95; 110; 97; 109; 101]); ([116; 114; 97; 110; 115; 112; 105; 108; 101; 100; 95; 108; 105; 110; 101; 95; 110; 117; 109; 98; 101; 114], [116; 114; 97; 110; 115; 112; 105; 108; 101; 100; 95; 108; 105; 110; 101; 95; 110; 117; 109; 98; 101; 114]); ([116; 114; 97; 110; 115; 112; 105; 108; 101; 100; 95; 99; 111; 108; 117; 109; 110; 95; 110; 117; 109; 98; 101; 114], [116; 114; 97; 110; 115; 112; 105; 108; 101; 100; 95; 99; 111; 108; 117; 109; 110; 95; 110; 117; 109; 98; 101; 114]); ([118; 97; 114; 105; 97; 98; 108; 101; 115], [118; 97; 114; 105; 97; 98; 108; 101; 115]); ([97; 112; 112; 95; 102; 114; 97; 109; 101], [97; 112; 112; 95; 102; 114; 97; 109; 101])].
Definition expected_watch : list (str * str) := [([101; 120; 112; 114; 101; 115; 115; 105; 111; 110], [101; 120; 112; 114; 101; 115; 115; 105; 111; 110]); ([103; 111; 111; 100; 95; 114; 101; 115; 117; 108; 116], [114; 101; 115; 117; 108; 116]); ([101; 114; 114; 111; 114; 95; 114; 101; 115; 117; 108; 116], [101; 114; 114; 111; 114]); ([115; 111; 117; 114; 99; 101], [115; 111; 117; 114; 99; 101])].
Definition expected_variable : list (str * str) := [([116; 121; 112; 101], [116; 121; 112; 101]); ([118; 97; 108; 117; 101], [118; 97; 108; 117; 101]); ([104; 97; 115; 104], [104; 97; 115; 104]); ([99; 104; 105; 108; 100; 114; 101; 110], [99; 104; 105; 108; 100; 114; 101; 110]); ([116; 114; 117; 110; 99; 97; 116; 101; 100], [116; 114; 117; 110; 99; 97; 116; 101; 100])].
Definition expected_variable_id : list (str * str) := [([73; 68], [118; 105; 100]); ([110; 97; 109; 101], [110; 97; 109; 101]); ([109; 111; 100; 105; 102; 105; 101; 114; 115], [109; 111; 100; 105; 102; 105; 101; 114; 115]); ([111; 114; 105; 103; 105; 110; 97; 108; 95; 110; 97; 109; 101], [111; 114; 105; 103; 105; 110; 97; 108; 95; 110; 97; 109; 101])].

(* EventSnapshot: every field of the record is the source of exactly one message field, none dropped, duplicated or swapped *)
Theorem C08_snapshot_lossless :
  same_table table_snapshot expected_snapshot = true /\ lossless table_snapshot fields_EventSnapshot = true /\
  forall (V : Type) (dflt : V) (s : record V) f, In f fields_EventSnapshot ->
    unconvert V dflt table_snapshot (convert V dflt table_snapshot s) f = s f.
Proof.
  split; [vm_compute; reflexivity|]. split; [vm_compute; reflexivity|].
  intros V dflt s f I. apply (lossless_roundtrip dflt table_snapshot fields_EventSnapshot); [vm_compute; reflexivity|exact I].
Qed.
Print Assumptions C08_snapshot_lossless.

(* TracePointConfig: every field of the record is the source of exactly one message field, none dropped, duplicated or swapped *)
Theorem C08_tracepoint_lossless :
  same_table table_tracepoint expected_tracepoint = true /\ lossless table_tracepoint fields_TracePointConfig = true /\
  forall (V : Type) (dflt : V) (s : record V) f, In f fields_TracePointConfig ->
    unconvert V dflt table_tracepoint (convert V dflt table_tracepoint s) f = s f.
Proof.
  split; [vm_compute; reflexivity|]. split; [vm_compute; reflexivity|].
  intros V dflt s f I. apply (lossless_roundtrip dflt table_tracepoint fields_TracePointConfig); [vm_compute; reflexivity|exact I].
Qed.
Print Assumptions C08_tracepoint_lossless.

(* StackFrame: every field of the record is the source of exactly one message field, none dropped, duplicated or swapped *)
Theorem C08_frame_lossless :
  same_table table_frame expected_frame = true /\ lossless table_frame fields_StackFrame = true /\
  forall (V : Type) (dflt : V) (s : record V) f, In f fields_StackFrame ->
    unconvert V dflt table_frame (convert V dflt table_frame s) f = s f.
Proof.
  split; [vm_compute; reflexivity|]. split; [vm_compute; reflexivity|].
  intros V dflt s f I. apply (lossless_roundtrip dflt table_frame fields_StackFrame); [vm_compute; reflexivity|exact I].
Qed.
Print Assumptions C08_frame_lossless.

(* WatchResult: every field of the record is the source of exactly one message field, none dropped, duplicated or swapped *)
Theorem C08_watch_lossless :
  same_table table_watch expected_watch = true /\ lossless table_watch fields_WatchResult = true /\
  forall (V : Type) (dflt : V) (s : record V) f, In f fields_WatchResult ->
    unconvert V dflt table_watch (convert V dflt table_watch s) f = s f.
Proof.
  split; [vm_compute; reflexivity|]. split; [vm_compute; reflexivity|].
  intros V dflt s f I. apply (lossless_roundtrip dflt table_watch fields_WatchResult); [vm_compute; reflexivity|exact I].
Qed.
Print Assumptions C08_watch_lossless.

(* Variable: every field of the record is the source of exactly one message field, none dropped, duplicated or swapped *)
Theorem C08_variable_lossless :
  same_table table_variable expected_variable = true /\ lossless table_variable fields_Variable = true /\
  forall (V : Type) (dflt : V) (s : record V) f, In f fields_Variable ->
    unconvert V dflt table_variable (convert V dflt table_variable s) f = s f.
Proof.
  split; [vm_compute; reflexivity|]. split; [vm_compute; reflexivity|].
  intros V dflt s f I. apply (lossless_roundtrip dflt table_variable fields_Variable); [vm_compute; reflexivity|exact I].
Qed.
Print Assumptions C08_variable_lossless.

(* VariableId: every field of the record is the source of exactly one message field, none dropped, duplicated or swapped *)
Theorem C08_variable_id_lossless :
  same_table table_variable_id expected_variable_id = true /\ lossless table_variable_id fields_VariableId = true /\
  forall (V : Type) (dflt : V) (s : record V) f, In f fields_VariableId ->
    unconvert V dflt table_variable_id (convert V dflt table_variable_id s) f = s f.
Proof.
  split; [vm_compute; reflexivity|]. split; [vm_compute; reflexivity|].
  intros V dflt s f I. apply (lossless_roundtrip dflt table_variable_id fields_VariableId); [vm_compute; reflexivity|exact I].
Qed.
Print Assumptions C08_variable_id_lossless.

(* attribute values (bool, text, int, float and sequences of them, as the attribute store keeps them) are sent injectively *)
Theorem C08_attribute_values_injective : forall a b, conv_value a = conv_value b -> a = b.
Proof. exact conv_value_injective. Qed.
Print Assumptions C08_attribute_values_injective.

(* text: valid unicode text is sent unchanged; for ANY text (lone surrogates included) what is sent is valid unicode,
   so the snapshot is never dropped at conversion because of a string *)
Theorem C08_text :
  (forall s, valid_text s = true -> sanitize s = s) /\ (forall s, valid_text (sanitize s) = true).
Proof. split; [exact sanitize_valid_unchanged|exact sanitize_always_valid]. Qed.
Print Assumptions C08_text.

(* ---- tie by translation: TracePointConfig.line_no as it is in /repo/src NOW (gen/PLine.v): the line_number field of the wire
   message is unsigned; what the getter hands to it is never negative (a METHOD tracepoint, for which the agent holds -1, reports 0 -
   a negative value would make the encoder reject the whole snapshot), and a real line is reported unchanged *)
Theorem C08_the_code_line_number_fits_the_wire :
  forall n : Z, (0 <= gen_line_no n)%Z /\ ((0 <= n)%Z -> gen_line_no n = n).
Proof. intros n. split; [apply code_line_fits_the_wire|apply code_line_kept]. Qed.
Print Assumptions C08_the_code_line_number_fits_the_wire.
