(* C13 -- Registering a tracepoint in code returns a handle that removes exactly it. *)
From Deep Require Import Base ConfigSvc ConfigSvcProofs.
From DeepGen Require Import PService PRegistry.
From Deep Require Import PureSupport TieRegistry.

Theorem C13_invariant_reachable : forall ops, HInv (run true svc0 ops).
Proof. exact hinv_reachable. Qed.
Print Assumptions C13_invariant_reachable.

(* active alongside, not instead of, what is there; under a handle no other live registration has *)
Theorem C13_register_adds :
  forall s tp, HInv s ->
  let s' := step true s (Register tp) in
  custom s' = custom s ++ [(next_handle s, tp)] /\ polled s' = polled s /\ ~ In (next_handle s) (handles s).
Proof. exact register_adds. Qed.
Print Assumptions C13_register_adds.

(* unregistering a handle removes that registration and only that one, whatever else shares its location *)
Theorem C13_unregister_exact :
  forall s h x, HInv s -> (In x (custom (step true s (Unregister h))) <-> In x (custom s) /\ fst x <> h).
Proof. exact unregister_exact. Qed.
Print Assumptions C13_unregister_exact.

Theorem C13_unregister_twice_is_harmless :
  forall s h, HInv s -> step true (step true s (Unregister h)) (Unregister h) = step true s (Unregister h).
Proof. exact unregister_twice. Qed.
Print Assumptions C13_unregister_twice_is_harmless.

Theorem C13_service_update_keeps_registrations :
  forall s ts h c, custom (step true s (PollUpdate ts h c)) = custom s /\ polled (step true s (PollUpdate ts h c)) = c.
Proof. exact update_keeps_registrations. Qed.
Print Assumptions C13_service_update_keeps_registrations.

(* installed = service's + registered once tasks are done: C12_converges with latest = polled ++ registered *)
Theorem C13_active_alongside :
  forall ops, pending (run true svc0 ops) = [] ->
  installed (run true svc0 ops) = polled (run true svc0 ops) ++ map snd (custom (run true svc0 ops)).
Proof. exact converges. Qed.
Print Assumptions C13_active_alongside.

Theorem C13_location_handle_refuted : map snd (custom loc_handle_witness) = [2%nat].
Proof. exact location_handle_refuted. Qed.
Print Assumptions C13_location_handle_refuted.

(* ---- tie by translation: TracepointConfigService.add_custom / remove_custom as they are in /repo/src NOW (gen/PService.v is
   regenerated on every run) are the Register / RegisterRefused / Unregister steps of the model; the handle returned is the
   fresh token, and a refused registration leaves every list as it was *)
Theorem C13_the_code_registrations_are_the_model :
  forall s tp h,
  gen_add_custom (polled s) (hash s) (last_update s) (map fst (custom s)) (map snd (custom s)) (pending s) (next_handle s) (Some tp) =
    (let s' := step true s (Register tp) in ((map fst (custom s'), map snd (custom s'), pending s'), Some (next_handle s))) /\
  gen_add_custom (polled s) (hash s) (last_update s) (map fst (custom s)) (map snd (custom s)) (pending s) (next_handle s) None =
    ((map fst (custom s), map snd (custom s), pending s), None) /\
  gen_remove_custom (polled s) (hash s) (last_update s) (map fst (custom s)) (map snd (custom s)) (pending s) h =
    (let s' := step true s (Unregister h) in (map fst (custom s'), map snd (custom s'), pending s')).
Proof. intros. split; [apply tie_add_custom|]. split; [apply tie_add_custom_refused | apply tie_remove_custom]. Qed.
Print Assumptions C13_the_code_registrations_are_the_model.
