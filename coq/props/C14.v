(* C14 -- Lifecycle: hooks installed once, restored exactly; shutdown always completes. *)
From Deep Require Import Base Lifecycle LifecycleProofs ExnFlow.
From DeepGen Require Import PHooks.
From Deep Require Import PureSupport TieHooks.
From DeepGen Require Import Skeleton.

(* repeat starts do nothing *)
Theorem C14_start_once : forall c l, started l = true -> do_start c l = l.
Proof. exact start_twice_does_nothing. Qed.
Print Assumptions C14_start_once.

(* with tracing disabled by configuration no start / shutdown sequence, with any faults, ever writes a hook *)
Theorem C14_notrace_never_touches_hooks :
  forall g c ops l, no_trace c = true -> hooks_installed l = false -> agent_ops_only ops ->
  sys_hook (run g c l ops) = sys_hook l /\ thr_hook (run g c l ops) = thr_hook l.
Proof. exact notrace_never_touches_hooks. Qed.
Print Assumptions C14_notrace_never_touches_hooks.

(* shutdown puts back exactly the hooks present before start -- whatever they were, whatever fails -- stops
   polling, and leaves the agent not started and inert *)
Theorem C14_shutdown_restores :
  forall c l f, started l = false ->
  let l' := do_shutdown true c f (do_start c l) in
  sys_hook l' = sys_hook l /\ thr_hook l' = thr_hook l /\ started l' = false /\ inert l' = true /\ polling l' = false.
Proof. exact shutdown_restores. Qed.
Print Assumptions C14_shutdown_restores.

(* it attempts every step -- hooks, drain, stop polling, EVERY plugin -- for every subset of them failing *)
Theorem C14_shutdown_attempts_everything :
  forall c l f, started l = true ->
  attempted (do_shutdown true c f l) = [SHooks; SFlush; SPoll] ++ all_plugins 0 (nplugins c) /\
  started (do_shutdown true c f l) = false /\ inert (do_shutdown true c f l) = true.
Proof. exact shutdown_attempts_everything. Qed.
Print Assumptions C14_shutdown_attempts_everything.

(* afterwards the agent takes no further actions, in any thread *)
Theorem C14_inert_after_shutdown : forall c l f w, started l = true -> handler_acts (do_shutdown true c f l) w = [].
Proof. exact inert_after_shutdown. Qed.
Print Assumptions C14_inert_after_shutdown.
Theorem C14_restart_acts_again : forall c l w, started l = false -> handler_acts (do_start c l) w = w.
Proof. exact start_clears_inert. Qed.
Print Assumptions C14_restart_acts_again.

(* the unguarded sequence of steps is refuted: one failing plugin leaves the agent started, the rest untouched *)
Theorem C14_unguarded_refuted :
  started unguarded_witness = true /\ attempted unguarded_witness = [SHooks; SFlush; SPoll; SPlugin 0].
Proof. exact unguarded_refuted. Qed.
Print Assumptions C14_unguarded_refuted.

(* restoring the saved slots unconditionally is refuted: tracing disabled, host hooks 5 and 6, shutdown leaves none *)
Theorem C14_notrace_clobber_refuted : sys_hook notrace_clobber_witness = 0%nat /\ thr_hook notrace_clobber_witness = 0%nat.
Proof. exact notrace_clobber_refuted. Qed.
Print Assumptions C14_notrace_clobber_refuted.

(* translator-tied: in the skeleton of Deep.shutdown REGENERATED from /repo/src, whatever Exception-class failures
   the steps raise, shutdown does not raise, and its only early return is the 'not started' guard *)
Theorem C14_shutdown_contains_failures :
  forall t o c, exec (only_exc skel_deep_shutdown) t o -> o <> ORaise c.
Proof. apply no_escape. vm_compute. reflexivity. Qed.
Print Assumptions C14_shutdown_contains_failures.
Theorem C14_shutdown_single_guard : length (ret_paths skel_deep_shutdown) = 1%nat.
Proof. vm_compute. reflexivity. Qed.
Print Assumptions C14_shutdown_single_guard.

(* translator-tied: both loops of Deep.shutdown -- its fixed steps (restore hooks, drain, stop polling) and its plugins --
   attempt every element and reach what follows, whatever Exception-class failures the steps raise *)
Theorem C14_every_step_and_plugin_attempted :
  length shutdown_loop_bodies = 2%nat /\
  forall b, In b shutdown_loop_bodies -> forall n ts o, each n (only_exc b) ts o -> o = ONorm /\ length ts = n.
Proof.
  split; [vm_compute; reflexivity|]. intros b I n ts o X.
  assert (A : forallb (fun b => match esc (only_exc b) with [] => true | _ => false end && no_exit (only_exc b)) shutdown_loop_bodies = true)
    by (vm_compute; reflexivity).
  rewrite forallb_forall in A. specialize (A b I). apply andb_true_iff in A as [A1 A2].
  eapply each_attempts_all; [|exact A2|exact X]. destruct (esc (only_exc b)); [reflexivity|discriminate].
Qed.
Print Assumptions C14_every_step_and_plugin_attempted.

(* ---- tie by translation: TriggerHandler.start / shutdown as they are in /repo/src NOW (gen/PHooks.v is regenerated on every
   run) are the handler part of the model's start / shutdown *)
Theorem C14_the_code_hooks_are_the_model :
  forall guarded c f l,
  (started l = false -> hooks_installed l = false ->
   gen_handler_start (no_trace c) (inert l) (hooks_installed l) (saved_sys l) (saved_thr l) (sys_hook l) (thr_hook l) =
   handler_state (do_start c l)) /\
  (started l = true ->
   gen_handler_shutdown (inert l) (hooks_installed l) (saved_sys l) (saved_thr l) (sys_hook l) (thr_hook l) =
   handler_state (do_shutdown guarded c f l)).
Proof. intros. split; [apply tie_handler_start | apply tie_handler_shutdown]. Qed.
Print Assumptions C14_the_code_hooks_are_the_model.

(* stated over the translated code: start followed by shutdown puts back exactly the two hooks that were there, whatever they
   were; with tracing disabled start touches neither; after shutdown the handler is inert *)
Theorem C14_the_code_restores_the_hooks :
  forall no_trace i0 s0 t0 ss st,
  let '(i1, h1, ss1, st1, s1, t1) := gen_handler_start no_trace i0 false ss st s0 t0 in
  let '(i2, h2, _, _, s2, t2) := gen_handler_shutdown i1 h1 ss1 st1 s1 t1 in
  s2 = s0 /\ t2 = t0 /\ i2 = true /\ h2 = false /\ (no_trace = true -> s1 = s0 /\ t1 = t0).
Proof. exact code_hooks_restored. Qed.
Print Assumptions C14_the_code_restores_the_hooks.

(* a start that FAILS after the hooks were installed (the channel or the poll raises) leaves the hooks as they were - no shutdown
   is needed, and none could help: the agent is not marked started *)
Theorem C14_failed_start_leaves_no_hooks :
  forall c l, started l = false ->
  let l' := do_failed_start true c l in
  sys_hook l' = sys_hook l /\ thr_hook l' = thr_hook l /\ started l' = false /\ hooks_installed l' = false /\ inert l' = true.
Proof. exact failed_start_leaves_no_hooks. Qed.
Print Assumptions C14_failed_start_leaves_no_hooks.

Theorem C14_failed_start_then_a_normal_cycle_restores :
  forall c l f, started l = false ->
  let l' := do_shutdown true c f (do_start c (do_failed_start true c l)) in
  sys_hook l' = sys_hook l /\ thr_hook l' = thr_hook l /\ started l' = false.
Proof. exact failed_start_then_cycle. Qed.
Print Assumptions C14_failed_start_then_a_normal_cycle_restores.

(* the code before its repair (no clean-up): after a failed start and a shutdown the agent's hook is still installed *)
Theorem C14_failed_start_without_cleanup_refuted :
  sys_hook failed_start_witness = AGENT /\ thr_hook failed_start_witness = AGENT.
Proof. exact failed_start_without_cleanup_refuted. Qed.
Print Assumptions C14_failed_start_without_cleanup_refuted.
