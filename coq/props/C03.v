(* C03 -- Trigger placement: actions fire at exactly the configured locations. *)
From Deep Require Import Base Config Limiter Cond Match MatchProofs Handler HandlerProofs.
From DeepGen Require Import PMatch PEvent.
From Deep Require Import PureSupport TieMatch TieEvent.
From Coq Require Import Permutation.

(* a line tracepoint matches exactly the line events of that file and line; a named method tracepoint
   exactly the call events of a function of that name in that file *)
Theorem C03_line_location :
  forall p n e, at_loc (LLine p n) e = true <-> e_kind e = KLine /\ e_file e = p /\ e_line e = n.
Proof. exact at_loc_line. Qed.
Print Assumptions C03_line_location.
Theorem C03_method_location :
  forall p f e, at_loc (LFunc p (Some f)) e = true <-> e_kind e = KCall /\ e_file e = p /\ e_func e = f.
Proof. exact at_loc_func. Qed.
Print Assumptions C03_method_location.

(* no return or exception event matches any location *)
Theorem C03_other_events_never_match :
  forall l e, e_kind e = KReturn \/ e_kind e = KException -> at_loc l e = false.
Proof. exact at_loc_return_exception. Qed.
Print Assumptions C03_other_events_never_match.

(* only-when: whatever acts at an event belongs to an installed trigger whose location the event is at *)
Theorem C03_sound :
  forall ts gate e a, In a (acts ts gate e) ->
  exists t, In t ts /\ In a (t_actions t) /\ at_loc (t_loc t) e = true /\ gate a = true.
Proof. exact acts_sound. Qed.
Print Assumptions C03_sound.

(* when: an installed action whose location the event is at, and whose gate is open, acts *)
Theorem C03_complete :
  forall ts gate e t a, In t ts -> In a (t_actions t) -> at_loc (t_loc t) e = true -> gate a = true ->
  In a (acts ts gate e).
Proof. exact acts_complete. Qed.
Print Assumptions C03_complete.

(* programs with no matching location see no action at all *)
Theorem C03_silent :
  forall ts gate e, (forall t, In t ts -> at_loc (t_loc t) e = false) -> acts ts gate e = [].
Proof. exact acts_silent. Qed.
Print Assumptions C03_silent.

(* every trigger acts independently of the others on the list *)
Theorem C03_independent :
  forall ts1 t ts2 gate e,
  acts (ts1 ++ t :: ts2) gate e = acts ts1 gate e ++ acts [t] gate e ++ acts ts2 gate e.
Proof. exact acts_independent. Qed.
Print Assumptions C03_independent.

(* the merge of same-location tracepoints of one response keeps every action at its own location *)
Theorem C03_merge :
  forall ts e, Permutation (actions_for (merge ts) e) (actions_for ts e).
Proof. exact merge_keeps_actions. Qed.
Print Assumptions C03_merge.

(* the composition (matching, then each action's own limits and condition): whatever fires at an event was at
   its configured location, permitted by ITS OWN limits, and its condition held *)
Theorem C03_fired_only_when_matched_and_permitted :
  forall inst st e x, NoDup (ids inst) -> In x (snd (handle inst st e)) ->
  exists l a, In (l, a) inst /\ ha_id a = x /\ at_loc l (he_ev e) = true /\
              can_trigger (ha_lim a) (st x) (he_ts e) = true /\ gate (ha_cond a) (env_of (he_env e)) = true.
Proof. exact fired_sound. Qed.
Print Assumptions C03_fired_only_when_matched_and_permitted.

(* every tracepoint acts independently of the others: over any event sequence the statistics of an action are
   those of the limiter run on the events at ITS location, whatever else is installed *)
Theorem C03_each_tracepoint_on_its_own :
  forall l1 l a l2 es st, ~ In (ha_id a) (ids l1) -> ~ In (ha_id a) (ids l2) ->
  fst (run_events (l1 ++ (l, a) :: l2) st es) (ha_id a) = fst (run (ha_lim a) (st (ha_id a)) (own_hits l a es)).
Proof. intros. apply action_sees_only_its_own_hits; assumption. Qed.
Print Assumptions C03_each_tracepoint_on_its_own.

(* ---- tie by translation: LineLocation.at_location / FunctionLocation.at_location as they are in /repo/src NOW
   (gen/Pure.v is regenerated on every run) match exactly the events the property names, and are the model's at_loc *)
Theorem C03_the_code_matches_exactly :
  forall p n fname ev f ln fn,
  (gen_line_at_location p n ev f ln fn = true <-> ev = [108; 105; 110; 101] /\ f = p /\ ln = n) /\
  (gen_func_at_location p fname ev f ln fn = true <-> ev = [99; 97; 108; 108] /\ f = p /\ fn = fname).
Proof. intros. split; [apply code_line_match | apply code_func_match]. Qed.
Print Assumptions C03_the_code_matches_exactly.

Theorem C03_the_code_is_the_model :
  forall p n f e,
  gen_line_at_location p n (kind_name (e_kind e)) (e_file e) (e_line e) (e_func e) = at_loc (LLine p n) e /\
  gen_func_at_location p f (kind_name (e_kind e)) (e_file e) (e_line e) (e_func e) = at_loc (LFunc p (Some f)) e.
Proof. intros. split; [apply tie_line_at_location | apply tie_func_at_location]. Qed.
Print Assumptions C03_the_code_is_the_model.

(* TriggerHandler.__actions_for_location as it is in /repo/src NOW: every installed trigger that is at the event's location
   contributes its actions, in installation order, and nothing else does (the model's actions_for) *)
Theorem C03_the_code_collects_the_actions_of_every_matching_trigger :
  forall ts e, gen_actions_for_location ts (kind_name (e_kind e)) (e_file e) (e_line e) (e_func e) = actions_for ts e.
Proof. exact tie_actions_for_location. Qed.
Print Assumptions C03_the_code_collects_the_actions_of_every_matching_trigger.

(* ---- tie by translation: TriggerHandler._trace_call as it is in /repo/src NOW (gen/PEvent.v) *)
(* what one trace event does, for EVERY instantiation of what _trace_call calls: nothing after shutdown; pending callbacks first;
   without tracepoints the scope is not traced further; otherwise every action of the matching triggers gets exactly one turn,
   in order (`if can_trigger and acquire: process`), whatever the other actions do; then the callbacks registered by the
   actions are pushed as one pending context *)
Theorem C03_the_code_gives_every_matching_action_one_turn :
  forall (S A CB PC F T : Type) inert lfe cset pcb (tp_config : list T) actions_for can_trigger acquire process
         (callbacks_of : S -> list CB) (mk_pending : str -> str -> Z -> str -> list CB -> PC) push_pending (s : S) (frame : F) event,
  gen_trace_call inert lfe cset pcb tp_config actions_for can_trigger acquire process callbacks_of mk_pending push_pending s frame event =
  if inert then (s, false) else
  let '(ev, file, line, fn) := lfe event frame in
  let s1 := if completing ev && cset s then pcb ev file line fn s else s in
  match tp_config with
  | [] => (s1, false)
  | _ :: _ =>
    match actions_for ev file line fn with
    | [] => (s1, true)
    | a :: r =>
      let s2 := fold_left (@hit_step S A can_trigger acquire process) (a :: r) s1 in
      match callbacks_of s2 with
      | [] => (s2, true)
      | c :: cs => (push_pending (mk_pending ev file line fn (c :: cs)) s2, true)
      end
    end
  end.
Proof. intros. apply trace_call_normal_form. Qed.
Print Assumptions C03_the_code_gives_every_matching_action_one_turn.

(* ... and with the translated matching it IS the model's composition Handler.handle (about which the theorems above are
   proved), for every list of triggers, event and statistics - given that one action's turn is the limiter's step on that action's
   own statistics (shown for the translated gate / acquire in TieEventHit.v, a library lemma kept out of this file so that a change
   to the limiter alarms C04, not C03) *)
Theorem C03_the_code_handles_an_event_as_the_model :
  forall act e m_can m_acquire m_process, turn_is_step act e m_can m_acquire m_process ->
  forall trs st,
  hs_eq (fst (code_event e m_can m_acquire m_process trs st)) (handle (flatten act trs) st e) /\
  snd (code_event e m_can m_acquire m_process trs st) = negb (match trs with [] => true | _ => false end).
Proof. exact tie_event. Qed.
Print Assumptions C03_the_code_handles_an_event_as_the_model.

Theorem C03_the_code_reads_the_location_from_the_frame :
  forall (F : Type) (co_filename : F -> str) (f_lineno : F -> Z) (co_name : F -> str) ev fr,
  gen_location_from_event co_filename f_lineno co_name ev fr = (ev, basename (co_filename fr), f_lineno fr, co_name fr).
Proof. intros F. exact (@tie_location_from_event F). Qed.
Print Assumptions C03_the_code_reads_the_location_from_the_frame.
