(* C11 -- Tracepoint configuration is interpreted as documented, one tracepoint at a time. *)
From Deep Require Import Base Match MatchProofs TriggerTable TriggerTableProofs.
From DeepGen Require Import PTable.
From Deep Require Import TieTable.
From Deep Require Import PureSupport.
From Coq Require Import Permutation.

(* for EVERY argument map, watches and metrics of an interpretable tracepoint: *)
Theorem C11_snapshot_unless_switched_off :
  forall t l acts, build t = Some (l, acts) ->
  ((exists x, In x acts /\ ad_kind x = ASnapshot) <-> collects (tp_args t) = true) /\
  (forall x, In x acts -> ad_kind x = ASnapshot ->
     ad_log x = alookup s_log_msg (tp_args t) /\ ad_watches x = tp_watches t /\
     ad_frame x = Some (get_or (tp_args t) s_frame_type s_single_frame) /\
     ad_stack x = Some (get_or (tp_args t) s_stack_type s_stack)).
Proof. exact table_snapshot. Qed.
Print Assumptions C11_snapshot_unless_switched_off.

Theorem C11_log_when_message_given :
  forall t l acts, build t = Some (l, acts) ->
  ((exists x, In x acts /\ ad_kind x = ALog) <-> (collects (tp_args t) = false /\ alookup s_log_msg (tp_args t) <> None)) /\
  (forall x, In x acts -> ad_kind x = ALog -> ad_log x = alookup s_log_msg (tp_args t)).
Proof. exact table_log. Qed.
Print Assumptions C11_log_when_message_given.

Theorem C11_metrics :
  forall t l acts, build t = Some (l, acts) ->
  ((exists x, In x acts /\ ad_kind x = AMetric) <-> tp_nmetrics t <> O) /\
  (forall x, In x acts -> ad_kind x = AMetric -> ad_nmetrics x = tp_nmetrics t).
Proof. exact table_metric. Qed.
Print Assumptions C11_metrics.

Theorem C11_span_when_requested :
  forall t l acts, build t = Some (l, acts) ->
  ((exists x, In x acts /\ ad_kind x = ASpan) <-> alookup s_span (tp_args t) <> None) /\
  (forall x, In x acts -> ad_kind x = ASpan -> ad_span x = alookup s_span (tp_args t)).
Proof. exact table_span. Qed.
Print Assumptions C11_span_when_requested.

Theorem C11_own_condition_and_limits :
  forall t l acts x, build t = Some (l, acts) -> In x acts ->
  ad_tp x = tp_id t /\ ad_cond x = alookup s_condition (tp_args t) /\
  ad_count x = get_or (tp_args t) s_fire_count s_one /\ ad_period x = get_or (tp_args t) s_fire_period s_thousand.
Proof. exact table_common. Qed.
Print Assumptions C11_own_condition_and_limits.

Theorem C11_one_action_per_kind : forall t l acts, build t = Some (l, acts) -> NoDup (kinds acts).
Proof. exact table_one_per_kind. Qed.
Print Assumptions C11_one_action_per_kind.

(* placed on the line or on the named method as the stage / method / span arguments say *)
Theorem C11_placement :
  forall t l acts, build t = Some (l, acts) ->
  let a := tp_args t in let st := stage_of a in
  (is_line_stage st = true -> l = LLine (tp_path t) (tp_line t)) /\
  (is_line_stage st = false -> is_method_stage st = true -> l = LFunc (tp_path t) (alookup s_method_name a)).
Proof. exact placement. Qed.
Print Assumptions C11_placement.
Theorem C11_default_stage :
  forall a, alookup s_stage a = None ->
  stage_of a = if has a s_method_name then s_method_start
               else match alookup s_span a with Some v => if str_eqb v s_method then s_method_start else s_line_start
                                          | None => s_line_start end.
Proof. exact stage_default. Qed.
Print Assumptions C11_default_stage.

(* a tracepoint the agent cannot interpret (unknown stage) affects only itself *)
Theorem C11_uninterpretable_affects_only_itself :
  forall l1 bad l2, build bad = None -> convert (l1 ++ bad :: l2) = convert (l1 ++ l2).
Proof. exact bad_tracepoint_affects_only_itself. Qed.
Print Assumptions C11_uninterpretable_affects_only_itself.

(* tracepoints on the same location keep all of their actions: what is installed at a location is, up to
   order, the actions of every interpretable tracepoint of the response placed there *)
Theorem C11_response_keeps_all_actions :
  forall resp l, Permutation (all_at (convert resp) l) (flat_map (fun t => contributes t l) resp).
Proof. exact convert_keeps_all. Qed.
Print Assumptions C11_response_keeps_all_actions.

(* ---- tie by translation: build_trigger and the four action builders as they are in /repo/src NOW produce, for every
   argument map, exactly the location and the action descriptions of the model's table *)
Theorem C11_the_code_table_is_the_model :
  forall tp p n a w nm,
  option_map (fun t : gtrigger => (fst t, map adesc_of (snd t))) (gen_build_trigger tp p n a w nm) =
  build {| tp_id := tp; tp_path := p; tp_line := n; tp_args := a; tp_watches := w; tp_nmetrics := nm |}.
Proof. exact tie_build_trigger. Qed.
Print Assumptions C11_the_code_table_is_the_model.
