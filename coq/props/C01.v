(* C01 -- Host transparency: no failure inside the agent is raised into application code, and tracing is not
   silently switched off.  The skeleton below is REGENERATED from /repo/src on every run. *)
From Deep Require Import ExnFlow.
From DeepGen Require Import Skeleton.
From Coq Require Import List Bool Arith.
Import ListNotations.

(* for every fault oracle -- every opaque step (host str/len/getattr/eval, plugin, library, unknown call) may raise
   Exception- or BaseException-class errors at any time -- no execution of TriggerHandler.trace_call, with
   everything it calls inlined, ends by raising *)
Theorem C01_no_escape : forall t o c, exec skel_trace_call t o -> o <> ORaise c.
Proof. apply no_escape. vm_compute. reflexivity. Qed.
Print Assumptions C01_no_escape.

(* every return of the handler hands the trace function back, except on the two documented branches: the agent
   has been shut down, or no tracepoint is installed *)
Definition holds (c : nat) (p : list (nat * bool)) : bool := existsb (fun x => Nat.eqb (fst x) c && snd x) p.
Definition keeps_tracing (p : list (nat * bool) * nat) : bool :=
  Nat.eqb (snd p) 1 || (Nat.eqb (snd p) 0 && (holds cond_inert (fst p) || holds cond_no_tracepoints (fst p))).
Theorem C01_keeps_tracing :
  cond_inert <> 0 /\ cond_no_tracepoints <> 0 /\ forallb keeps_tracing (ret_paths skel_trace_call) = true.
Proof. vm_compute. repeat split; discriminate. Qed.
Print Assumptions C01_keeps_tracing.

Theorem C01_return_value : forall t v, exec skel_trace_call t (ORet v) -> v = 1 \/ v = 0.
Proof.
  intros t v X. pose proof (rets_sound _ _ _ X v eq_refl) as I. rewrite <- ret_paths_tags in I.
  apply in_map_iff in I as (p & <- & Ip). destruct C01_keeps_tracing as (_ & _ & F).
  rewrite forallb_forall in F. specialize (F p Ip). unfold keeps_tracing in F.
  apply orb_true_iff in F as [F|F]; [left; apply Nat.eqb_eq; exact F|]. apply andb_true_iff in F as [F _].
  right; apply Nat.eqb_eq; exact F.
Qed.
Print Assumptions C01_return_value.
