(* C15 -- Deferred work (spans, captures) is completed exactly once, in its own thread. *)
From Deep Require Import Base Callbacks CallbacksProofs.
From DeepGen Require Import PCallbacks.
From Deep Require Import PureSupport TieCallbacks.

(* for every well-formed event trace of a thread and every choice of the events at which contexts are
   opened: a context is completed at most once, and every opened context is pending or completed *)
Theorem C15_at_most_once :
  forall es s, run init es = Some s ->
  NoDup (map d_id (log s)) /\
  (forall i, (i < nid s)%nat -> In i (map c_id (pending s)) \/ In i (map d_id (log s))) /\
  (forall i, In i (map c_id (pending s)) -> ~ In i (map d_id (log s))).
Proof. exact completed_at_most_once. Qed.
Print Assumptions C15_at_most_once.

(* never late: whatever is still pending belongs to an invocation that is still running ... *)
Theorem C15_pending_owner_running :
  forall es s c, run init es = Some s -> In c (pending s) ->
  exists f, In f (stack s) /\ c_owner c = f_inv f /\ c_lab c = f_lab f.
Proof. exact pending_owner_live. Qed.
Print Assumptions C15_pending_owner_running.

(* ... and the return of an invocation completes everything that invocation opened *)
Theorem C15_return_completes_own :
  forall s f rest s', Inv s -> stack s = f :: rest -> step s Ret = Some s' ->
  stack s' = rest /\ forall c, In c (pending s') -> c_owner c <> f_inv f.
Proof. exact return_completes_own. Qed.
Print Assumptions C15_return_completes_own.
Theorem C15_invariant_reachable : forall es s, run init es = Some s -> Inv s.
Proof. intros es s R. exact (run_inv _ _ _ Inv_init R). Qed.
Print Assumptions C15_invariant_reachable.

(* a completion happens strictly after the opening event, at an event of an invocation with the opener's
   file and function name while the opener is still running; the captured value is that event's value.
   (It IS the opener's own event unless a same-named invocation is nested inside it: matching is by name.) *)
Theorem C15_completion_in_extent :
  forall s e s' x, Inv s -> step s e = Some s' -> In x (skipn (length (log s)) (log s')) ->
  (d_id x < nid s)%nat /\
  exists top fo, hd_error (stack s) = Some top /\ d_top x = f_inv top /\
                 In fo (stack s) /\ d_owner x = f_inv fo /\ f_lab fo = f_lab top.
Proof. exact completion_in_extent. Qed.
Print Assumptions C15_completion_in_extent.

(* when the thread's outermost invocation has returned, nothing is left pending for a later thread to
   inherit and every context ever opened has been completed exactly once *)
Theorem C15_drained :
  forall es s, run init es = Some s -> stack s = [] ->
  pending s = [] /\ NoDup (map d_id (log s)) /\ (forall i, (i < nid s)%nat -> In i (map d_id (log s))).
Proof. exact drained. Qed.
Print Assumptions C15_drained.

(* threads: what a thread's store holds after any interleaving is what its own events alone produce *)
Theorem C15_threads_independent :
  forall tes m m' t, mrun m tes = Some m' -> run (m t) (events_of t tes) = Some (m' t).
Proof. exact threads_independent. Qed.
Print Assumptions C15_threads_independent.

(* the discipline that examines only the top context leaves a context pending after its opener returned *)
Theorem C15_top_only_refuted : exists s, top_only_witness = Some s /\ stack s = [] /\ pending s <> [].
Proof. exact top_only_refuted. Qed.
Print Assumptions C15_top_only_refuted.

(* ---- tie by translation: CallbackContext.at_location and the body of the loop of TriggerHandler.__process_call_backs as
   they are in /repo/src NOW (gen/PCallbacks.v is regenerated on every run): the loop over the translated body completes
   exactly the contexts Callbacks.complete completes, for line, return and exception events, on every pending stack *)
Theorem C15_the_code_loop_is_the_model :
  forall isline ret lab line p,
  pop_loop (code_body isline ret lab line) p false = complete isline lab p.
Proof. exact tie_process_call_backs. Qed.
Print Assumptions C15_the_code_loop_is_the_model.
