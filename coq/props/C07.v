(* C07 -- Snapshot variable table is closed and de-duplicated by object identity. *)
From Deep Require Import Base Config Collector CollectorProofs PureSupport TieTraverse TieRoot.
From DeepGen Require Import PCollect.

(* one object, one id: the id cache of a whole snapshot never holds an object twice, and two
   references carry the same id exactly when they denote the same object *)
Theorem C07_one_object_one_id :
  forall c h fuel fifo fs ws, NoDup (so_cache (snapshot fuel fifo c h fs ws)).
Proof. intros. apply (snapshot_budget c h fuel fifo fs ws). Qed.
Print Assumptions C07_one_object_one_id.

Theorem C07_same_id_same_object :
  forall cs o1 o2 v, lookup_cache cs o1 = Some v -> lookup_cache cs o2 = Some v -> o1 = o2.
Proof. exact same_id_same_object. Qed.
Print Assumptions C07_same_id_same_object.

(* closure inside one traversal (a frame's locals, a watch, a capture): in every reachable state
   every reference - handed to the root, held as a child, or pending as a queued parent - is an
   id that has been handed out, and every id handed out DURING the traversal has its entry in the
   traversal's table (ids handed out earlier live in the snapshot's table, into which the
   traversal's table is merged). *)
Theorem C07_closed_traversal :
  forall c h fuel fifo cs name o,
  let s0 := init cs [] name o in
  let s := run fuel fifo c h s0 in
  (forall r, In r (roots s) -> (1 <= r_vid r <= length (cache s))%nat) /\
  (forall v x r, In (v, x) (table s) -> In r (v_children x) -> (1 <= r_vid r <= length (cache s))%nat) /\
  dom (table s) = seq (S (length cs)) (length (cache s) - length cs).
Proof.
  intros c h fuel fifo cs name o s0 s.
  assert (R : refs_valid s0).
  { unfold refs_valid; simpl. split; [intros ? []|]. split; [intros ? ? ? []|]. split; [|intros ? []].
    intros n w [<-|[]] E. discriminate. }
  pose proof (run_refs_valid c h fuel fifo s0 R) as (Hr & Hc & _ & _).
  split; [exact Hr|]. split; [exact Hc|].
  unfold s. rewrite run_dom. reflexivity.
Qed.
Print Assumptions C07_closed_traversal.

(* table entries are faithful to the one object they were created from (type, text, identity) *)
Theorem C07_entry_of_one_object :
  forall c h fuel fifo cs name o v x,
  In (v, x) (table (run fuel fifo c h (init cs [] name o))) -> entry_ok c h x.
Proof.
  intros c h fuel fifo cs name o v x I.
  apply (run_table_ok c h fuel fifo (init cs [] name o)) with (v := v); [intros ? ? []|exact I].
Qed.
Print Assumptions C07_entry_of_one_object.

(* cyclic data terminates with a back-reference: a list containing itself is ONE entry whose
   child refers back to it *)
Example C07_cycle_backref :
  let h := [ {| o_ty := []; o_text := []; o_kind := KSeq [0%nat]; o_sized := false |} ] in
  let s := run 10 true {| max_vars := 10; max_coll := 10; max_depth := 5; max_str := 5 |} h (init [] [] [119] 0) in
  finished s = true /\ length (table s) = 1%nat /\
  map (fun x => map r_vid (v_children (snd x))) (table s) = [[1%nat]].
Proof. vm_compute. repeat split; reflexivity. Qed.

(* The full closure statement is FALSE of the faithful model when a reachable object IS the
   frame's own locals mapping (a local bound to locals()): the unwrapped "locals" entry is deleted
   while a reference to it survives.  Witness, replayed on the implementation by the check. *)
Theorem C07_locals_alias_refuted :
  let h := [ {| o_ty := []; o_text := []; o_kind := KDict [ {| c_name := [109;101]; c_oid := 0 |} ]; o_sized := false |} ] in
  let o := snapshot 10 true {| max_vars := 10; max_coll := 10; max_depth := 5; max_str := 5 |} h
                    [ {| fr_locals := 0; fr_collect := true |} ] [] in
  exists r, In r (concat (so_frames o)) /\ tlookup (r_vid r) (so_table o) = None.
Proof. vm_compute. eexists. split; [left; reflexivity | reflexivity]. Qed.
Print Assumptions C07_locals_alias_refuted.

(* self-referential and mutually referential data terminates: for ANY heap (cycles, sharing, any width) and any
   limits the traversal is finished after mu steps, mu = (budget + 2 - recorded) * (widest object + 1) + queued *)
Theorem C07_terminates :
  forall c h fifo fuel s, (mu c h s <= fuel)%nat -> finished (run fuel fifo c h s) = true.
Proof. intros c h fifo fuel s. apply run_terminates. Qed.
Print Assumptions C07_terminates.

(* ---- tie by translation: process_variable as it is in /repo/src NOW (gen/PCollect.v), run on the model's identity cache
   (object identities in recording order), table and heap *)
(* identity first: an object that is already recorded keeps its id; nothing is added, its children are not processed again *)
Theorem C07_the_code_reuses_the_id_of_a_known_object :
  forall c h n k v, lookup_cache (k_cache k) (n_oid n) = Some v ->
  code_process c h n k = ((m_ref n v, false), k).
Proof. exact code_process_known. Qed.
Print Assumptions C07_the_code_reuses_the_id_of_a_known_object.

(* an object seen for the first time gets the next id, exactly one table entry - which carries ITS identity - and is expanded *)
Theorem C07_the_code_records_a_new_object_once :
  forall c h n k, lookup_cache (k_cache k) (n_oid n) = None ->
  let '((r, b), k') := code_process c h n k in
  r = m_ref n (S (length (k_cache k))) /\ b = true /\ k_cache k' = k_cache k ++ [n_oid n] /\
  k_table k' = k_table k ++ [(S (length (k_cache k)), record_var c h (n_oid n))] /\ k_roots k' = k_roots k.
Proof. exact code_process_new. Qed.
Print Assumptions C07_the_code_records_a_new_object_once.

(* ---- tie by translation: VariableSetProcessor.process_variable (one root) as it is in /repo/src NOW, over the translated
   traversal: it is the model's collect_root - cache, table and the id handed back - for every heap, cache, table and fuel *)
Theorem C07_the_code_collects_a_root_as_the_model :
  forall c h fuel a tbl name o,
  code_collect_root c h fuel (a_cache a) tbl name o =
  let '(a', t', r) := collect_root (S fuel) true c h a tbl name o in ((a_cache a', t'), (r, otext (hget h o))).
Proof. exact tie_collect_root. Qed.
Print Assumptions C07_the_code_collects_a_root_as_the_model.

(* a root that is already recorded - a watch on a value of the frame, one value under two names - answers ITS id; no second
   entry, no second id *)
Theorem C07_the_code_known_root_answers_its_id :
  forall c h fuel cs tbl name o v, lookup_cache cs o = Some v ->
  code_collect_root c h fuel cs tbl name o = ((cs, tbl), (Some v, otext (hget h o))).
Proof. exact code_collect_root_known. Qed.
Print Assumptions C07_the_code_known_root_answers_its_id.
