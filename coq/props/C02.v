(* C02 -- Snapshot fidelity: a snapshot truthfully describes the paused frame. *)
From Deep Require Import Base Config ConfigProofs Collector CollectorProofs Frames.
From DeepGen Require Import PRender PFrames PChildren PSelect.
From Deep Require Import PureSupport TieRender TieFrames TieNames TieSelect.

(* the stack frames are the real call stack, in order, one per frame, each carrying that frame's
   file, function, line and class of self *)
Theorem C02_frames :
  forall excl incl root stack,
  let out := frames_of excl incl root stack in
  length out = length stack /\
  map fo_file out = map fm_file stack /\ map fo_func out = map fm_func stack /\
  map fo_line out = map fm_line stack /\ map fo_class out = map fm_class stack.
Proof.
  intros excl incl root stack. unfold frames_of. simpl. rewrite map_length. rewrite !map_map.
  assert (E : forall (A : Type) (g : frame_out -> A) (g' : frame_meta -> A),
              (forall f, g (describe_frame excl incl root f) = g' f) ->
              map (fun x => g (describe_frame excl incl root x)) stack = map g' stack).
  { intros A g g' H. apply map_ext. exact H. }
  repeat split; apply E; intros f; unfold describe_frame; destruct (is_app_frame excl incl root (fm_file f)); reflexivity.
Qed.
Print Assumptions C02_frames.

(* app-frame flag and shortened path per configuration (the C19 laws, applied per frame) *)
Theorem C02_app_flag_and_short_path :
  forall excl incl root f,
  let o := describe_frame excl incl root f in
  (fo_app o = true <->
   (forall p, In p excl -> prefixb p (fm_file f) = false) /\
   ((exists p, In p incl /\ prefixb p (fm_file f) = true) \/ prefixb root (fm_file f) = true)) /\
  (exists r, fm_file f = r ++ fo_short o).
Proof.
  intros excl incl root f. unfold describe_frame.
  pose proof (app_frame_iff excl incl root (fm_file f)) as A.
  pose proof (short_path_spec excl incl root (fm_file f)) as S.
  destruct (is_app_frame excl incl root (fm_file f)) as [a m]. simpl in *. split; [exact A|].
  destruct m as [p|]; [exists p; apply S; reflexivity | exists []; reflexivity].
Qed.
Print Assumptions C02_app_flag_and_short_path.

(* frame_type decides which frames carry variables *)
Theorem C02_frame_type :
  forall i, collects NoFrame i = false /\ collects AllFrame i = true /\ (collects SingleFrame i = true <-> i = 0%nat).
Proof. intros i. repeat split; simpl; intros H; [apply Nat.eqb_eq; exact H | subst; reflexivity]. Qed.
Print Assumptions C02_frame_type.

Theorem C02_unselected_frame_has_no_variables :
  forall fuel fifo c h a f, fr_collect f = false -> snd (collect_frame fuel fifo c h a f) = [].
Proof. intros fuel fifo c h a f E. unfold collect_frame. rewrite E. reflexivity. Qed.
Print Assumptions C02_unselected_frame_has_no_variables.

(* each collected variable carries the object's real type name, its text cut to the limit
   (for containers the text is computed by the model: see C02_container_text), and its identity *)
Theorem C02_entry_faithful :
  forall c h fuel fifo cs name o v x,
  In (v, x) (table (run fuel fifo c h (init cs [] name o))) ->
  v_ty x = o_ty (hget h (v_oid x)) /\
  v_val x = firstn (max_str c) (otext (hget h (v_oid x))) /\
  v_trunc x = (max_str c <? length (otext (hget h (v_oid x))))%nat.
Proof.
  intros c h fuel fifo cs name o v x I.
  apply (run_table_ok c h fuel fifo (init cs [] name o)) with (v := v); [intros ? ? []|exact I].
Qed.
Print Assumptions C02_entry_faithful.

(* a container (exact dict / list / tuple / set / frozenset) is rendered as "Size: n" where n counts ALL of its
   elements - also those beyond max_collection_size, and those the variable budget never reaches *)
Theorem C02_container_text :
  forall c h fuel fifo cs name o v x,
  In (v, x) (table (run fuel fifo c h (init cs [] name o))) ->
  o_sized (hget h (v_oid x)) = true ->
  v_val x = firstn (max_str c) (SIZE_PREFIX ++ print_nat (kind_count (o_kind (hget h (v_oid x))))) /\
  (forall el, o_kind (hget h (v_oid x)) = KSeq el ->
     v_val x = firstn (max_str c) (SIZE_PREFIX ++ print_nat (length el))).
Proof.
  intros c h fuel fifo cs name o v x I S.
  destruct (run_table_ok c h fuel fifo (init cs [] name o) (fun _ _ F => match F with end) v x I) as (_ & V & _).
  unfold otext in V. rewrite S in V. split; [exact V|]. intros el K. rewrite K in V. exact V.
Qed.
Print Assumptions C02_container_text.

Example C02_container_text_witness :
  let h := [ {| o_ty := []; o_text := []; o_kind := KDict [ {| c_name := [120]; c_oid := 1 |} ]; o_sized := true |};
             {| o_ty := []; o_text := []; o_kind := KSeq [2;2;2;2;2;2;2;2;2;2;2;2]%nat; o_sized := true |};
             {| o_ty := []; o_text := [55]; o_kind := KLeaf; o_sized := false |} ] in
  let c := {| max_vars := 10; max_coll := 2; max_depth := 5; max_str := 100 |} in
  map (fun p => v_val (snd p)) (table (run 50 true c h (init [] [] [] 0%nat))) =
  [ [83;105;122;101;58;32;49]; [83;105;122;101;58;32;49;50]; [55] ].
Proof. vm_compute. reflexivity. Qed.

(* the children offered for an object are its children by kind: dictionary keys, the first
   max_collection_size elements numbered from 0, attributes with the "_Class" prefix of private
   names removed and the original name kept *)
Theorem C02_children_by_kind :
  forall c h o d v, (d + 1 < max_depth c)%nat ->
  map n_oid (children_of c h o d v) =
  match o_kind (hget h o) with
  | KLeaf => []
  | KDict ch => map c_oid ch
  | KSeq el => firstn (max_coll c) el
  | KObj attrs => map c_oid attrs
  end /\
  (forall n, In n (children_of c h o d v) -> n_par n = PVar v /\ n_depth n = S d).
Proof.
  intros c h o d v D. split.
  - unfold children_of. destruct (Nat.leb_spec (max_depth c) (d + 1)) as [L|_]; [lia|].
    destruct (o_kind (hget h o)) as [|ch|el|attrs]; try reflexivity; rewrite map_map; simpl; try reflexivity.
    generalize (firstn (max_coll c) el) as l. intros l. generalize 0%nat.
    induction l as [|x r IH]; intros i; simpl; [reflexivity|]. f_equal. apply IH.
  - intros n I. apply children_parent in I. tauto.
Qed.
Print Assumptions C02_children_by_kind.

Theorem C02_private_names :
  forall ty name, correct_name ty (95 :: ty ++ name) = name.
Proof.
  intros ty name. unfold correct_name.
  assert (P : prefixb (95 :: ty) (95 :: ty ++ name) = true) by (apply prefixb_spec; exists name; reflexivity).
  rewrite P. simpl. rewrite skipn_app, skipn_all, Nat.sub_diag. reflexivity.
Qed.
Print Assumptions C02_private_names.

(* ---- tie by translation: var_modifiers and FrameCollector.parse_short_name as they are in /repo/src NOW *)
Theorem C02_the_code_modifiers_are_the_model :
  forall name, gen_var_modifiers name = modifier_words (modifier_of name).
Proof. exact tie_var_modifiers. Qed.
Print Assumptions C02_the_code_modifiers_are_the_model.

Theorem C02_the_code_short_path_is_the_model :
  forall ia f, gen_parse_short_name ia f = (Config.short_path (snd (ia f)) f, fst (ia f)).
Proof. exact tie_parse_short_name. Qed.
Print Assumptions C02_the_code_short_path_is_the_model.

(* ---- tie by translation: correct_names and process_list_breadth_first as they are in /repo/src NOW *)
(* an attribute that Python stored under its mangled name (_Class__x) is shown as the source names it (__x) *)
Theorem C02_the_code_private_names_are_the_model :
  forall ty name, gen_correct_names ty name = correct_name ty name.
Proof. exact tie_correct_names. Qed.
Print Assumptions C02_the_code_private_names_are_the_model.

(* the children of a list / tuple / set are its first elements IN ORDER, each named by its index *)
Theorem C02_the_code_names_elements_by_index :
  forall (N P : Type) (mk : str -> nat -> P -> N) (K : nat) (p : P) (el : list nat),
  gen_process_list mk (Z.of_nat K) p el = map (fun ix => mk (print_nat (fst ix)) (snd ix) p) (number 0 (firstn K el)).
Proof. intros N P. exact (@tie_process_list N P). Qed.
Print Assumptions C02_the_code_names_elements_by_index.

(* ---- tie by translation: SnapshotActionContext.should_collect_vars as it is in /repo/src NOW *)
(* frame by frame the translated code selects exactly the frames the model selects for the action's frame_type text:
   none for no_frame, all for all_frame, the paused frame only for any other text and when the argument is absent *)
Theorem C02_the_code_selects_the_frames_of_the_model :
  forall (cfg : TriggerTable.args) (n i : nat),
  map (fun k => gen_should_collect_vars cfg (Z.of_nat k)) (seq i n) =
  collect_flags_from (frame_type_of_text (alookup TriggerTable.s_frame_type cfg)) i n.
Proof. exact code_selection. Qed.
Print Assumptions C02_the_code_selects_the_frames_of_the_model.
