(* C19 -- Configuration resolves with documented precedence and works from the environment. *)
From Deep Require Import Base Config ConfigProofs.
From DeepGen Require Import PTruth PFrames PResolve.
From Deep Require Import TieTruth TieFrames TieResolve.

Theorem C19_precedence :
  forall own custom dflt env,
  resolve own custom dflt env =
  match own, present custom, dflt, env with
  | Some v, _, _, _ => v
  | None, Some v, _, _ => call v
  | None, None, Some d, _ => call d
  | None, None, None, Some s => VText s
  | None, None, None, None => VNoneV
  end.
Proof. exact resolve_precedence. Qed.
Print Assumptions C19_precedence.

Theorem C19_interval_same_either_way :
  forall n, as_interval (VText (print_nat n)) = as_interval (VNum n) /\ as_interval (VNum n) = Some n.
Proof. intros n; split; [apply interval_same_either_way | reflexivity]. Qed.
Print Assumptions C19_interval_same_either_way.

Theorem C19_bool_same_either_way :
  forall b : bool, as_bool (VText (if b then TRUE_S else FALSE_S)) = as_bool (VBool b) /\ as_bool (VBool b) = Some b.
Proof. exact bool_same_either_way. Qed.
Print Assumptions C19_bool_same_either_way.

Theorem C19_prefixes_same_either_way :
  forall l, l <> [] -> Forall comma_free l -> as_prefixes (VText (join_comma l)) = as_prefixes (VList l).
Proof. exact prefixes_same_either_way. Qed.
Print Assumptions C19_prefixes_same_either_way.

Theorem C19_prefixes_never_blank : forall v, Forall (fun p => p <> []) (as_prefixes v).
Proof. exact prefixes_never_blank. Qed.
Print Assumptions C19_prefixes_never_blank.

Theorem C19_app_frame :
  forall excl incl root f,
  fst (is_app_frame excl incl root f) = true <->
  (forall p, In p excl -> prefixb p f = false) /\
  ((exists p, In p incl /\ prefixb p f = true) \/ prefixb root f = true).
Proof. exact app_frame_iff. Qed.
Print Assumptions C19_app_frame.

Theorem C19_short_path :
  forall excl incl root f,
  (forall m, snd (is_app_frame excl incl root f) = Some m -> f = m ++ short_path (Some m) f) /\
  (snd (is_app_frame excl incl root f) = None ->
   fst (is_app_frame excl incl root f) = false /\ short_path None f = f).
Proof. intros; split; [intros m; apply short_path_spec | apply no_match_full_path]. Qed.
Print Assumptions C19_short_path.

Theorem C19_interpreter_files_excluded :
  forall ep excl incl root f,
  prefixb ep f = true -> fst (is_app_frame (with_exec_prefix ep excl) incl root f) = false.
Proof. exact exec_prefix_never_app. Qed.
Print Assumptions C19_interpreter_files_excluded.

Example C19_example :
  is_app_frame (as_prefixes (VText [47;118;44;47;116]) ++ [[47;117]]) (as_prefixes (VList [[47;111]])) [47;97] [47;97;47;109]
  = (true, Some [47;97]) /\ as_interval (VText [49;48]) = Some 10%nat.
Proof. vm_compute. split; reflexivity. Qed.

(* ---- tie by translation: ConfigService.is_app_frame and str2bool as they are in /repo/src NOW *)
Theorem C19_the_code_app_frame_is_the_model :
  forall excl incl ep root f,
  gen_is_app_frame excl incl ep root f = is_app_frame (with_exec_prefix ep excl) incl root f.
Proof. exact tie_is_app_frame. Qed.
Print Assumptions C19_the_code_app_frame_is_the_model.

Theorem C19_the_code_truth_words_are_the_model : forall s, gen_str2bool s = str2bool s.
Proof. exact tie_str2bool. Qed.
Print Assumptions C19_the_code_truth_words_are_the_model.

(* ---- tie by translation: ConfigService.__getattribute__ as it is in /repo/src NOW (gen/PResolve.v) resolves a key exactly as the
   model does, whatever the four sources hold - so the precedence theorems above are statements about the code *)
Theorem C19_the_code_resolves_as_the_model :
  forall own custom dflt env, code_resolve own custom dflt env = resolve own custom dflt env.
Proof. exact tie_resolve. Qed.
Print Assumptions C19_the_code_resolves_as_the_model.

(* ... read off the translated code: code wins; then the environment-backed default (a function is called); then the DEEP_ variable,
   as text; else nothing *)
Theorem C19_the_code_precedence :
  (forall v dflt env, is_none v = false -> code_resolve None (Some v) dflt env = call v) /\
  (forall d env, code_resolve None None (Some d) env = call d) /\
  (forall s, code_resolve None None None (Some s) = VText s) /\
  code_resolve None None None None = VNoneV.
Proof.
  split; [exact code_custom_wins|]. split; [exact code_default_before_environment|].
  split; [exact code_environment_is_text|exact code_absent].
Qed.
Print Assumptions C19_the_code_precedence.
