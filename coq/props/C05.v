(* C05 -- Collection is bounded and spends its budget breadth-first. *)
From Deep Require Import Base Config Collector CollectorProofs.
From DeepGen Require Import PCollect PChildren.
From Deep Require Import PureSupport TieCollect TieTraverse TieNames TieChildren.
From Coq Require Import Sorted.

(* Budget: a whole snapshot (all frames, then all watches / log fields / captures, one cache)
   never hands out more than max_variables + 1 ids, for every heap, frame list, watch list,
   queue discipline and fuel. *)
Theorem C05_count :
  forall c h fuel fifo fs ws,
  (length (so_cache (snapshot fuel fifo c h fs ws)) <= S (max_vars c))%nat.
Proof. intros. apply (snapshot_budget c h fuel fifo fs ws). Qed.
Print Assumptions C05_count.

(* ... and the same bound holds in every intermediate state of every traversal *)
Theorem C05_count_every_state :
  forall c h fuel fifo s B, (S (max_vars c) <= B)%nat -> (length (cache s) <= B)%nat ->
  (length (cache (run fuel fifo c h s)) <= B)%nat.
Proof. intros c h fuel. apply run_count. Qed.
Print Assumptions C05_count_every_state.

(* Strings: every entry of every reachable table has a value no longer than the maximum and is
   marked truncated exactly when the object's text was longer. *)
Theorem C05_string :
  forall c h fuel fifo cs name o v x,
  In (v, x) (table (run fuel fifo c h (init cs [] name o))) ->
  (length (v_val x) <= max_str c)%nat /\
  (v_trunc x = true <-> (max_str c < length (otext (hget h (v_oid x))))%nat).
Proof.
  intros c h fuel fifo cs name o v x I. apply entry_ok_string.
  apply (run_table_ok c h fuel fifo (init cs [] name o)) with (v := v); [intros ? ? []|exact I].
Qed.
Print Assumptions C05_string.

(* Collection size: an entry never has more children than its object offers, and for
   list/tuple/set/frozenset/exception-args objects never more than max_collection_size. *)
Theorem C05_collection :
  forall c h fuel cs name o v x,
  In (v, x) (table (run fuel true c h (init cs [] name o))) ->
  (length (v_children x) <= kid_bound c h (v_oid x))%nat /\
  (forall el, o_kind (hget h (v_oid x)) = KSeq el -> (length (v_children x) <= max_coll c)%nat).
Proof.
  intros c h fuel cs name o v x I.
  assert (R : refs_valid (init cs [] name o)).
  { unfold refs_valid; simpl. split; [intros ? []|]. split; [intros ? ? ? []|]. split; [|intros ? []].
    intros n w [<-|[]] E. discriminate. }
  assert (S0 : size_ok c h (init cs [] name o)) by (intros ? ? []).
  pose proof (run_size_ok c h fuel _ R S0 v x I) as H.
  split; [lia|]. intros el E. unfold kid_bound in H. rewrite E in H. lia.
Qed.
Print Assumptions C05_collection.

(* Depth: every recorded variable is a root (depth 0) or lies above max_var_depth. *)
Theorem C05_depth :
  forall c h fuel fifo cs tbl name o e,
  In e (log (run fuel fifo c h (init cs tbl name o))) -> snd e = 0%nat \/ (snd e < max_depth c)%nat.
Proof.
  intros c h fuel fifo cs tbl name o e I.
  apply (proj2 (run_depths_ok c h fuel fifo _ (init_depths_ok c cs tbl name o))). exact I.
Qed.
Print Assumptions C05_depth.

(* Breadth first: with the front-of-list discipline the recording order is non-decreasing in
   depth - everything at one depth is recorded before anything deeper - in every reachable state,
   hence also when the budget cuts the traversal short. *)
Theorem C05_bfs :
  forall c h fuel cs tbl name o,
  StronglySorted le (map snd (log (run fuel true c h (init cs tbl name o)))).
Proof.
  intros c h fuel cs tbl name o.
  destruct (run_layered c h fuel _ (init_layered cs tbl name o)) as (d & A & B & _ & _ & _ & _ & S).
  exact S.
Qed.
Print Assumptions C05_bfs.

(* Shallower variables win: in every reachable state, whatever is still waiting to be recorded is at least as deep
   as everything already recorded; so when the budget stops the traversal, a candidate at depth k left out means
   nothing deeper than k was recorded (the frame's locals, at depth 1, are never crowded out by deeper contents). *)
Theorem C05_shallower_variables_win :
  forall c h fuel cs tbl name o n e,
  let s := run fuel true c h (init cs tbl name o) in
  In n (queue s) -> In e (log s) -> (snd e <= n_depth n)%nat.
Proof.
  intros c h fuel cs tbl name o n e s In_q In_l.
  destruct (run_layered c h fuel _ (init_layered cs tbl name o)) as (d & A & B & Q & HA & HB & HL & _).
  fold s in Q, HL. specialize (HL e In_l). rewrite Q in In_q. apply in_app_or in In_q as [I|I].
  - rewrite (HA n I). exact HL.
  - rewrite (HB n I). lia.
Qed.
Print Assumptions C05_shallower_variables_win.

(* The end-of-list discipline (the code before its repair) violates it: c = [[9;9]], b, a with a
   budget of 3 records the depth-3 element while the depth-1 locals b and a are dropped. *)
Definition lifo_heap : heap :=
  [ {| o_ty := []; o_text := []; o_kind := KDict [ {| c_name := [97]; c_oid := 1 |}; {| c_name := [98]; c_oid := 2 |};
                                                    {| c_name := [99]; c_oid := 3 |} ]; o_sized := false |};
    {| o_ty := []; o_text := [49]; o_kind := KLeaf; o_sized := false |};
    {| o_ty := []; o_text := [50]; o_kind := KLeaf; o_sized := false |};
    {| o_ty := []; o_text := []; o_kind := KSeq [4%nat]; o_sized := false |};
    {| o_ty := []; o_text := []; o_kind := KSeq [5%nat]; o_sized := false |};
    {| o_ty := []; o_text := [57]; o_kind := KLeaf; o_sized := false |} ].
Definition lifo_cfg : cfg := {| max_vars := 3; max_coll := 10; max_depth := 5; max_str := 10 |}.
Theorem C05_lifo_refuted :
  map snd (log (run 20 false lifo_cfg lifo_heap (init [] [] LOCALS 0))) = [0; 1; 2; 3]%nat /\
  map snd (log (run 20 true lifo_cfg lifo_heap (init [] [] LOCALS 0))) = [0; 1; 1; 1]%nat.
Proof. vm_compute. split; reflexivity. Qed.
Print Assumptions C05_lifo_refuted.

(* ---- tie by translation: truncate_string and VariableSetProcessor.check_var_count as they are in /repo/src NOW *)
Theorem C05_the_code_cuts_at_the_limit :
  forall s n, let '(v, tr) := gen_truncate_string s (Z.of_nat n) in
  v = firstn n s /\ (length v <= n)%nat /\ (tr = true <-> (n < length s)%nat).
Proof. exact code_cut. Qed.
Print Assumptions C05_the_code_cuts_at_the_limit.

Theorem C05_the_code_budget_test_is_the_model :
  forall size mv, gen_check_var_count (Z.of_nat size) (Z.of_nat mv) = negb (mv <? size)%nat.
Proof. exact tie_check_var_count. Qed.
Print Assumptions C05_the_code_budget_test_is_the_model.

(* ---- tie by translation: the work-list loop (bfs.breadth_first_search) and what it does with one node
   (VariableSetProcessor.search_function) as they are in /repo/src NOW compute the model's run ... *)
Theorem C05_the_code_traversal_is_the_model :
  forall c h fuel root k,
  code_traverse c h (S (S fuel)) root k =
  (core_of (run (S fuel) true c h (mk_st k [root] false)), finished (run (S fuel) true c h (mk_st k [root] false))).
Proof. exact tie_traverse. Qed.
Print Assumptions C05_the_code_traversal_is_the_model.

(* ... so the translated loop records breadth first (also when the budget cuts it short), ... *)
Theorem C05_the_code_is_breadth_first :
  forall c h fuel cs tbl name o,
  StronglySorted le (map snd (k_log (fst (code_traverse c h (S (S fuel)) (root_node name o) (core_init cs tbl))))).
Proof. exact code_bfs. Qed.
Print Assumptions C05_the_code_is_breadth_first.

(* ... keeps the budget in whatever state it stops, ... *)
Theorem C05_the_code_keeps_the_budget :
  forall c h fuel cs tbl name o B, (S (max_vars c) <= B)%nat -> (length cs <= B)%nat ->
  (length (k_cache (fst (code_traverse c h (S (S fuel)) (root_node name o) (core_init cs tbl)))) <= B)%nat.
Proof. exact code_budget. Qed.
Print Assumptions C05_the_code_keeps_the_budget.

(* ... and ends on every heap (cyclic, shared, self-referential) within the model's measure. *)
Theorem C05_the_code_traversal_ends :
  forall c h fuel cs tbl name o, (mu c h (init cs tbl name o) <= S fuel)%nat ->
  snd (code_traverse c h (S (S fuel)) (root_node name o) (core_init cs tbl)) = true.
Proof. exact code_terminates. Qed.
Print Assumptions C05_the_code_traversal_ends.

(* not vacuous: on the example above the translated loop records the depths 0, 1, 1, 1 and reports that it was stopped *)
Theorem C05_the_code_on_the_example :
  let r := code_traverse lifo_cfg lifo_heap 22 (root_node LOCALS 0) (core_init [] []) in
  map snd (k_log (fst r)) = [0; 1; 1; 1]%nat /\ snd r = true.
Proof. vm_compute. split; reflexivity. Qed.
Print Assumptions C05_the_code_on_the_example.

(* ---- tie by translation: process_list_breadth_first and process_child_nodes as they are in /repo/src NOW *)
(* collection size: the translated loop hands back min(max_collection_size, number of elements) children *)
Theorem C05_the_code_caps_a_collection :
  forall (N P : Type) (mk : str -> nat -> P -> N) (K : nat) (p : P) (el : list nat),
  (length (gen_process_list mk (Z.of_nat K) p el) <= K)%nat /\
  length (gen_process_list mk (Z.of_nat K) p el) = Nat.min K (length el).
Proof. intros N P. exact (@code_list_cap N P). Qed.
Print Assumptions C05_the_code_caps_a_collection.

(* depth: the translated gate discovers nothing below the last level that may be recorded *)
Theorem C05_the_code_depth_gate :
  forall c h o d v, (max_depth c <= d + 1)%nat -> code_children c h o d v = [].
Proof. exact code_depth_gate. Qed.
Print Assumptions C05_the_code_depth_gate.

(* child discovery built from the three translated functions IS the model's children_of, for every heap object the
   harness reader classifies by the fourteen no-child type names *)
Theorem C05_the_code_discovers_the_models_children :
  forall c h o d v, reader_convention (hget h o) -> code_children c h o d v = children_of c h o d v.
Proof. exact tie_children. Qed.
Print Assumptions C05_the_code_discovers_the_models_children.
