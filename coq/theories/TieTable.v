(* TieTable.v -- functions of the agent as translated from /repo/src on every run (gen/P*.v, harness/translate/pure.py)
   ARE the functions the hand-written model uses; statements about the translated code follow from that. *)
From Deep Require Import Base Match TriggerTable PureSupport.
From DeepGen Require Import PTable.
From Coq Require Import Lia.
Local Open Scope Z_scope.

(* ---------- interpretation of a tracepoint's arguments: api/tracepoint/trigger.py build_* ---------- *)

Lemma has_alookup (a : args) k : has a k = match alookup k a with Some _ => true | None => false end.
Proof. reflexivity. Qed.

Lemma tie_build_snapshot_action tp a w :
  opt_list (option_map adesc_of (gen_build_snapshot_action tp a w)) = snapshot_action tp a w.
Proof.
  unfold gen_build_snapshot_action, snapshot_action, collects, has, aget, base, get_or.
  destruct (alookup s_snapshot a) as [v|] eqn:E; unfold s_snapshot in E; rewrite E; simpl.
  - destruct (str_eqb v s_no_collect) eqn:F; unfold s_no_collect in F; rewrite F; simpl; [reflexivity|].
    unfold adesc_of, d_text, d_str; simpl.
    destruct (alookup s_condition a) eqn:C; unfold s_condition in C; rewrite C; reflexivity.
  - unfold adesc_of, d_text, d_str; simpl.
    destruct (alookup s_condition a) eqn:C; unfold s_condition in C; rewrite C; reflexivity.
Qed.

Lemma tie_build_log_action tp a :
  opt_list (option_map adesc_of (gen_build_log_action tp a)) = log_action tp a.
Proof.
  unfold gen_build_log_action, log_action, collects, has, aget, base, get_or.
  destruct (alookup s_log_msg a) as [m|] eqn:L; unfold s_log_msg in L; rewrite L; simpl; [|reflexivity].
  destruct (alookup s_snapshot a) as [v|] eqn:E; unfold s_snapshot in E; rewrite E; simpl; [|reflexivity].
  destruct (str_eqb v s_no_collect) eqn:F; unfold s_no_collect in F; rewrite F; simpl; [|reflexivity].
  unfold adesc_of, d_text, d_str; simpl.
  destruct (alookup s_condition a) eqn:C; unfold s_condition in C; rewrite C; reflexivity.
Qed.

Lemma tie_build_metric_action tp a n :
  opt_list (option_map adesc_of (gen_build_metric_action tp a n)) = metric_action tp a n.
Proof.
  unfold gen_build_metric_action, metric_action, has, aget, base, get_or.
  destruct n as [|k]; [reflexivity|].
  assert (Z.of_nat (S k) =? 0 = false) as -> by (apply Z.eqb_neq; lia). simpl orb. cbv iota.
  unfold adesc_of, d_text, d_str; simpl.
  destruct (alookup s_condition a) eqn:C; unfold s_condition in C; rewrite C; reflexivity.
Qed.

Lemma tie_build_span_action tp a :
  opt_list (option_map adesc_of (gen_build_span_action tp a)) = span_action tp a.
Proof.
  unfold gen_build_span_action, span_action, has, aget, base, get_or.
  destruct (alookup s_span a) as [v|] eqn:S; unfold s_span in S; rewrite S; simpl; [|reflexivity].
  unfold adesc_of, d_text, d_str; simpl.
  destruct (alookup s_condition a) eqn:C; unfold s_condition in C; rewrite C; reflexivity.
Qed.

Lemma map_cat_options {A B} (f : A -> B) (l : list (option A)) :
  map f (cat_options l) = flat_map (fun o => opt_list (option_map f o)) l.
Proof.
  unfold cat_options. induction l as [|[x|] r IH]; simpl; [reflexivity| f_equal; exact IH | exact IH].
Qed.

Lemma stage_tie a :
  (if has a s_stage then aget a s_stage
   else if has a s_span && str_eqb (aget a s_span) s_method then s_method_start
        else if has a s_method_name then s_method_start else s_line_start) = stage_of a.
Proof.
  unfold stage_of, has, aget.
  destruct (alookup s_stage a); [reflexivity|].
  destruct (alookup s_method_name a); destruct (alookup s_span a) as [v|]; simpl; try reflexivity;
    destruct (str_eqb v s_method); reflexivity.
Qed.

(* build_trigger: the location by stage, the actions of the four builders in order *)
Lemma tie_build_trigger tp p n a w nm :
  option_map (fun t : gtrigger => (fst t, map adesc_of (snd t))) (gen_build_trigger tp p n a w nm) =
  build {| tp_id := tp; tp_path := p; tp_line := n; tp_args := a; tp_watches := w; tp_nmetrics := nm |}.
Proof.
  unfold gen_build_trigger, build, location_of. cbv zeta. simpl tp_path. simpl tp_line. simpl tp_args. simpl tp_id.
  simpl tp_watches. simpl tp_nmetrics.
  change [115; 116; 97; 103; 101] with s_stage.
  change [115; 112; 97; 110] with s_span.
  change [109; 101; 116; 104; 111; 100] with s_method.
  change [109; 101; 116; 104; 111; 100; 95; 110; 97; 109; 101] with s_method_name.
  change [109; 101; 116; 104; 111; 100; 95; 115; 116; 97; 114; 116] with s_method_start.
  change [108; 105; 110; 101; 95; 115; 116; 97; 114; 116] with s_line_start.
  rewrite stage_tie. generalize (stage_of a) as st. intros st.
  unfold is_line_stage, is_method_stage. simpl existsb. rewrite !orb_false_r.
  change [108; 105; 110; 101; 95; 99; 97; 112; 116; 117; 114; 101] with s_line_capture.
  change [108; 105; 110; 101; 95; 115; 116; 97; 114; 116] with s_line_start.
  change [108; 105; 110; 101; 95; 101; 110; 100] with s_line_end.
  change [109; 101; 116; 104; 111; 100; 95; 115; 116; 97; 114; 116] with s_method_start.
  change [109; 101; 116; 104; 111; 100; 95; 99; 97; 112; 116; 117; 114; 101] with s_method_capture.
  change [109; 101; 116; 104; 111; 100; 95; 101; 110; 100] with s_method_end.
  rewrite <- !orb_assoc.
  assert (Hact : map adesc_of (cat_options [gen_build_snapshot_action tp a w; gen_build_log_action tp a;
                                            gen_build_metric_action tp a nm; gen_build_span_action tp a]) =
                 snapshot_action tp a w ++ log_action tp a ++ metric_action tp a nm ++ span_action tp a).
  { rewrite map_cat_options. simpl flat_map.
    rewrite tie_build_snapshot_action, tie_build_log_action, tie_build_metric_action, tie_build_span_action, app_nil_r.
    reflexivity. }
  destruct (str_eqb st s_line_capture || (str_eqb st s_line_start || str_eqb st s_line_end)).
  - unfold mk_trigger, mk_line_location, position_of. cbn [option_map fst snd]. rewrite Hact. reflexivity.
  - destruct (str_eqb st s_method_start || (str_eqb st s_method_capture || str_eqb st s_method_end)); [|reflexivity].
    unfold mk_trigger, mk_func_location, position_of. cbn [option_map fst snd]. rewrite Hact. reflexivity.
Qed.

