(* TieMetrics.v -- MetricActionContext.can_trigger and _convert_type as translated from /repo/src on every run (gen/PMetrics.v) *)
From Deep Require Import Base Config Limiter Cond Metric PureSupport.
From DeepGen Require Import PMetrics.
Local Open Scope Z_scope.

(* without an active metric processor the action cannot trigger, whatever its own gate says (and the handler's
   `can_trigger() and acquire()` then records no fire); with one, it is the ordinary gate of an action *)
Lemma tie_metric_can_trigger has_processor gate_ : gen_metric_can_trigger has_processor gate_ = has_processor && gate_.
Proof. unfold gen_metric_can_trigger, gen_has_metric_processor. destruct has_processor; reflexivity. Qed.

(* the operation a metric is reported through is its type name in lower case (Metric.call_of) *)
Lemma tie_convert_type ev m p : gen_convert_type (m_type m) = c_op (call_of ev m p).
Proof. reflexivity. Qed.
