(* TieRender.v -- functions of the agent as translated from /repo/src on every run (gen/P*.v, harness/translate/pure.py)
   ARE the functions the hand-written model uses; statements about the translated code follow from that. *)
From Deep Require Import Base Config Collector PureSupport.
From DeepGen Require Import PRender.
From Coq Require Import Lia.
Local Open Scope Z_scope.

(* ---------- rendering: processor/variable_processor.py ---------- *)
Definition modifier_words (m : modifier) : list str :=
  match m with
  | MNone => []
  | MProtected => [[112; 114; 111; 116; 101; 99; 116; 101; 100]]
  | MPrivate => [[112; 114; 105; 118; 97; 116; 101]]
  end.
Lemma tie_var_modifiers name : gen_var_modifiers name = modifier_words (modifier_of name).
Proof.
  unfold gen_var_modifiers, modifier_of.
  destruct name as [|a [|b r]]; simpl; try reflexivity.
  - destruct (a =? 95) eqn:E; [apply Z.eqb_eq in E; subst|]; simpl; [reflexivity|].
    destruct a; try reflexivity. repeat (destruct p; try reflexivity; try discriminate).
  - destruct (a =? 95) eqn:E; simpl.
    + apply Z.eqb_eq in E; subst. destruct (b =? 95) eqn:F; simpl.
      * apply Z.eqb_eq in F; subst. reflexivity.
      * destruct b; try reflexivity. repeat (destruct p; try reflexivity; try discriminate).
    + destruct a; try reflexivity. repeat (destruct p; try reflexivity; try discriminate).
Qed.

