From Deep Require Import Base Plugins.
From Coq Require Import Sorted Permutation.

Lemma insert_perm c l : Permutation (insert c l) (c :: l).
Proof.
  induction l as [|x r IH]; simpl; [reflexivity|]. destruct (cd_order c <? cd_order x); [reflexivity|].
  etransitivity; [apply perm_skip; exact IH|]. apply perm_swap.
Qed.
Lemma sort_perm_acc l : forall acc, Permutation (fold_left (fun a c => insert c a) l acc) (acc ++ l).
Proof.
  induction l as [|x r IH]; intros acc; simpl; [rewrite app_nil_r; reflexivity|].
  etransitivity; [apply IH|]. etransitivity; [apply Permutation_app_tail; apply insert_perm|].
  simpl. apply Permutation_cons_app. reflexivity.
Qed.
Lemma sort_perm l : Permutation (psort l) l.
Proof. unfold psort. apply (sort_perm_acc l []). Qed.

Definition le_order (a b : cand) : Prop := cd_order a <= cd_order b.
Lemma insert_sorted c l : Sorted le_order l -> Sorted le_order (insert c l).
Proof.
  induction l as [|x r IH]; simpl; intros S; [repeat constructor|].
  destruct (cd_order c <? cd_order x) eqn:E.
  - apply Z.ltb_lt in E. constructor; [exact S|]. constructor. unfold le_order. lia.
  - apply Z.ltb_ge in E. inversion S as [|y ys Sr Hd]; subst. constructor; [apply IH; exact Sr|].
    destruct r as [|z r']; simpl.
    + constructor. exact E.
    + destruct (cd_order c <? cd_order z); constructor; [exact E|]. inversion Hd; assumption.
Qed.
Lemma sort_sorted l : Sorted le_order (psort l).
Proof.
  unfold psort. assert (G : forall acc, Sorted le_order acc -> Sorted le_order (fold_left (fun a c => insert c a) l acc)).
  { induction l as [|x r IH]; intros acc S; simpl; [exact S|]. apply IH. apply insert_sorted. exact S. }
  apply G. constructor.
Qed.

(* exactly the usable candidates are loaded, ordered by their declared order *)
Theorem load_spec cs :
  (forall c, In c (load cs) <-> In c cs /\ usable c = true) /\ Sorted le_order (load cs).
Proof.
  split; [|apply sort_sorted]. intros c. unfold load. split.
  - intros I. apply filter_In. eapply Permutation_in; [apply sort_perm|exact I].
  - intros I. eapply Permutation_in; [apply Permutation_sym; apply sort_perm|]. apply filter_In. exact I.
Qed.

(* a candidate that cannot be imported, constructed, or is switched off affects no other *)
Theorem unusable_candidate_affects_nothing l1 bad l2 : usable bad = false -> load (l1 ++ bad :: l2) = load (l1 ++ l2).
Proof. intros U. unfold load. rewrite !filter_app. simpl. rewrite U. reflexivity. Qed.

(* stability: among candidates of equal order the input order is kept *)
Lemma insert_equal_after c l : Forall (fun x => cd_order x <= cd_order c) l -> insert c l = l ++ [c].
Proof.
  induction l as [|x r IH]; simpl; intros F; [reflexivity|]. inversion F as [|y ys Hx Hr]; subst.
  destruct (cd_order c <? cd_order x) eqn:E; [apply Z.ltb_lt in E; lia|]. rewrite IH by exact Hr. reflexivity.
Qed.
Theorem equal_order_keeps_input_order l : (forall a b, In a l -> In b l -> cd_order a = cd_order b) -> psort l = l.
Proof.
  intros H. unfold psort.
  assert (G : forall r acc, (forall a b, In a (acc ++ r) -> In b (acc ++ r) -> cd_order a = cd_order b) ->
                            fold_left (fun a c => insert c a) r acc = acc ++ r).
  { induction r as [|x r IH]; intros acc Hq; simpl; [rewrite app_nil_r; reflexivity|].
    rewrite insert_equal_after.
    - rewrite IH; [rewrite <- app_assoc; reflexivity|]. intros a b Ia Ib. rewrite <- app_assoc in Ia, Ib. simpl in *. auto.
    - apply Forall_forall. intros y Iy. rewrite (Hq y x); [lia| |]; apply in_or_app; [left; exact Iy|right; left; reflexivity]. }
  apply (G l []). exact H.
Qed.
