(* TieCollect.v -- functions of the agent as translated from /repo/src on every run (gen/P*.v, harness/translate/pure.py)
   ARE the functions the hand-written model uses; statements about the translated code follow from that. *)
From Deep Require Import Base Config Collector PureSupport.
From DeepGen Require Import PCollect.
From Coq Require Import Lia.
Local Open Scope Z_scope.

(* ---------- collector: processor/variable_processor.py, variable_set_processor.py ---------- *)
Lemma tie_truncate_string s n :
  gen_truncate_string s (Z.of_nat n) = (firstn n s, (n <? length s)%nat).
Proof.
  unfold gen_truncate_string, py_slice_to.
  assert (Z.of_nat n <? 0 = false) as -> by (apply Z.ltb_ge; lia).
  rewrite Nat2Z.id. f_equal.
  rewrite Z.gtb_ltb.
  destruct (Nat.ltb_spec n (length s)); [apply Z.ltb_lt | apply Z.ltb_ge]; lia.
Qed.

Lemma tie_check_var_count size mv :
  gen_check_var_count (Z.of_nat size) (Z.of_nat mv) = negb (mv <? size)%nat.
Proof.
  unfold gen_check_var_count. rewrite Z.gtb_ltb.
  destruct (Nat.ltb_spec mv size) as [H|H].
  - assert (Z.of_nat mv <? Z.of_nat size = true) as -> by (apply Z.ltb_lt; lia). reflexivity.
  - assert (Z.of_nat mv <? Z.of_nat size = false) as -> by (apply Z.ltb_ge; lia). reflexivity.
Qed.


Lemma code_cut s n :
  let '(v, tr) := gen_truncate_string s (Z.of_nat n) in
  v = firstn n s /\ (length v <= n)%nat /\ (tr = true <-> (n < length s)%nat).
Proof.
  rewrite tie_truncate_string. repeat split.
  - apply firstn_le_length.
  - apply Nat.ltb_lt.
  - apply Nat.ltb_lt.
Qed.
