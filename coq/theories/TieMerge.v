(* TieMerge.v -- Resource.merge as it is in /repo/src NOW (gen/PMerge.v, translated on every run) is Attrs.merge: the other
   resource's attributes over a copy of one's own, the other's schema when one's own is empty, one's own when the other's is empty,
   the common one when they agree - and the receiver itself, unchanged, when the two schemas differ.  Declared: the attribute
   copy / update (the model's dict_update) and the constructor (the model's mk_resource: a fresh immutable store). *)
From Deep Require Import Base Attrs PureSupport.
From DeepGen Require Import PMerge.

Lemma str_eqb_nil s : str_eqb s [] = is_empty s.
Proof. destruct s; reflexivity. Qed.

Definition code_merge (a b : resource) : resource :=
  gen_resource_merge dict_update (fun m s => mk_resource (as_input m) s) (r_attrs a) (r_attrs b) (r_schema a) (r_schema b) a.

Theorem tie_merge a b : code_merge a b = merge a b.
Proof. unfold code_merge, gen_resource_merge, merge. rewrite !str_eqb_nil. reflexivity. Qed.

(* merging never changes an operand that is kept: with incompatible schemas the receiver is handed back as it is *)
Corollary code_merge_incompatible a b :
  is_empty (r_schema a) = false -> is_empty (r_schema b) = false -> str_eqb (r_schema a) (r_schema b) = false -> code_merge a b = a.
Proof. intros A B C. rewrite tie_merge. unfold merge. rewrite A, B, C. reflexivity. Qed.
