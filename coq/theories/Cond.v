(* Cond.v -- conditions and expressions:
     processor/context/trigger_context.py  TriggerContext.evaluate_expression
        eval(expression, frame.f_globals, frame.f_locals): a name is looked up in the paused frame's
        locals, then in the globals of the frame's module, then in the builtins; no other scope exists
     processor/context/action_context.py   ActionContext.can_trigger, eval_watch
     utils.py                              str2bool
   The expression language itself is CPython's; what the agent decides is WHICH scopes are visible,
   what a result or a failure means for the gate, and that each expression has its own result. *)
From Deep Require Import Base Config Limiter.

Definition scope := list (str * nat).          (* name -> object *)
Definition resolve (locals globals builtins : scope) (n : str) : option nat :=
  match alookup n locals with
  | Some v => Some v
  | None => match alookup n globals with
            | Some v => Some v
            | None => alookup n builtins
            end
  end.

(* outcome of evaluating one expression: the value's text (str(result)) or what was raised *)
Inductive eres := EVal (text : str) | EErr (cls msg : str).

(* the gate: absent/blank condition is true; a failure is false whatever its text; otherwise
   str2bool(str(result)) *)
(* blank = Python's len(s.strip()) == 0: every character is one of the whitespace code points (Base.py_space) *)
Definition blank (s : str) : bool := forallb py_space s.
Definition truth (r : eres) : bool := match r with EVal t => str2bool t | EErr _ _ => false end.
Definition gate (cond : option str) (ev : str -> eres) : bool :=
  match cond with
  | None => true
  | Some c => if blank c then true else truth (ev c)
  end.

(* one hit of an action with a condition *)
Definition hit_of (cond : option str) (ts : Z) (ev : str -> eres) : hit := {| h_ts := ts; h_cond := gate cond ev |}.

(* watches / log fields: one result per expression, in order *)
Inductive wres := WOk (text : str) | WErr (msg : str).
Definition watch1 (ev : str -> eres) (e : str) : str * wres :=
  (e, match ev e with EVal t => WOk t | EErr _ m => WErr m end).
Definition watches (ev : str -> eres) (es : list str) : list (str * wres) := map (watch1 ev) es.

(* ---------- correspondence ---------- *)
Definition eres_eqb (a b : eres) : bool :=
  match a, b with
  | EVal x, EVal y => str_eqb x y
  | EErr c m, EErr c' m' => str_eqb c c' && str_eqb m m'
  | _, _ => false
  end.
Record scope_case := { sc_locals : scope; sc_globals : scope; sc_builtins : scope; sc_name : str; sc_obs : option nat }.
Definition check_scope_case (c : scope_case) : bool :=
  option_eqb Nat.eqb (resolve (sc_locals c) (sc_globals c) (sc_builtins c) (sc_name c)) (sc_obs c).
Record gate_case := { gc_cond : option str; gc_res : eres; gc_obs : bool }.
Definition check_gate_case (c : gate_case) : bool := Bool.eqb (gate (gc_cond c) (fun _ => gc_res c)) (gc_obs c).
(* hits of one action whose condition evaluates, hit by hit, to the given outcomes *)
Record budget_case := { bc_cond : option str; bc_count : option argv; bc_period : option argv;
                        bc_hits : list (Z * eres); bc_obs : list bool; bc_obs_cnt : Z }.
Definition check_budget_case (c : budget_case) : bool :=
  let hs := map (fun p => hit_of (bc_cond c) (fst p) (fun _ => snd p)) (bc_hits c) in
  let '(s, bs) := run (mk_lim (bc_count c) (bc_period c) 0 0) stats0 hs in
  list_eqb Bool.eqb bs (bc_obs c) && (cnt s =? bc_obs_cnt c).
