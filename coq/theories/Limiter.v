(* Limiter.v -- executable model of the per-action rate limiter:
     api/tracepoint/trigger.py  LocationAction.{fire_count, fire_period, can_trigger, try_trigger,
                                record_triggered, __get_int}
     api/tracepoint/tracepoint_config.py  TracepointWindow.in_window, TracepointExecutionStats
     processor/context/action_context.py  ActionContext.{can_trigger, acquire}
   Times are integer nanoseconds (Z).  An argument value is text (from the service) or a number
   (registered in code). *)
From Deep Require Import Base Config.

(* ---------- argument parsing: int(config.get(name, default)), ValueError -> default ---------- *)
Inductive argv := AText (s : str) | ANum (z : Z).

(* the decimal integer literals of the generated domain: optional sign, digits (no blanks, no
   underscores); anything else is a ValueError in Python's int() *)
Definition parse_int (s : str) : option Z :=
  match s with
  | 45 :: r => option_map (fun n => - Z.of_nat n) (parse_nat r)
  | 43 :: r => option_map Z.of_nat (parse_nat r)
  | _ => option_map Z.of_nat (parse_nat s)
  end.
Definition get_int (v : option argv) (dflt : Z) : Z :=
  match v with
  | None => dflt
  | Some (ANum z) => z
  | Some (AText s) => match parse_int s with Some z => z | None => dflt end
  end.

Record lim := { fc : Z;            (* fire_count, -1 = unlimited *)
                fp : Z;            (* fire_period in milliseconds *)
                ws : Z; we : Z }.  (* window (0 = open end) *)
Definition mk_lim (count period : option argv) (wstart wend : Z) : lim :=
  {| fc := get_int count 1; fp := get_int period 1000; ws := wstart; we := wend |}.

Record stats := { cnt : Z; lastf : Z }.
Definition stats0 : stats := {| cnt := 0; lastf := 0 |}.
Definition fire (s : stats) (ts : Z) : stats := {| cnt := cnt s + 1; lastf := ts |}.

Definition in_window (l : lim) (ts : Z) : bool :=
  if (ws l =? 0) && (we l =? 0) then true
  else if (ws l =? 0) && (0 <? we l) then ts <=? we l
  else if (0 <? ws l) && (we l =? 0) then ws l <=? ts
  else (ws l <=? ts) && (ts <=? we l).

Definition can_trigger (l : lim) (s : stats) (ts : Z) : bool :=
  if negb (fc l =? -1) && (fc l <=? cnt s) then false
  else if negb (in_window l ts) then false
  else if negb (lastf s =? 0) && ((0 <? fp l * 1000000) && (ts - lastf s <? fp l * 1000000)) then false
  else true.

(* one hit, sequentially: limits, then the condition, then the atomic re-check-and-record,
   then the collection; a hit rejected by the limits or by the condition leaves the stats alone *)
Record hit := { h_ts : Z; h_cond : bool }.
Definition step (l : lim) (s : stats) (h : hit) : stats * bool :=
  if can_trigger l s (h_ts h) && h_cond h then (fire s (h_ts h), true) else (s, false).

Fixpoint run (l : lim) (s : stats) (hs : list hit) : stats * list bool :=
  match hs with
  | [] => (s, [])
  | h :: r => let '(s1, b) := step l s h in let '(s2, bs) := run l s1 r in (s2, b :: bs)
  end.

(* times of the hits that collected *)
Fixpoint fired (hs : list hit) (bs : list bool) : list Z :=
  match hs, bs with
  | h :: r, true :: bs' => h_ts h :: fired r bs'
  | _ :: r, false :: bs' => fired r bs'
  | _, _ => []
  end.

(* ---------- N threads hitting one action: interleaving semantics ----------
   Every thread runs   check ; condition ; acquire (atomic: re-check + record) ; collect.
   [locked = false] is the discipline the code had before the repair: the fire is recorded
   without re-checking, after the collection. *)
Inductive pc := PStart | PChecked | PCondOk | PAcquired | PDone (collected : bool).
Record thread := { t_ts : Z; t_cond : bool; t_pc : pc }.
Record cstate := { c_stats : stats; c_threads : list thread; c_collected : list Z;
                   c_acq : list Z (* ghost: times recorded, in order of recording *) }.

Definition set_pc (t : thread) (p : pc) : thread := {| t_ts := t_ts t; t_cond := t_cond t; t_pc := p |}.
Fixpoint upd {A} (l : list A) (i : nat) (x : A) : list A :=
  match l, i with
  | [], _ => []
  | _ :: r, O => x :: r
  | y :: r, S k => y :: upd r k x
  end.

Definition cstep (locked : bool) (l : lim) (c : cstate) (i : nat) : cstate :=
  match nth_error (c_threads c) i with
  | None => c
  | Some t =>
    let put p := {| c_stats := c_stats c; c_threads := upd (c_threads c) i (set_pc t p); c_collected := c_collected c;
                     c_acq := c_acq c |} in
    match t_pc t with
    | PStart => if can_trigger l (c_stats c) (t_ts t) then put PChecked else put (PDone false)
    | PChecked => if t_cond t then put PCondOk else put (PDone false)
    | PCondOk =>
        if locked then
          if can_trigger l (c_stats c) (t_ts t)
          then {| c_stats := fire (c_stats c) (t_ts t); c_threads := upd (c_threads c) i (set_pc t PAcquired);
                  c_collected := c_collected c; c_acq := c_acq c ++ [t_ts t] |}
          else put (PDone false)
        else put PAcquired
    | PAcquired =>
        if locked then
          {| c_stats := c_stats c; c_threads := upd (c_threads c) i (set_pc t (PDone true));
             c_collected := c_collected c ++ [t_ts t]; c_acq := c_acq c |}
        else
          {| c_stats := fire (c_stats c) (t_ts t); c_threads := upd (c_threads c) i (set_pc t (PDone true));
             c_collected := c_collected c ++ [t_ts t]; c_acq := c_acq c ++ [t_ts t] |}
    | PDone _ => c
    end
  end.

Definition crun (locked : bool) (l : lim) (c : cstate) (sched : list nat) : cstate :=
  fold_left (cstep locked l) sched c.

Definition cinit (ths : list (Z * bool)) : cstate :=
  {| c_stats := stats0; c_threads := map (fun p => {| t_ts := fst p; t_cond := snd p; t_pc := PStart |}) ths;
     c_collected := []; c_acq := [] |}.

(* ---------- correspondence ---------- *)
Record lim_case := { lc_count : option argv; lc_period : option argv; lc_ws : Z; lc_we : Z;
                     lc_hits : list hit; lc_obs : list bool; lc_obs_cnt : Z; lc_obs_last : Z }.
Definition check_lim_case (c : lim_case) : bool :=
  let '(s, bs) := run (mk_lim (lc_count c) (lc_period c) (lc_ws c) (lc_we c)) stats0 (lc_hits c) in
  list_eqb Bool.eqb bs (lc_obs c) && (cnt s =? lc_obs_cnt c) && (lastf s =? lc_obs_last c).

(* concurrent: the implementation was driven under a forced schedule; number of collections and
   final stats must agree with the locked model under the same schedule *)
Record conc_case := { cc_count : option argv; cc_period : option argv; cc_threads : list (Z * bool);
                      cc_sched : list nat; cc_obs_collected : nat; cc_obs_cnt : Z }.
Definition check_conc_case (c : conc_case) : bool :=
  let r := crun true (mk_lim (cc_count c) (cc_period c) 0 0) (cinit (cc_threads c)) (cc_sched c) in
  Nat.eqb (length (c_collected r)) (cc_obs_collected c) && (cnt (c_stats r) =? cc_obs_cnt c).
