From Deep Require Import Base Config Limiter LimiterProofs Cond Metric.

Lemma dispatch_length ev ms procs : length (dispatch ev ms procs) = (length ms * length procs)%nat.
Proof.
  unfold dispatch. induction ms as [|m r IH]; simpl; [reflexivity|]. rewrite app_length, map_length, IH. reflexivity.
Qed.

Lemma dispatch_in ev ms procs c :
  In c (dispatch ev ms procs) <-> exists m p, In m ms /\ In p procs /\ c = call_of ev m p.
Proof.
  unfold dispatch. rewrite in_flat_map. split.
  - intros (m & Im & Ic). apply in_map_iff in Ic as (p & <- & Ip). exists m, p. auto.
  - intros (m & p & Im & Ip & ->). exists m. split; [exact Im|]. apply in_map. exact Ip.
Qed.

(* each definition reaches each processor exactly once: the calls made for metric number i are one per
   processor, in processor order *)
Lemma dispatch_nth ev ms1 m ms2 procs :
  dispatch ev (ms1 ++ m :: ms2) procs = dispatch ev ms1 procs ++ map (call_of ev m) procs ++ dispatch ev ms2 procs.
Proof. unfold dispatch. rewrite flat_map_app. reflexivity. Qed.

Lemma metric_value_default ev m :
  (nonempty_opt (m_expr m) = None \/ exists e, nonempty_opt (m_expr m) = Some e /\ r_num (ev e) = None) ->
  metric_value ev m = ONE.
Proof. unfold metric_value. intros [->|(e & -> & ->)]; reflexivity. Qed.

Lemma metric_value_numeric ev m e v :
  nonempty_opt (m_expr m) = Some e -> r_num (ev e) = Some v -> metric_value ev m = v.
Proof. unfold metric_value. intros -> ->. reflexivity. Qed.

Lemma no_processor l s h ev ms : metric_hit l s h ev ms [] = (s, []).
Proof. reflexivity. Qed.

Lemma metric_hit_permitted l s h ev ms p ps :
  snd (step l s h) = true -> snd (metric_hit l s h ev ms (p :: ps)) = dispatch ev ms (p :: ps).
Proof. unfold metric_hit. destruct (step l s h) as [s' b]. simpl. intros ->. reflexivity. Qed.

Lemma metric_hit_rejected l s h ev ms procs :
  snd (step l s h) = false -> metric_hit l s h ev ms procs = (s, []) \/ (procs <> [] /\ metric_hit l s h ev ms procs = (fst (step l s h), [])).
Proof.
  unfold metric_hit. destruct procs; [left; reflexivity|]. destruct (step l s h) as [s' b]. simpl. intros ->.
  right. split; [discriminate|reflexivity].
Qed.
