(* Frames.v -- FrameCollector.collect/_process_frame: one StackFrame per frame of the f_back chain,
   described by file, short path, function, line, class of self and app-frame flag; frame_type
   decides which frames carry variables (SnapshotActionContext.should_collect_vars). *)
From Deep Require Import Base Config.

Record frame_meta := { fm_file : str; fm_func : str; fm_line : Z; fm_class : option str }.
Record frame_out := { fo_file : str; fo_short : str; fo_func : str; fo_line : Z; fo_class : option str; fo_app : bool }.

Definition describe_frame (excl incl : list str) (root : str) (f : frame_meta) : frame_out :=
  let '(a, m) := is_app_frame excl incl root (fm_file f) in
  {| fo_file := fm_file f; fo_short := short_path m (fm_file f); fo_func := fm_func f; fo_line := fm_line f;
     fo_class := fm_class f; fo_app := a |}.

Definition frames_of (excl incl : list str) (root : str) (stack : list frame_meta) : list frame_out :=
  map (describe_frame excl incl root) stack.

Inductive frame_type := SingleFrame | AllFrame | NoFrame.
(* unknown texts behave like single_frame *)
Definition collects (ft : frame_type) (i : nat) : bool :=
  match ft with NoFrame => false | AllFrame => true | SingleFrame => Nat.eqb i 0 end.
(* the text of the frame_type argument (absent: single_frame) *)
Definition s_no_frame : str := [110; 111; 95; 102; 114; 97; 109; 101].
Definition s_all_frame : str := [97; 108; 108; 95; 102; 114; 97; 109; 101].
Definition frame_type_of_text (t : option str) : frame_type :=
  match t with
  | Some s => if str_eqb s s_no_frame then NoFrame else if str_eqb s s_all_frame then AllFrame else SingleFrame
  | None => SingleFrame
  end.
Fixpoint collect_flags_from (ft : frame_type) (i n : nat) : list bool :=
  match n with O => [] | S k => collects ft i :: collect_flags_from ft (S i) k end.

Definition frame_out_eqb (a b : frame_out) : bool :=
  str_eqb (fo_file a) (fo_file b) && str_eqb (fo_short a) (fo_short b) && str_eqb (fo_func a) (fo_func b)
  && Z.eqb (fo_line a) (fo_line b) && option_eqb str_eqb (fo_class a) (fo_class b) && Bool.eqb (fo_app a) (fo_app b).

Record frames_case := { fk_excl : cv; fk_incl : cv; fk_exec_prefix : str; fk_root : str; fk_stack : list frame_meta;
                        fk_type : frame_type; fk_obs : list frame_out; fk_obs_has_vars : list bool;
                        fk_locals_empty : list bool }.
(* a frame carries variables only if frame_type selects it and it has locals (which of the locals
   it carries under the limits is the collector's correspondence, Collector.check_snap_case) *)
Definition check_frames_case (c : frames_case) : bool :=
  list_eqb frame_out_eqb
    (frames_of (with_exec_prefix (fk_exec_prefix c) (as_prefixes (fk_excl c))) (as_prefixes (fk_incl c)) (fk_root c) (fk_stack c))
    (fk_obs c)
  && Nat.eqb (length (fk_obs_has_vars c)) (length (fk_stack c))
  && forallb (fun p => implb (snd p) (andb (fst (fst p)) (negb (snd (fst p)))))
       (combine (combine (collect_flags_from (fk_type c) 0 (length (fk_stack c))) (fk_locals_empty c)) (fk_obs_has_vars c)).
