(* TieSpans.v -- SpanActionContext.can_trigger as translated from /repo/src on every run (gen/PSpans.v): without a span
   processor plugin a span action cannot trigger (and so records no fire); with one it is the ordinary gate of an action. *)
From Deep Require Import Base PureSupport.
From DeepGen Require Import PSpans.

Lemma tie_span_can_trigger has_processor gate_ : gen_span_can_trigger has_processor gate_ = has_processor && gate_.
Proof. unfold gen_span_can_trigger. destruct has_processor; reflexivity. Qed.
