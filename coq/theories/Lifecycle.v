(* Lifecycle.v -- start / shutdown of the agent:
     api/deep.py                    Deep.start, Deep.shutdown
     processor/trigger_handler.py   TriggerHandler.start, shutdown, the inert flag read by _trace_call
     poll/poll.py, task/__init__.py, api/plugin/__init__.py   the steps of shutdown
   A trace hook is a number: 0 = none, AGENT = the agent's handler, anything else = a host function. *)
From Deep Require Import Base.

Definition AGENT : nat := 1.
Inductive stepname := SHooks | SFlush | SPoll | SPlugin (i : nat).
Record life := { sys_hook : nat; thr_hook : nat; started : bool; saved_sys : nat; saved_thr : nat;
                 hooks_installed : bool; inert : bool; polling : bool;
                 attempted : list stepname }.   (* ghost: steps of the LAST shutdown, in order *)
Record conf := { no_trace : bool; nplugins : nat }.
(* which steps raise during a shutdown *)
Record faults := { f_flush : bool; f_poll : bool; f_plugin : nat -> bool }.

Inductive op := Start | StartFails | Shutdown (f : faults) | HostSetsHooks (s t : nat).

Definition do_start (c : conf) (l : life) : life :=
  if started l then l else
  if no_trace c
  then {| sys_hook := sys_hook l; thr_hook := thr_hook l; started := true; saved_sys := saved_sys l; saved_thr := saved_thr l;
          hooks_installed := false; inert := false; polling := true; attempted := attempted l |}
  else {| sys_hook := AGENT; thr_hook := AGENT; started := true; saved_sys := sys_hook l; saved_thr := thr_hook l;
          hooks_installed := true; inert := false; polling := true; attempted := attempted l |}.

(* a start during which the channel or the poll raises, AFTER the handler installed its hooks.  cleanup = true (the code): the
   handler is shut down again before the error is re-raised - the hooks are put back, the handler is inert, nothing is started;
   cleanup = false (before the repair): the hooks stay installed and the agent is not marked started, so no shutdown will ever
   take them back *)
Definition do_failed_start (cleanup : bool) (c : conf) (l : life) : life :=
  if started l then l else
  let l1 := do_start c l in
  if cleanup
  then {| sys_hook := if hooks_installed l1 then saved_sys l1 else sys_hook l1;
          thr_hook := if hooks_installed l1 then saved_thr l1 else thr_hook l1;
          started := false; saved_sys := saved_sys l1; saved_thr := saved_thr l1; hooks_installed := false;
          inert := true; polling := false; attempted := attempted l |}
  else {| sys_hook := sys_hook l1; thr_hook := thr_hook l1; started := false; saved_sys := saved_sys l1; saved_thr := saved_thr l1;
          hooks_installed := hooks_installed l1; inert := false; polling := false; attempted := attempted l |}.

(* guarded = true: every step is attempted whatever the earlier ones did (the code);
   guarded = false: the first raising step aborts the rest (before the repair) *)
Fixpoint plugin_steps (guarded : bool) (f : faults) (i n : nat) : list stepname * bool (* completed *) :=
  match n with
  | O => ([], true)
  | S k => if f_plugin f i && negb guarded then ([SPlugin i], false)
           else let '(r, ok) := plugin_steps guarded f (S i) k in (SPlugin i :: r, ok)
  end.

Definition do_shutdown (guarded : bool) (c : conf) (f : faults) (l : life) : life :=
  if negb (started l) then l else
  (* trigger handler: inert, restore only what start replaced *)
  let l1 := {| sys_hook := if hooks_installed l then saved_sys l else sys_hook l;
               thr_hook := if hooks_installed l then saved_thr l else thr_hook l;
               started := true; saved_sys := saved_sys l; saved_thr := saved_thr l; hooks_installed := false;
               inert := true; polling := polling l; attempted := [SHooks] |} in
  if f_flush f && negb guarded
  then {| sys_hook := sys_hook l1; thr_hook := thr_hook l1; started := true; saved_sys := saved_sys l1; saved_thr := saved_thr l1;
          hooks_installed := false; inert := true; polling := polling l1; attempted := [SHooks; SFlush] |}
  else if f_poll f && negb guarded
  then {| sys_hook := sys_hook l1; thr_hook := thr_hook l1; started := true; saved_sys := saved_sys l1; saved_thr := saved_thr l1;
          hooks_installed := false; inert := true; polling := polling l1; attempted := [SHooks; SFlush; SPoll] |}
  else
    let '(ps, ok) := plugin_steps guarded f 0 (nplugins c) in
    {| sys_hook := sys_hook l1; thr_hook := thr_hook l1; started := negb ok; saved_sys := saved_sys l1; saved_thr := saved_thr l1;
       hooks_installed := false; inert := true; polling := false; attempted := [SHooks; SFlush; SPoll] ++ ps |}.

Definition step (guarded : bool) (c : conf) (l : life) (o : op) : life :=
  match o with
  | Start => do_start c l
  | StartFails => do_failed_start true c l
  | Shutdown f => do_shutdown guarded c f l
  | HostSetsHooks s t =>
      {| sys_hook := s; thr_hook := t; started := started l; saved_sys := saved_sys l; saved_thr := saved_thr l;
         hooks_installed := hooks_installed l; inert := inert l; polling := polling l; attempted := attempted l |}
  end.
Definition run (guarded : bool) (c : conf) (l : life) (ops : list op) : life := fold_left (step guarded c) ops l.
Definition life0 (s t : nat) : life :=
  {| sys_hook := s; thr_hook := t; started := false; saved_sys := 0; saved_thr := 0; hooks_installed := false; inert := false;
     polling := false; attempted := [] |}.

(* what the handler does with a trace event once shut down: nothing, and it stops tracing the scope *)
Definition handler_acts (l : life) (would_act : list nat) : list nat := if inert l then [] else would_act.

(* ---------- correspondence ---------- *)
Definition stepname_eqb (a b : stepname) : bool :=
  match a, b with
  | SHooks, SHooks | SFlush, SFlush | SPoll, SPoll => true
  | SPlugin i, SPlugin j => Nat.eqb i j
  | _, _ => false
  end.
Record cop := { co_kind : nat (* 0 start, 1 shutdown, 2 host sets hooks, 3 a start that fails *); co_flush : bool; co_poll : bool;
                co_plugins : list bool; co_s : nat; co_t : nat }.
Definition to_op (o : cop) : op :=
  match co_kind o with
  | O => Start
  | S O => Shutdown {| f_flush := co_flush o; f_poll := co_poll o; f_plugin := fun i => nth i (co_plugins o) false |}
  | S (S O) => HostSetsHooks (co_s o) (co_t o)
  | _ => StartFails
  end.
Record obs := { ob_sys : nat; ob_thr : nat; ob_started : bool; ob_inert : bool; ob_attempted : list stepname }.
Record life_case := { lc_conf : conf; lc_s0 : nat; lc_t0 : nat; lc_ops : list cop; lc_obs : list obs }.
Fixpoint ltrace (c : conf) (l : life) (ops : list cop) : list life :=
  match ops with [] => [] | o :: r => let l1 := step true c l (to_op o) in l1 :: ltrace c l1 r end.
Definition obs_ok (l : life) (o : obs) : bool :=
  Nat.eqb (sys_hook l) (ob_sys o) && Nat.eqb (thr_hook l) (ob_thr o) && Bool.eqb (started l) (ob_started o)
  && Bool.eqb (inert l) (ob_inert o) && list_eqb stepname_eqb (attempted l) (ob_attempted o).
Fixpoint all2 {A B} (f : A -> B -> bool) (a : list A) (b : list B) : bool :=
  match a, b with [], [] => true | x :: a', y :: b' => f x y && all2 f a' b' | _, _ => false end.
Definition check_life_case (c : life_case) : bool :=
  all2 obs_ok (ltrace (lc_conf c) (life0 (lc_s0 c) (lc_t0 c)) (lc_ops c)) (lc_obs c).
