(* TieRegistry.v -- TracepointConfigService.add_custom / remove_custom as translated from /repo/src on every run
   (gen/PRegistry.v) are the Register / RegisterRefused / Unregister steps of ConfigSvc.step. *)
From Deep Require Import Base ConfigSvc PureSupport.
From DeepGen Require Import PService PRegistry.
From Coq Require Import Lia.
Local Open Scope Z_scope.

(* ---------- registrations: add_custom / remove_custom (the two parallel lists are the handles and the tracepoints of
   ConfigSvc.custom) ---------- *)
Lemma tie_add_custom s tp :
  gen_add_custom (polled s) (hash s) (last_update s) (map fst (custom s)) (map snd (custom s)) (pending s) (next_handle s) (Some tp) =
  let s' := step true s (Register tp) in ((map fst (custom s'), map snd (custom s'), pending s'), Some (next_handle s)).
Proof.
  unfold gen_add_custom, interp_built, gen_trigger_update, submit_task, step, submit. simpl.
  rewrite !map_app. reflexivity.
Qed.

Lemma tie_add_custom_refused s :
  gen_add_custom (polled s) (hash s) (last_update s) (map fst (custom s)) (map snd (custom s)) (pending s) (next_handle s) None =
  let s' := step true s RegisterRefused in ((map fst (custom s'), map snd (custom s'), pending s'), None).
Proof. reflexivity. Qed.

Lemma find_index_handles h (l : list (nat * nat)) :
  match find_index (fun x => Nat.eqb x h) (map fst l) with
  | Some i => has_handle h l = true /\ remove_nth i (map fst l) = map fst (remove_handle h l)
              /\ remove_nth i (map snd l) = map snd (remove_handle h l)
  | None => has_handle h l = false
  end.
Proof.
  induction l as [|[h' t] r IH]; simpl; [reflexivity|].
  destruct (Nat.eqb h' h) eqn:E; simpl; [repeat split; reflexivity|].
  destruct (find_index (fun x => Nat.eqb x h) (map fst r)) as [i|]; simpl.
  - destruct IH as (H1 & H2 & H3). repeat split; [exact H1 | f_equal; exact H2 | f_equal; exact H3].
  - exact IH.
Qed.

Lemma tie_remove_custom s h :
  gen_remove_custom (polled s) (hash s) (last_update s) (map fst (custom s)) (map snd (custom s)) (pending s) h =
  let s' := step true s (Unregister h) in (map fst (custom s'), map snd (custom s'), pending s').
Proof.
  unfold gen_remove_custom, step. pose proof (find_index_handles h (custom s)) as F.
  destruct (find_index (fun x => Nat.eqb x h) (map fst (custom s))) as [i|].
  - destruct F as (H1 & H2 & H3). rewrite H1, H2, H3. reflexivity.
  - rewrite F. reflexivity.
Qed.
