(* Collector.v -- executable model of the variable collector:
     processor/bfs (work list), processor/variable_processor.py (process_variable,
     process_child_nodes, find_children_for_parent, truncate_string, var_modifiers, correct_names),
     processor/variable_set_processor.py (cache, budget, table), processor/frame_collector.py
     (locals processed as one dict, then unwrapped) and the watch/capture collection of
     processor/context/action_context.py.
   Host objects are nodes of an abstract heap: what the agent can observe of an object is its
   type name, its (guarded) text, and its children by kind. *)
From Deep Require Import Base Config.

Record child := { c_name : str; c_oid : nat }.
Inductive kind :=
| KLeaf                         (* NO_CHILD_TYPES, objects without attribute dictionary *)
| KDict (ch : list child)       (* exact dict: key names and values, iteration order *)
| KSeq (el : list nat)          (* list/tuple/set/frozenset elements, exception args *)
| KObj (attrs : list child).    (* attribute dictionary, raw names *)
(* o_sized: an exact dict / list / tuple / set / frozenset, whose text is its element count; otherwise o_text is the
   object's (guarded) str() *)
Record obj := { o_ty : str; o_text : str; o_kind : kind; o_sized : bool }.
Definition heap := list obj.
Definition dummy_obj : obj := {| o_ty := []; o_text := []; o_kind := KLeaf; o_sized := false |}.
Definition kind_count (k : kind) : nat :=
  match k with KLeaf => 0 | KDict ch => length ch | KSeq el => length el | KObj a => length a end.
Definition SIZE_PREFIX : str := [83; 105; 122; 101; 58; 32].      (* "Size: " *)
(* variable_to_string: 'Size: n' for the sized containers (n = ALL their elements, not only the collected ones) *)
Definition otext (ob : obj) : str := if o_sized ob then SIZE_PREFIX ++ print_nat (kind_count (o_kind ob)) else o_text ob.
Definition hget (h : heap) (o : nat) : obj := nth o h dummy_obj.

Record cfg := { max_vars : nat; max_coll : nat; max_depth : nat; max_str : nat }.

Inductive parent := PRoot | PVar (v : nat).
Record node := { n_name : str; n_orig : option str; n_oid : nat; n_par : parent; n_depth : nat }.
(* VariableId: id, name, original name (modifiers are a function of the name) *)
Record vref := { r_vid : nat; r_name : str; r_orig : option str }.
(* Variable: type, value text, truncated flag, identity, children *)
Record var := { v_ty : str; v_val : str; v_trunc : bool; v_oid : nat; v_children : list vref }.
Record st := { cache : list nat;                (* object ids in order of recording: id = index + 1 *)
               table : list (nat * var);        (* var_lookup, insertion order *)
               roots : list vref;               (* references handed to the root parent *)
               queue : list node;
               stopped : bool;
               log : list (nat * nat) }.        (* ghost: (id, depth) of every variable in recording order *)

Fixpoint index_of (o : nat) (l : list nat) (i : nat) : option nat :=
  match l with [] => None | x :: r => if Nat.eqb x o then Some i else index_of o r (S i) end.
Definition lookup_cache (c : list nat) (o : nat) : option nat := index_of o c 1.

Fixpoint tlookup (v : nat) (t : list (nat * var)) : option var :=
  match t with [] => None | (k, x) :: r => if Nat.eqb k v then Some x else tlookup v r end.
Fixpoint tremove (v : nat) (t : list (nat * var)) : list (nat * var) :=
  match t with [] => [] | (k, x) :: r => if Nat.eqb k v then tremove v r else (k, x) :: tremove v r end.

Definition add_child_var (x : var) (c : vref) : var :=
  {| v_ty := v_ty x; v_val := v_val x; v_trunc := v_trunc x; v_oid := v_oid x; v_children := v_children x ++ [c] |}.
Fixpoint add_child_tbl (t : list (nat * var)) (p : nat) (c : vref) : list (nat * var) :=
  match t with
  | [] => []
  | (v, x) :: r => if Nat.eqb v p then (v, add_child_var x c) :: r else (v, x) :: add_child_tbl r p c
  end.

(* correct_names: "_" + type name is stripped from an attribute name that starts with it *)
Definition correct_name (ty name : str) : str :=
  let prefix := 95 :: ty in
  if prefixb prefix name then skipn (length prefix) name else name.

Fixpoint number (i : nat) (l : list nat) : list (nat * nat) :=
  match l with [] => [] | x :: r => (i, x) :: number (S i) r end.

Definition mk_node (v d : nat) (name : str) (orig : option str) (o : nat) : node :=
  {| n_name := name; n_orig := orig; n_oid := o; n_par := PVar v; n_depth := S d |}.

Definition children_of (c : cfg) (h : heap) (o d v : nat) : list node :=
  if (max_depth c <=? d + 1)%nat then [] else
  match o_kind (hget h o) with
  | KLeaf => []
  | KDict ch => map (fun x => mk_node v d (c_name x) None (c_oid x)) ch
  | KSeq el => map (fun ix => mk_node v d (print_nat (fst ix)) None (snd ix)) (number 0 (firstn (max_coll c) el))
  | KObj attrs => map (fun x => let n := correct_name (o_ty (hget h o)) (c_name x) in
                                mk_node v d n (if str_eqb n (c_name x) then None else Some (c_name x)) (c_oid x)) attrs
  end.

Definition attach (t : list (nat * var)) (rs : list vref) (p : parent) (c : vref) :=
  match p with PRoot => (t, rs ++ [c]) | PVar v => (add_child_tbl t v c, rs) end.

Definition record_var (c : cfg) (h : heap) (o : nat) : var :=
  let full := otext (hget h o) in
  {| v_ty := o_ty (hget h o); v_val := firstn (max_str c) full;
     v_trunc := (max_str c <? length full)%nat; v_oid := o; v_children := [] |}.

(* one iteration of breadth_first_search's loop.  fifo = true is the code's discipline
   (queue.pop(0)); fifo = false pops the END of the list, the discipline it had before the repair *)
Definition pop (fifo : bool) (q : list node) : option (node * list node) :=
  if fifo then match q with [] => None | n :: r => Some (n, r) end
  else match rev q with [] => None | n :: r => Some (n, rev r) end.

Definition step (fifo : bool) (c : cfg) (h : heap) (s : st) : st :=
  if stopped s then s else
  match pop fifo (queue s) with
  | None => s
  | Some (n, q) =>
    if (max_vars c <? length (cache s))%nat
    then {| cache := cache s; table := table s; roots := roots s; queue := []; stopped := true; log := log s |}
    else
      let r := fun v => {| r_vid := v; r_name := n_name n; r_orig := n_orig n |} in
      match lookup_cache (cache s) (n_oid n) with
      | Some v => let '(t, rs) := attach (table s) (roots s) (n_par n) (r v) in
                  {| cache := cache s; table := t; roots := rs; queue := q; stopped := false; log := log s |}
      | None => let v := S (length (cache s)) in
                let '(t, rs) := attach (table s ++ [(v, record_var c h (n_oid n))]) (roots s) (n_par n) (r v) in
                {| cache := cache s ++ [n_oid n]; table := t; roots := rs;
                   queue := q ++ children_of c h (n_oid n) (n_depth n) v; stopped := false;
                   log := log s ++ [(v, n_depth n)] |}
      end
  end.

Fixpoint run (fuel : nat) (fifo : bool) (c : cfg) (h : heap) (s : st) : st :=
  match fuel with O => s | S f => run f fifo c h (step fifo c h s) end.

Definition finished (s : st) : bool := stopped s || match queue s with [] => true | _ => false end.

(* VariableSetProcessor.process_variable(name, value) on a given cache and table *)
Definition root_node (name : str) (o : nat) : node :=
  {| n_name := name; n_orig := None; n_oid := o; n_par := PRoot; n_depth := 0 |}.

Record acc := { a_cache : list nat; a_table : list (nat * var); a_ok : bool (* fuel sufficed *) }.

Definition collect_root (fuel : nat) (fifo : bool) (c : cfg) (h : heap) (a : acc) (tbl : list (nat * var))
           (name : str) (o : nat) : acc * list (nat * var) * option nat :=
  match lookup_cache (a_cache a) o with
  | Some v => (a, tbl, Some v)
  | None =>
      let s := run fuel fifo c h {| cache := a_cache a; table := tbl; roots := []; queue := [root_node name o];
                                    stopped := false; log := [] |} in
      ({| a_cache := cache s; a_table := a_table a; a_ok := a_ok a && finished s |}, table s,
       lookup_cache (cache s) o)
  end.

(* FrameCollector._process_frame: the locals are processed as ONE dict named "locals", whose entry
   is then removed from the table and whose children become the frame's variables *)
Definition LOCALS : str := [108;111;99;97;108;115].
Record frame_in := { fr_locals : nat; fr_collect : bool }.

Definition collect_frame (fuel : nat) (fifo : bool) (c : cfg) (h : heap) (a : acc) (f : frame_in)
  : acc * list vref :=
  if fr_collect f then
    let '(a1, t1, r) := collect_root fuel fifo c h a (a_table a) LOCALS (fr_locals f) in
    match r with
    | Some v => match tlookup v t1 with
                | Some x => ({| a_cache := a_cache a1; a_table := tremove v t1; a_ok := a_ok a1 |}, v_children x)
                | None => ({| a_cache := a_cache a1; a_table := t1; a_ok := a_ok a1 |}, [])
                end
    | None => ({| a_cache := a_cache a1; a_table := t1; a_ok := a_ok a1 |}, [])
    end
  else (a, []).

Fixpoint collect_frames (fuel : nat) (fifo : bool) (c : cfg) (h : heap) (a : acc) (fs : list frame_in)
  : acc * list (list vref) :=
  match fs with
  | [] => (a, [])
  | f :: r => let '(a1, vs) := collect_frame fuel fifo c h a f in
              let '(a2, rest) := collect_frames fuel fifo c h a1 r in (a2, vs :: rest)
  end.

(* eval_watch / process_capture_variable: a fresh table, the action's cache; the new entries are
   merged into the snapshot's table; no id when the budget stopped before the root *)
Fixpoint tupdate (t add : list (nat * var)) : list (nat * var) :=
  match add with
  | [] => t
  | (k, x) :: r => tupdate (match tlookup k t with
                            | Some _ => map (fun kv => if Nat.eqb (fst kv) k then (k, x) else kv) t
                            | None => t ++ [(k, x)] end) r
  end.

Definition collect_watch (fuel : nat) (fifo : bool) (c : cfg) (h : heap) (a : acc) (w : str * nat)
  : acc * option vref :=
  let '(a1, t1, r) := collect_root fuel fifo c h a [] (fst w) (snd w) in
  match r with
  | Some v => ({| a_cache := a_cache a1; a_table := tupdate (a_table a1) t1; a_ok := a_ok a1 |},
               Some {| r_vid := v; r_name := fst w; r_orig := None |})
  | None => ({| a_cache := a_cache a1; a_table := a_table a1; a_ok := a_ok a1 |}, None)
  end.

Fixpoint collect_watches (fuel : nat) (fifo : bool) (c : cfg) (h : heap) (a : acc) (ws : list (str * nat))
  : acc * list (option vref) :=
  match ws with
  | [] => (a, [])
  | w :: r => let '(a1, x) := collect_watch fuel fifo c h a w in
              let '(a2, rest) := collect_watches fuel fifo c h a1 r in (a2, x :: rest)
  end.

Record snap_out := { so_frames : list (list vref); so_table : list (nat * var);
                     so_watches : list (option vref); so_ok : bool; so_cache : list nat }.

Definition snapshot (fuel : nat) (fifo : bool) (c : cfg) (h : heap) (fs : list frame_in) (ws : list (str * nat))
  : snap_out :=
  let a0 := {| a_cache := []; a_table := []; a_ok := true |} in
  let '(a1, frs) := collect_frames fuel fifo c h a0 fs in
  let '(a2, wrs) := collect_watches fuel fifo c h a1 ws in
  {| so_frames := frs; so_table := a_table a2; so_watches := wrs; so_ok := a_ok a2; so_cache := a_cache a2 |}.

(* var_modifiers *)
Inductive modifier := MNone | MProtected | MPrivate.
Definition modifier_of (name : str) : modifier :=
  match name with
  | 95 :: 95 :: _ => MPrivate
  | 95 :: _ => MProtected
  | _ => MNone
  end.

(* ---------- correspondence ---------- *)
Definition vref_eqb (a b : vref) : bool :=
  Nat.eqb (r_vid a) (r_vid b) && str_eqb (r_name a) (r_name b) && option_eqb str_eqb (r_orig a) (r_orig b).
Definition var_eqb (a b : var) : bool :=
  str_eqb (v_ty a) (v_ty b) && str_eqb (v_val a) (v_val b) && Bool.eqb (v_trunc a) (v_trunc b)
  && Nat.eqb (v_oid a) (v_oid b) && list_eqb vref_eqb (v_children a) (v_children b).
Definition entry_eqb (a b : nat * var) : bool := Nat.eqb (fst a) (fst b) && var_eqb (snd a) (snd b).

(* observed modifiers are checked against the names of the observed references *)
Record obs_ref := { or_ref : vref; or_mod : modifier }.
Definition modifier_eqb (a b : modifier) : bool :=
  match a, b with MNone, MNone | MProtected, MProtected | MPrivate, MPrivate => true | _, _ => false end.

Record snap_case := { sn_cfg : cfg; sn_heap : heap; sn_frames : list frame_in; sn_watches : list (str * nat);
                      sn_fuel : nat;
                      sn_obs_frames : list (list vref); sn_obs_table : list (nat * var);
                      sn_obs_watches : list (option vref); sn_obs_mods : list obs_ref }.
Definition check_snap_case (c : snap_case) : bool :=
  let o := snapshot (sn_fuel c) true (sn_cfg c) (sn_heap c) (sn_frames c) (sn_watches c) in
  so_ok o
  && list_eqb (list_eqb vref_eqb) (so_frames o) (sn_obs_frames c)
  && list_eqb entry_eqb (so_table o) (sn_obs_table c)
  && list_eqb (option_eqb vref_eqb) (so_watches o) (sn_obs_watches c)
  && forallb (fun r => modifier_eqb (modifier_of (r_name (or_ref r))) (or_mod r)) (sn_obs_mods c).

(* per-property projections of the comparison: the correspondence of a property looks at that property's own observables only,
   so that a change which touches other observables (the text of a value, a type name, a modifier) does not break it *)
Definition strip_ref (r : vref) : vref := {| r_vid := r_vid r; r_name := []; r_orig := None |}.
(* C05 - bounds and order: how many entries and in which order, length of every value and its truncation flag, the children *)
Definition proj_bounds (x : var) : var :=
  {| v_ty := []; v_val := map (fun _ => 0) (v_val x); v_trunc := v_trunc x; v_oid := v_oid x; v_children := map strip_ref (v_children x) |}.
(* C07 - identity: which object every entry stands for, and which ids every reference holds *)
Definition proj_identity (x : var) : var :=
  {| v_ty := []; v_val := []; v_trunc := false; v_oid := v_oid x; v_children := map strip_ref (v_children x) |}.
Definition check_snap_case_proj (p : var -> var) (c : snap_case) : bool :=
  let o := snapshot (sn_fuel c) true (sn_cfg c) (sn_heap c) (sn_frames c) (sn_watches c) in
  so_ok o
  && list_eqb (list_eqb vref_eqb) (map (map strip_ref) (so_frames o)) (map (map strip_ref) (sn_obs_frames c))
  && list_eqb entry_eqb (map (fun e => (fst e, p (snd e))) (so_table o)) (map (fun e => (fst e, p (snd e))) (sn_obs_table c))
  && list_eqb (option_eqb vref_eqb) (map (option_map strip_ref) (so_watches o)) (map (option_map strip_ref) (sn_obs_watches c)).
(* C06 - totality: which objects were recorded, as what type, with which children (the text of a value is C02 / C05) *)
Definition proj_types (x : var) : var :=
  {| v_ty := v_ty x; v_val := []; v_trunc := false; v_oid := v_oid x; v_children := map strip_ref (v_children x) |}.
Definition check_snap_case_types : snap_case -> bool := check_snap_case_proj proj_types.
Definition check_snap_case_bounds : snap_case -> bool := check_snap_case_proj proj_bounds.
Definition check_snap_case_identity : snap_case -> bool := check_snap_case_proj proj_identity.
