(* Config.v -- model of deep.config.config_service.ConfigService.__getattribute__ (setting
   resolution), the typed use of the documented settings, and is_app_frame / short path. *)
From Deep Require Import Base.
From Coq Require Import DecimalNat.

(* a value a setting can hold; VFun r is a callable returning r *)
Inductive cv :=
| VNoneV | VText (s : str) | VNum (n : nat) | VBool (b : bool) | VList (l : list str) | VFun (r : cv).

Definition is_none (v : cv) : bool := match v with VNoneV => true | _ => false end.
Definition call (v : cv) : cv := match v with VFun r => r | _ => v end.

(* resolution of one key.
   own    : the name is a real attribute of the service object (returned as is, never called)
   custom : entry of the code-supplied dict (None-valued entries count as absent)
   dflt   : attribute of the deep.config module, if the module has that name
   env    : os.getenv("DEEP_" + key) *)
Definition resolve (own custom dflt : option cv) (env : option str) : cv :=
  match own with
  | Some v => v
  | None =>
      match custom with
      | Some v => if is_none v
                  then match dflt with
                       | Some d => call d
                       | None => match env with Some s => VText s | None => VNoneV end
                       end
                  else call v
      | None => match dflt with
                | Some d => call d
                | None => match env with Some s => VText s | None => VNoneV end
                end
      end
  end.

(* ---------- typed use of settings ---------- *)
Definition lower1 (c : Z) : Z := if (65 <=? c) && (c <=? 90) then c + 32 else c.
Definition lower (s : str) : str := map lower1 s.
Definition TRUE_WORDS : list str := [[121;101;115]; [116;114;117;101]; [116]; [49]; [121]].
Definition str2bool (s : str) : bool := existsb (str_eqb (lower s)) TRUE_WORDS.

Fixpoint print_uint (d : Decimal.uint) : str :=
  match d with
  | Decimal.Nil => []
  | Decimal.D0 d => 48 :: print_uint d | Decimal.D1 d => 49 :: print_uint d
  | Decimal.D2 d => 50 :: print_uint d | Decimal.D3 d => 51 :: print_uint d
  | Decimal.D4 d => 52 :: print_uint d | Decimal.D5 d => 53 :: print_uint d
  | Decimal.D6 d => 54 :: print_uint d | Decimal.D7 d => 55 :: print_uint d
  | Decimal.D8 d => 56 :: print_uint d | Decimal.D9 d => 57 :: print_uint d
  end.
Fixpoint parse_uint (s : str) : option Decimal.uint :=
  match s with
  | [] => Some Decimal.Nil
  | c :: r =>
      match parse_uint r with
      | None => None
      | Some d =>
          if c =? 48 then Some (Decimal.D0 d) else if c =? 49 then Some (Decimal.D1 d) else
          if c =? 50 then Some (Decimal.D2 d) else if c =? 51 then Some (Decimal.D3 d) else
          if c =? 52 then Some (Decimal.D4 d) else if c =? 53 then Some (Decimal.D5 d) else
          if c =? 54 then Some (Decimal.D6 d) else if c =? 55 then Some (Decimal.D7 d) else
          if c =? 56 then Some (Decimal.D8 d) else if c =? 57 then Some (Decimal.D9 d) else None
      end
  end.
Definition print_nat (n : nat) : str := print_uint (Nat.to_uint n).
Definition parse_nat (s : str) : option nat :=
  match s with [] => None | _ => option_map Nat.of_uint (parse_uint s) end.

(* str(v) for the value kinds a boolean switch may hold *)
Definition TRUE_S : str := [84;114;117;101].
Definition FALSE_S : str := [70;97;108;115;101].
Definition text_of (v : cv) : option str :=
  match v with
  | VText s => Some s
  | VBool b => Some (if b then TRUE_S else FALSE_S)
  | VNum n => Some (print_nat n)
  | _ => None
  end.
(* SERVICE_SECURE, PLUGIN_<NAME>: str2bool(str(value)) *)
Definition as_bool (v : cv) : option bool := option_map str2bool (text_of v).
(* POLL_TIMER: float(value), on the non-negative decimal integers *)
Definition as_interval (v : cv) : option nat :=
  match v with VNum n => Some n | VText s => parse_nat s | _ => None end.

(* comma separated prefix lists *)
Fixpoint split_comma_aux (s cur : str) : list str :=
  match s with
  | [] => [rev cur]
  | c :: r => if c =? 44 then rev cur :: split_comma_aux r [] else split_comma_aux r (c :: cur)
  end.
Definition split_comma (s : str) : list str := split_comma_aux s [].
Definition nonempty (s : str) : bool := match s with [] => false | _ => true end.
Fixpoint join_comma (l : list str) : str :=
  match l with [] => [] | [x] => x | x :: r => x ++ 44 :: join_comma r end.
(* IN_APP_INCLUDE / IN_APP_EXCLUDE as used by is_app_frame: text is split on commas and blank
   entries are dropped; a list is used entry by entry *)
Definition as_prefixes (v : cv) : list str :=
  match v with
  | VText s => filter nonempty (split_comma s)
  | VList l => filter nonempty l
  | _ => []
  end.

(* ---------- application frames ---------- *)
Fixpoint first_prefix (l : list str) (f : str) : option str :=
  match l with [] => None | p :: r => if prefixb p f then Some p else first_prefix r f end.

Definition is_app_frame (excl incl : list str) (root f : str) : bool * option str :=
  match first_prefix excl f with
  | Some p => (false, Some p)
  | None => match first_prefix incl f with
            | Some p => (true, Some p)
            | None => if prefixb root f then (true, Some root) else (false, None)
            end
  end.
Definition short_path (m : option str) (f : str) : str :=
  match m with Some p => skipn (length p) f | None => f end.

(* the interpreter's own prefix is always on the exclude list, however the list was supplied *)
Definition with_exec_prefix (ep : str) (excl : list str) : list str :=
  if existsb (str_eqb ep) excl then excl else excl ++ [ep].

(* ---------- correspondence cases ---------- *)
Fixpoint cv_eqb (a b : cv) : bool :=
  match a, b with
  | VNoneV, VNoneV => true
  | VText x, VText y => str_eqb x y
  | VNum x, VNum y => Nat.eqb x y
  | VBool x, VBool y => Bool.eqb x y
  | VList x, VList y => list_eqb str_eqb x y
  | VFun x, VFun y => cv_eqb x y
  | _, _ => false
  end.

Record resolve_case := { rv_own : option cv; rv_custom : option cv; rv_dflt : option cv; rv_env : option str;
                         rv_obs : cv }.
Definition check_resolve_case (c : resolve_case) : bool :=
  cv_eqb (resolve (rv_own c) (rv_custom c) (rv_dflt c) (rv_env c)) (rv_obs c).

Record bool_case := { bc_val : cv; bc_obs : bool }.
Definition check_bool_case (c : bool_case) : bool :=
  match as_bool (bc_val c) with Some b => Bool.eqb b (bc_obs c) | None => false end.
Record interval_case := { ic_val : cv; ic_obs : nat }.
Definition check_interval_case (c : interval_case) : bool :=
  match as_interval (ic_val c) with Some n => Nat.eqb n (ic_obs c) | None => false end.

Record frame_case := { fc_excl : cv; fc_incl : cv; fc_exec_prefix : str; fc_root : str; fc_file : str;
                       fc_app : bool; fc_match : option str; fc_short : str }.
Definition check_frame_case (c : frame_case) : bool :=
  let '(a, m) := is_app_frame (with_exec_prefix (fc_exec_prefix c) (as_prefixes (fc_excl c)))
                              (as_prefixes (fc_incl c)) (fc_root c) (fc_file c) in
  Bool.eqb a (fc_app c) && option_eqb str_eqb m (fc_match c) && str_eqb (short_path m (fc_file c)) (fc_short c).
