(* Base.v -- shared definitions for the deep-python-client models.
   Strings are lists of code points (Z), so lone surrogates are representable.
   No proofs of properties here; only small utility lemmas. *)
From Coq Require Export List Bool Arith ZArith Lia.
Export ListNotations.
Open Scope Z_scope.

Definition str := list Z.

Fixpoint str_eqb (a b : str) : bool :=
  match a, b with
  | [], [] => true
  | x :: a', y :: b' => Z.eqb x y && str_eqb a' b'
  | _, _ => false
  end.

Lemma str_eqb_eq a b : str_eqb a b = true <-> a = b.
Proof.
  revert b; induction a as [|x a IH]; intros [|y b]; simpl; split; intros H;
    try discriminate; try reflexivity.
  - apply andb_true_iff in H as [H1 H2]. apply Z.eqb_eq in H1. apply IH in H2. congruence.
  - inversion H; subst. apply andb_true_iff; split; [apply Z.eqb_refl | apply IH; reflexivity].
Qed.

Lemma str_eqb_refl a : str_eqb a a = true.
Proof. apply str_eqb_eq; reflexivity. Qed.

Lemma str_eqb_neq a b : str_eqb a b = false <-> a <> b.
Proof.
  split; intros H.
  - intros E. apply str_eqb_eq in E. congruence.
  - destruct (str_eqb a b) eqn:E; [apply str_eqb_eq in E; contradiction | reflexivity].
Qed.

Fixpoint prefixb (p s : str) : bool :=
  match p, s with
  | [], _ => true
  | x :: p', y :: s' => Z.eqb x y && prefixb p' s'
  | _ :: _, [] => false
  end.

Lemma prefixb_spec p s : prefixb p s = true <-> exists r, s = p ++ r.
Proof.
  revert s; induction p as [|x p IH]; intros s; simpl.
  - split; [intros _; exists s; reflexivity | reflexivity].
  - destruct s as [|y s]; split; intros H; try discriminate.
    + destruct H as [r H]; discriminate.
    + apply andb_true_iff in H as [H1 H2]. apply Z.eqb_eq in H1. apply IH in H2 as [r ->].
      exists r; subst; reflexivity.
    + destruct H as [r H]. inversion H; subst. apply andb_true_iff; split;
        [apply Z.eqb_refl | apply IH; exists r; reflexivity].
Qed.

(* generic list equality from an element equality *)
Fixpoint list_eqb {A} (eqb : A -> A -> bool) (a b : list A) : bool :=
  match a, b with
  | [], [] => true
  | x :: a', y :: b' => eqb x y && list_eqb eqb a' b'
  | _, _ => false
  end.

Definition option_eqb {A} (eqb : A -> A -> bool) (a b : option A) : bool :=
  match a, b with
  | None, None => true
  | Some x, Some y => eqb x y
  | _, _ => false
  end.

(* indices (0-based) of the cases on which a boolean check fails: the correspondence
   harness prints this list; [] means model and implementation agree on every case *)
Fixpoint bad_from {A} (chk : A -> bool) (i : nat) (l : list A) : list nat :=
  match l with
  | [] => []
  | x :: r => if chk x then bad_from chk (S i) r else i :: bad_from chk (S i) r
  end.
Definition bad_indices {A} (chk : A -> bool) (l : list A) : list nat := bad_from chk 0%nat l.

(* assoc lists keyed by strings *)
Fixpoint alookup {V} (k : str) (l : list (str * V)) : option V :=
  match l with
  | [] => None
  | (k', v) :: r => if str_eqb k' k then Some v else alookup k r
  end.

Fixpoint aremove {V} (k : str) (l : list (str * V)) : list (str * V) :=
  match l with
  | [] => []
  | (k', v) :: r => if str_eqb k' k then aremove k r else (k', v) :: aremove k r
  end.

Definition akeys {V} (l : list (str * V)) : list str := map fst l.

Lemma alookup_aremove_same {V} k (l : list (str * V)) : alookup k (aremove k l) = None.
Proof.
  induction l as [|[k' v] r IH]; simpl; [reflexivity|].
  destruct (str_eqb k' k) eqn:E; [exact IH|]. simpl. rewrite E. exact IH.
Qed.

Lemma alookup_aremove_other {V} k k2 (l : list (str * V)) :
  k <> k2 -> alookup k2 (aremove k l) = alookup k2 l.
Proof.
  intros N. induction l as [|[k' v] r IH]; simpl; [reflexivity|].
  destruct (str_eqb k' k) eqn:E.
  - apply str_eqb_eq in E; subst k'. apply str_eqb_neq in N. rewrite N. exact IH.
  - simpl. rewrite IH. reflexivity.
Qed.

Lemma alookup_app {V} k (a b : list (str * V)) :
  alookup k (a ++ b) = match alookup k a with Some v => Some v | None => alookup k b end.
Proof.
  induction a as [|[k' v] r IH]; simpl; [reflexivity|].
  destruct (str_eqb k' k); [reflexivity | exact IH].
Qed.

Lemma alookup_None_notin {V} k (l : list (str * V)) : alookup k l = None <-> ~ In k (akeys l).
Proof.
  induction l as [|[k' v] r IH]; simpl; split; intros H; auto.
  - destruct (str_eqb k' k) eqn:E; [discriminate|]. apply str_eqb_neq in E.
    intros [F|F]; [congruence | apply IH in H; contradiction].
  - destruct (str_eqb k' k) eqn:E.
    + apply str_eqb_eq in E. exfalso; apply H; left; exact E.
    + apply IH. intros F; apply H; right; exact F.
Qed.

Lemma akeys_aremove_notin {V} k (l : list (str * V)) : ~ In k (akeys (aremove k l)).
Proof. apply alookup_None_notin. apply alookup_aremove_same. Qed.

Lemma aremove_length {V} k (l : list (str * V)) : (length (aremove k l) <= length l)%nat.
Proof.
  induction l as [|[k' v] r IH]; simpl; [lia|]. destruct (str_eqb k' k); simpl; lia.
Qed.

Lemma aremove_notin_id {V} k (l : list (str * V)) : ~ In k (akeys l) -> aremove k l = l.
Proof.
  induction l as [|[k' v] r IH]; simpl; intros H; [reflexivity|].
  destruct (str_eqb k' k) eqn:E.
  - apply str_eqb_eq in E. exfalso; apply H; left; exact E.
  - f_equal. apply IH. intros F; apply H; right; exact F.
Qed.

Lemma In_akeys_aremove {V} k k2 (l : list (str * V)) :
  In k2 (akeys (aremove k l)) -> In k2 (akeys l) /\ k2 <> k.
Proof.
  induction l as [|[k' v] r IH]; simpl; intros H; [contradiction|].
  destruct (str_eqb k' k) eqn:E.
  - destruct (IH H) as [A B]; split; [right; exact A | exact B].
  - simpl in H. destruct H as [H|H].
    + subst k2. split; [left; reflexivity|]. apply str_eqb_neq in E. exact E.
    + destruct (IH H) as [A B]; split; [right; exact A | exact B].
Qed.

Lemma NoDup_akeys_aremove {V} k (l : list (str * V)) : NoDup (akeys l) -> NoDup (akeys (aremove k l)).
Proof.
  induction l as [|[k' v] r IH]; simpl; intros H; [constructor|].
  inversion H as [|x xs Hn Hd]; subst.
  destruct (str_eqb k' k); [apply IH; exact Hd|].
  simpl. constructor; [|apply IH; exact Hd].
  intros F. apply In_akeys_aremove in F as [F _]. contradiction.
Qed.

Lemma aremove_length_in {V} k (l : list (str * V)) :
  NoDup (akeys l) -> In k (akeys l) -> S (length (aremove k l)) = length l.
Proof.
  induction l as [|[k' v] r IH]; simpl; intros Hd Hi; [contradiction|].
  inversion Hd as [|x xs Hn Hd']; subst.
  destruct (str_eqb k' k) eqn:E.
  - apply str_eqb_eq in E; subst k'. rewrite aremove_notin_id by exact Hn. reflexivity.
  - simpl. f_equal. apply IH; [exact Hd'|]. destruct Hi as [Hi|Hi]; [|exact Hi].
    apply str_eqb_neq in E. contradiction.
Qed.

(* ---------- Python's str.strip() / str.isspace(): the 29 whitespace code points of CPython 3.12 ---------- *)
Definition py_space (c : Z) : bool :=
  ((9 <=? c) && (c <=? 13)) || ((28 <=? c) && (c <=? 32)) || (c =? 133) || (c =? 160) || (c =? 5760)
  || ((8192 <=? c) && (c <=? 8202)) || (c =? 8232) || (c =? 8233) || (c =? 8239) || (c =? 8287) || (c =? 12288).
Fixpoint dropws (s : str) : str :=
  match s with
  | [] => []
  | c :: r => if py_space c then dropws r else s
  end.
Definition py_strip (s : str) : str := rev (dropws (rev (dropws s))).

Lemma dropws_nil_iff s : dropws s = [] <-> forallb py_space s = true.
Proof.
  induction s as [|c r IH]; simpl; [tauto|].
  destruct (py_space c); simpl; [exact IH|]. split; discriminate.
Qed.
Lemma forallb_rev {A} (f : A -> bool) l : forallb f (rev l) = forallb f l.
Proof.
  induction l as [|x r IH]; simpl; [reflexivity|].
  rewrite forallb_app, IH. simpl. rewrite andb_true_r. apply andb_comm.
Qed.
Lemma dropws_suffix s : exists p, s = p ++ dropws s /\ forallb py_space p = true.
Proof.
  induction s as [|c r IH]; simpl; [exists []; split; reflexivity|].
  destruct (py_space c) eqn:E.
  - destruct IH as (p & Hp & Hs). exists (c :: p). simpl. rewrite E, Hs. split; [f_equal; exact Hp|reflexivity].
  - exists []. split; reflexivity.
Qed.
(* len(s.strip()) == 0 exactly when every character of s is whitespace *)
Lemma py_strip_empty s : (Z.of_nat (length (py_strip s)) =? 0) = forallb py_space s.
Proof.
  unfold py_strip. rewrite rev_length.
  destruct (forallb py_space s) eqn:E.
  - apply dropws_nil_iff in E. rewrite E. reflexivity.
  - apply Z.eqb_neq. intros H.
    assert (dropws (rev (dropws s)) = []) as D by (destruct (dropws (rev (dropws s))); [reflexivity|simpl in H; lia]).
    apply dropws_nil_iff in D. rewrite forallb_rev in D.
    destruct (dropws_suffix s) as (p & Hp & Hs).
    rewrite Hp, forallb_app, Hs, D in E. discriminate.
Qed.
