(* TieSelect.v -- SnapshotActionContext.should_collect_vars as it is in /repo/src NOW (gen/PSelect.v, translated on every run)
   is Frames.collects on the frame_type text of the action's config: no_frame selects nothing, all_frame everything, any
   other text - and no text - the paused frame only. *)
From Deep Require Import Base Config TriggerTable Frames PureSupport.
From DeepGen Require Import PSelect.
From Coq Require Import Lia.
Local Open Scope Z_scope.

Lemma tie_should_collect_vars (cfg : args) (i : nat) :
  gen_should_collect_vars cfg (Z.of_nat i) = collects (frame_type_of_text (alookup s_frame_type cfg)) i.
Proof.
  unfold gen_should_collect_vars, get_or, frame_type_of_text. change [102; 114; 97; 109; 101; 95; 116; 121; 112; 101] with s_frame_type.
  assert (E : (Z.of_nat i =? 0) = Nat.eqb i 0).
  { destruct i; [reflexivity|]. cbn [Nat.eqb]. apply Z.eqb_neq. lia. }
  destruct (alookup s_frame_type cfg) as [t|].
  - change [110; 111; 95; 102; 114; 97; 109; 101] with s_no_frame. change [97; 108; 108; 95; 102; 114; 97; 109; 101] with s_all_frame.
    destruct (str_eqb t s_no_frame); [reflexivity|]. destruct (str_eqb t s_all_frame); [reflexivity|]. exact E.
  - cbn. exact E.
Qed.

(* which frames of a stack of n frames carry variables, as the translated code decides it frame by frame *)
Lemma code_selection (cfg : args) (n : nat) : forall i,
  map (fun k => gen_should_collect_vars cfg (Z.of_nat k)) (seq i n) =
  collect_flags_from (frame_type_of_text (alookup s_frame_type cfg)) i n.
Proof.
  induction n as [|n IH]; intros i; [reflexivity|]. cbn [seq map collect_flags_from]. rewrite tie_should_collect_vars, IH. reflexivity.
Qed.
