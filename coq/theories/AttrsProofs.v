(* AttrsProofs.v -- invariants of the bounded attribute store and laws of resource merging. *)
From Deep Require Import Base Attrs.

(* ---------- well-formed cleaned values ---------- *)
Definition wf_cprim (limit : option nat) (c : cprim) : Prop :=
  match c, limit with CStr s, Some n => (length s <= n)%nat | _, _ => True end.
Definition homog (l : list (option cprim)) : Prop :=
  forall a b, In (Some a) l -> In (Some b) l -> tag_of a = tag_of b.
Definition wf_cval (limit : option nat) (c : cval) : Prop :=
  match c with
  | CP p => wf_cprim limit p
  | CSeq l => homog l /\ (forall a, In (Some a) l -> wf_cprim limit a)
  end.

Lemma clean_prim_wf limit p c : clean_prim limit p = Some c -> wf_cprim limit c.
Proof.
  destruct p as [b|s|z|f|[s|]]; simpl; intros H; inversion H; subst; simpl; try exact I;
    destruct limit as [n|]; simpl; try exact I; rewrite firstn_length; lia.
Qed.

Lemma ctag_eqb_eq a b : ctag_eqb a b = true <-> a = b.
Proof. destruct a, b; simpl; split; intros H; try discriminate; reflexivity. Qed.

Lemma homog_cons_none r : homog r -> homog (None :: r).
Proof. intros Hm a b [Ea|Ia] [Eb|Ib]; try discriminate. apply Hm; assumption. Qed.

Lemma homog_cons_some c r :
  homog r -> (forall a, In (Some a) r -> tag_of a = tag_of c) -> homog (Some c :: r).
Proof.
  intros Hm F a b [Ea|Ia] [Eb|Ib].
  - inversion Ea; inversion Eb; subst; reflexivity.
  - inversion Ea; subst. rewrite (F _ Ib). reflexivity.
  - inversion Eb; subst. apply F; exact Ia.
  - apply Hm; assumption.
Qed.

Lemma clean_seq_spec limit l : forall first r,
  clean_seq limit first l = Some r ->
  (forall a, In (Some a) r -> wf_cprim limit a) /\
  (forall t a, first = Some t -> In (Some a) r -> tag_of a = t) /\
  homog r /\ length r = length l.
Proof.
  induction l as [|e l IH]; intros first r H; simpl in H.
  - inversion H; subst. repeat split; try (intros; simpl in *; contradiction). intros a b [].
  - destruct e as [p| |]; [| |discriminate].
    + destruct (clean_prim limit p) as [c|] eqn:C.
      * assert (exists t, (first = Some t \/ first = None) /\ t = tag_of c /\
                          exists r', clean_seq limit (Some t) l = Some r' /\ r = Some c :: r')
          as (t & Hf & Ht & r' & R & ->).
        { destruct first as [t|].
          - destruct (ctag_eqb t (tag_of c)) eqn:T; [|discriminate]. apply ctag_eqb_eq in T.
            destruct (clean_seq limit (Some t) l) as [r'|] eqn:R; [|discriminate].
            subst t. inversion H; subst. exists (tag_of c). eauto 8.
          - destruct (clean_seq limit (Some (tag_of c)) l) as [r'|] eqn:R; [|discriminate].
            inversion H; subst. exists (tag_of c). eauto 8. }
        destruct (IH _ _ R) as (W & F & Hm & L). subst t.
        repeat split.
        -- intros a [E|I]; [inversion E; subst; eapply clean_prim_wf; eauto | auto].
        -- intros t0 a E [E2|I].
           ++ inversion E2; subst. destruct Hf as [Hf|Hf]; congruence.
           ++ destruct Hf as [Hf|Hf]; [|congruence]. rewrite (F _ _ eq_refl I). congruence.
        -- apply homog_cons_some; [exact Hm|]. intros a I. apply (F _ _ eq_refl I).
        -- simpl; f_equal; exact L.
      * destruct (clean_seq limit first l) as [r'|] eqn:R; [|discriminate].
        inversion H; subst r. destruct (IH _ _ R) as (W & F & Hm & L).
        repeat split.
        -- intros a [E|I]; [discriminate | auto].
        -- intros t a E [E2|I]; [discriminate | eauto].
        -- apply homog_cons_none; exact Hm.
        -- simpl; f_equal; exact L.
    + destruct (clean_seq limit first l) as [r'|] eqn:R; [|discriminate].
      inversion H; subst r. destruct (IH _ _ R) as (W & F & Hm & L).
      repeat split.
      * intros a [E|I]; [discriminate | auto].
      * intros t a E [E2|I]; [discriminate | eauto].
      * apply homog_cons_none; exact Hm.
      * simpl; f_equal; exact L.
Qed.

Theorem clean_wf limit k v c : clean limit k v = Some c -> wf_cval limit c.
Proof.
  unfold clean. destruct (key_ok k); [|discriminate].
  destruct v as [p|l|]; simpl; [| |discriminate].
  - destruct (clean_prim limit p) eqn:C; simpl; intros H; inversion H; subst. eapply clean_prim_wf; eauto.
  - destruct (clean_seq limit None l) eqn:C; simpl; intros H; inversion H; subst.
    destruct (clean_seq_spec _ _ _ _ C) as (W & _ & Hm & _). split; assumption.
Qed.

Theorem clean_rejects_bad_key limit v : clean limit KBad v = None /\ clean limit (KStr []) v = None.
Proof. split; reflexivity. Qed.

(* ---------- store invariant ---------- *)
Definition Inv (s : store) : Prop :=
  (forall c, cap s = Some c -> (length (items s) <= c)%nat) /\
  NoDup (akeys (items s)) /\
  (forall k c, In (k, c) (items s) -> k <> [] /\ wf_cval (vlimit s) c).

Lemma inb_false_notin k (it : list (str * cval)) : inb k it = false <-> ~ In k (akeys it).
Proof.
  unfold inb. rewrite <- alookup_None_notin. destruct (alookup k it); split; intros H; congruence.
Qed.
Lemma inb_true_in k (it : list (str * cval)) : inb k it = true <-> In k (akeys it).
Proof.
  split; intros H.
  - destruct (in_dec (list_eq_dec Z.eq_dec) k (akeys it)) as [I|N]; [exact I|].
    apply inb_false_notin in N. congruence.
  - destruct (inb k it) eqn:E; [reflexivity|]. apply inb_false_notin in E. contradiction.
Qed.

Lemma akeys_app {V} (a b : list (str * V)) : akeys (a ++ b) = akeys a ++ akeys b.
Proof. unfold akeys. apply map_app. Qed.

Lemma In_aremove {V} k k2 (c : V) l : In (k2, c) (aremove k l) -> In (k2, c) l.
Proof.
  induction l as [|[k' v] r IH]; simpl; [auto|].
  destruct (str_eqb k' k); simpl; intros H; [right; auto|]. destruct H; [left; auto | right; auto].
Qed.

Lemma key_ok_some k ks : key_ok k = Some ks -> k = KStr ks /\ ks <> [].
Proof. destruct k as [[|x s]|]; simpl; intros H; inversion H; subst. split; [reflexivity | discriminate]. Qed.

Lemma is_cap_true c n : is_cap c n = true <-> c = Some n.
Proof.
  destruct c as [m|]; simpl; split; intros H; try discriminate.
  - apply Nat.eqb_eq in H. congruence.
  - inversion H. apply Nat.eqb_refl.
Qed.
Lemma is_cap_false c n : is_cap c n = false <-> c <> Some n.
Proof.
  split; intros H.
  - intros E. apply is_cap_true in E. congruence.
  - destruct (is_cap c n) eqn:E; [apply is_cap_true in E; contradiction | reflexivity].
Qed.

Lemma NoDup_snoc (l : list str) k : NoDup l -> ~ In k l -> NoDup (l ++ [k]).
Proof.
  intros Hd Hn. induction l as [|x l IH]; simpl; [constructor; [intros []|constructor]|].
  inversion Hd as [|y ys Hx Hd']; subst. constructor.
  - intros F. apply in_app_or in F as [F|[F|[]]]; [contradiction|]. subst. apply Hn; left; reflexivity.
  - apply IH; [exact Hd'|]. intros F; apply Hn; right; exact F.
Qed.

Lemma NoDup_tl {A} (l : list A) : NoDup l -> NoDup (tl l).
Proof. destruct l; simpl; intros H; [exact H|]. inversion H; assumption. Qed.

Lemma In_tl {A} (x : A) l : In x (tl l) -> In x l.
Proof. destruct l; simpl; auto. Qed.

Lemma akeys_tl {V} (l : list (str * V)) : akeys (tl l) = tl (akeys l).
Proof. destruct l; reflexivity. Qed.

Lemma set_item_inv s k v : Inv s -> Inv (fst (set_item s k v)).
Proof.
  intros HI. pose proof HI as (Hc & Hd & Hw). unfold set_item.
  destruct (immutable s); [exact HI|].
  destruct (is_cap (cap s) 0) eqn:C0; [exact HI|].
  destruct (key_ok k) as [ks|] eqn:K; [|exact HI].
  destruct (clean (vlimit s) k v) as [cv|] eqn:Cl; [|exact HI].
  apply key_ok_some in K as [-> Kne].
  assert (Wc : wf_cval (vlimit s) cv) by (eapply clean_wf; eauto).
  destruct (inb ks (items s)) eqn:I; simpl.
  - apply inb_true_in in I. unfold Inv; simpl; split; [|split].
    + intros n E. rewrite app_length; simpl.
      pose proof (aremove_length_in ks (items s) Hd I). specialize (Hc n E). lia.
    + rewrite akeys_app; simpl. apply NoDup_snoc; [apply NoDup_akeys_aremove; exact Hd|].
      apply akeys_aremove_notin.
    + intros k0 c0 H. apply in_app_or in H as [H|[H|[]]].
      * apply In_aremove in H. eauto.
      * inversion H; subst. split; assumption.
  - apply inb_false_notin in I.
    destruct (is_cap (cap s) (length (items s))) eqn:Cf; simpl.
    + apply is_cap_true in Cf. unfold Inv; simpl; split; [|split].
      * intros n E. rewrite app_length; simpl. rewrite Cf in E; inversion E; subst n.
        destruct (items s) as [|x r] eqn:It; simpl in *.
        -- apply is_cap_false in C0. congruence.
        -- lia.
      * rewrite akeys_app; simpl. rewrite akeys_tl. apply NoDup_snoc; [apply NoDup_tl; exact Hd|].
        intros F. apply In_tl in F. contradiction.
      * intros k0 c0 H. apply in_app_or in H as [H|[H|[]]].
        -- apply In_tl in H. eauto.
        -- inversion H; subst. split; assumption.
    + apply is_cap_false in Cf. unfold Inv; simpl; split; [|split].
      * intros n E. rewrite app_length; simpl. specialize (Hc n E).
        assert (length (items s) <> n) by congruence. lia.
      * rewrite akeys_app; simpl. apply NoDup_snoc; assumption.
      * intros k0 c0 H. apply in_app_or in H as [H|[H|[]]]; [eauto|].
        inversion H; subst. split; assumption.
Qed.

Lemma del_item_inv s k : Inv s -> Inv (fst (del_item s k)).
Proof.
  intros HI. pose proof HI as (Hc & Hd & Hw). unfold del_item.
  destruct (immutable s); [exact HI|].
  destruct (inb k (items s)) eqn:I; [|exact HI].
  unfold Inv; simpl; split; [|split].
  - intros n E. specialize (Hc n E). pose proof (aremove_length k (items s)). lia.
  - apply NoDup_akeys_aremove; exact Hd.
  - intros k0 c0 H. apply In_aremove in H. eauto.
Qed.

Lemma merge_in_inv l : forall s, Inv s -> Inv (fst (merge_in s l)).
Proof.
  induction l as [|[k v] r IH]; intros s H; simpl; [exact H|].
  pose proof (set_item_inv s k v H) as H1.
  destruct (set_item s k v) as [s' o]; simpl in H1. destruct o; auto.
Qed.

Lemma step_inv s o : Inv s -> Inv (fst (step s o)).
Proof. destruct o; simpl; [apply set_item_inv | apply del_item_inv | apply merge_in_inv]. Qed.

Theorem run_inv ops : forall s, Inv s -> Inv (fst (run s ops)).
Proof.
  induction ops as [|o r IH]; intros s H; simpl; [exact H|].
  pose proof (step_inv s o H) as H1. destruct (step s o) as [s1 out]; simpl in H1.
  specialize (IH s1 H1). destruct (run s1 r) as [s2 outs]; simpl in *. exact IH.
Qed.

Theorem make_inv c vl attrs imm : Inv (make c vl attrs imm).
Proof.
  unfold make.
  set (s0 := {| cap := c; vlimit := vl; items := []; dropped := 0; immutable := false |}).
  assert (H0 : Inv s0) by (repeat split; simpl; try constructor; intros; try lia; contradiction).
  pose proof (merge_in_inv attrs s0 H0) as (Hc & Hd & Hw).
  assert (Ec : cap (fst (merge_in s0 attrs)) = c /\ vlimit (fst (merge_in s0 attrs)) = vl).
  { clear. assert (G : forall l s, cap (fst (merge_in s l)) = cap s /\ vlimit (fst (merge_in s l)) = vlimit s).
    { induction l as [|[k v] r IH]; intros s; simpl; [auto|].
      assert (S1 : cap (fst (set_item s k v)) = cap s /\ vlimit (fst (set_item s k v)) = vlimit s).
      { unfold set_item. destruct (immutable s); [auto|]. destruct (is_cap (cap s) 0); [auto|].
        destruct (key_ok k); [|auto]. destruct (clean (vlimit s) k v); [|auto].
        destruct (inb _ _); [auto|]. destruct (is_cap _ _); auto. }
      destruct (set_item s k v) as [s' o]; simpl in S1. destruct o; simpl; try exact S1.
      destruct (IH s') as [A B]. destruct S1 as [C D]. split; congruence. }
    apply (G attrs s0). }
  destruct Ec as [Ec Ev]. unfold Inv; simpl; split; [|split].
  - intros n E. apply Hc. congruence.
  - exact Hd.
  - intros k0 c0 H. rewrite <- Ev. apply Hw. exact H.
Qed.

(* capacity, distinct keys, cleaned values: every state reachable from any constructor call
   by any operation sequence *)
Theorem reachable_inv c vl attrs imm ops : Inv (fst (run (make c vl attrs imm) ops)).
Proof. apply run_inv. apply make_inv. Qed.

(* ---------- FIFO eviction, re-set moves to the end, drop counting (step laws) ---------- *)
Theorem set_item_law s k v :
  immutable s = false ->
  let s' := fst (set_item s k v) in
  match cap s, key_ok k, clean (vlimit s) k v with
  | Some O, _, _ => items s' = items s /\ dropped s' = S (dropped s)
  | _, Some ks, Some c =>
      if inb ks (items s)
      then items s' = aremove ks (items s) ++ [(ks, c)] /\ dropped s' = dropped s
      else if is_cap (cap s) (length (items s))
           then items s' = tl (items s) ++ [(ks, c)] /\ dropped s' = S (dropped s)
           else items s' = items s ++ [(ks, c)] /\ dropped s' = dropped s
  | _, _, _ => s' = s
  end.
Proof.
  intros Him. unfold set_item. rewrite Him.
  destruct (cap s) as [[|n]|] eqn:C.
  - replace (is_cap (Some 0%nat) 0) with true by reflexivity. cbn [fst]. split; reflexivity.
  - replace (is_cap (Some (S n)) 0) with false by reflexivity. cbn [fst].
    destruct (key_ok k) as [ks|]; [|reflexivity]. destruct (clean (vlimit s) k v); [|reflexivity].
    destruct (inb ks (items s)); [split; reflexivity|].
    destruct (is_cap (Some (S n)) (length (items s))); split; reflexivity.
  - replace (is_cap None 0) with false by reflexivity. cbn [fst].
    destruct (key_ok k) as [ks|]; [|reflexivity]. destruct (clean (vlimit s) k v); [|reflexivity].
    destruct (inb ks (items s)); [split; reflexivity|].
    replace (is_cap None (length (items s))) with false by reflexivity. split; reflexivity.
Qed.

(* conservation: a set on a mutable store changes |items| + dropped by exactly one when it
   brings a new valid key (or is counted as a drop at capacity 0), and not at all otherwise *)
Theorem set_item_conservation s k v :
  Inv s -> immutable s = false ->
  let s' := fst (set_item s k v) in
  (length (items s') + dropped s' =
   length (items s) + dropped s +
   match cap s, key_ok k, clean (vlimit s) k v with
   | Some O, _, _ => 1
   | _, Some ks, Some _ => if inb ks (items s) then 0 else 1
   | _, _, _ => 0
   end)%nat.
Proof.
  intros (Hc & Hd & Hw) Him. pose proof (set_item_law s k v Him) as L. simpl in L. simpl.
  destruct (cap s) as [[|n]|] eqn:C.
  - destruct L as [-> ->]. lia.
  - destruct (key_ok k) as [ks|]; [|rewrite L; lia]. destruct (clean (vlimit s) k v); [|rewrite L; lia].
    destruct (inb ks (items s)) eqn:I.
    + destruct L as [-> ->]. rewrite app_length; simpl. apply inb_true_in in I.
      pose proof (aremove_length_in ks (items s) Hd I). lia.
    + destruct (is_cap (Some (S n)) (length (items s))) eqn:Cf; destruct L as [-> ->];
        rewrite app_length; simpl; [|lia].
      apply is_cap_true in Cf. inversion Cf as [E]. destruct (items s); simpl in *; [discriminate | lia].
  - destruct (key_ok k) as [ks|]; [|rewrite L; lia]. destruct (clean (vlimit s) k v); [|rewrite L; lia].
    destruct (inb ks (items s)) eqn:I.
    + destruct L as [-> ->]. rewrite app_length; simpl. apply inb_true_in in I.
      pose proof (aremove_length_in ks (items s) Hd I). lia.
    + simpl in L. destruct L as [-> ->]. rewrite app_length; simpl. lia.
Qed.

(* an invalid key or value never disturbs the stored state *)
Theorem set_item_invalid_noop s k v :
  cap s <> Some O -> (key_ok k = None \/ clean (vlimit s) k v = None) -> fst (set_item s k v) = s.
Proof.
  intros C H. unfold set_item. destruct (immutable s); [reflexivity|].
  apply is_cap_false in C. rewrite C.
  destruct H as [H|H].
  - rewrite H. reflexivity.
  - rewrite H. destruct (key_ok k); reflexivity.
Qed.

(* ---------- frozen stores ---------- *)
Theorem frozen_set s k v : immutable s = true -> set_item s k v = (s, RTypeError).
Proof. intros H. unfold set_item. rewrite H. reflexivity. Qed.
Theorem frozen_del s k : immutable s = true -> del_item s k = (s, RTypeError).
Proof. intros H. unfold del_item. rewrite H. reflexivity. Qed.
Theorem frozen_step s o : immutable s = true -> fst (step s o) = s.
Proof.
  intros H. destruct o as [k v|k|l]; simpl.
  - rewrite frozen_set by exact H. reflexivity.
  - rewrite frozen_del by exact H. reflexivity.
  - destruct l as [|[k v] r]; simpl; [reflexivity|]. rewrite frozen_set by exact H. reflexivity.
Qed.
Theorem frozen_run ops : forall s, immutable s = true -> fst (run s ops) = s.
Proof.
  induction ops as [|o r IH]; intros s H; simpl; [reflexivity|].
  pose proof (frozen_step s o H) as E. destruct (step s o) as [s1 out]; simpl in E; subst s1.
  specialize (IH s H). destruct (run s r) as [s2 outs]; simpl in *. exact IH.
Qed.

(* ---------- resources ---------- *)
Definition wf_attrs (a : list (str * cval)) : Prop :=
  NoDup (akeys a) /\ forall k c, In (k, c) a -> k <> [] /\ wf_cval None c.

Lemma mk_resource_wf attrs schema : wf_attrs (r_attrs (mk_resource attrs schema)).
Proof. unfold mk_resource; simpl. destruct (make_inv None None attrs true) as (_ & Hd & Hw). split; assumption. Qed.

Lemma clean_prim_inj c : clean_prim None (inj_prim c) = Some c.
Proof. destruct c; reflexivity. Qed.

Lemma clean_seq_inj l : forall first,
  (forall t a, first = Some t -> In (Some a) l -> tag_of a = t) -> homog l ->
  clean_seq None first (map inj_elem l) = Some l.
Proof.
  induction l as [|e l IH]; intros first F Hm; simpl; [reflexivity|].
  destruct e as [c|]; simpl.
  - rewrite clean_prim_inj.
    assert (Hm' : homog l) by (intros a b Ia Ib; apply Hm; right; assumption).
    assert (F' : forall t a, Some (tag_of c) = Some t -> In (Some a) l -> tag_of a = t).
    { intros t a E I. inversion E; subst. apply Hm; [right; exact I | left; reflexivity]. }
    destruct first as [t|].
    + assert (Et : tag_of c = t) by (apply (F t c eq_refl); left; reflexivity). subst t.
      replace (ctag_eqb (tag_of c) (tag_of c)) with true by (symmetry; apply ctag_eqb_eq; reflexivity).
      rewrite IH; [reflexivity|exact F'|exact Hm'].
    + rewrite IH; [reflexivity|exact F'|exact Hm'].
  - rewrite IH; [reflexivity| |].
    + intros t a E I. apply (F t a E). right; exact I.
    + intros a b Ia Ib; apply Hm; right; assumption.
Qed.

(* re-cleaning an already cleaned value (what Resource(...) does on merge) is the identity *)
Lemma clean_inj k c : k <> [] -> wf_cval None c -> clean None (KStr k) (inj c) = Some c.
Proof.
  intros Kne W. unfold clean. destruct k as [|x k]; [congruence|]. simpl.
  destruct c as [p|l]; simpl.
  - rewrite clean_prim_inj. reflexivity.
  - destruct W as [Hm _]. rewrite clean_seq_inj; [reflexivity| |exact Hm]. intros t a E; discriminate.
Qed.

Lemma merge_in_fresh l : forall s,
  immutable s = false -> cap s = None -> vlimit s = None ->
  NoDup (akeys l) -> (forall k c, In (k, c) l -> k <> [] /\ wf_cval None c) ->
  (forall k, In k (akeys l) -> ~ In k (akeys (items s))) ->
  items (fst (merge_in s (as_input l))) = items s ++ l.
Proof.
  induction l as [|[k c] r IH]; intros s Him Hc Hv Hd Hw Hf; simpl; [rewrite app_nil_r; reflexivity|].
  inversion Hd as [|x xs Hn Hd']; subst.
  destruct (Hw k c (or_introl eq_refl)) as [Kne Wc].
  unfold set_item at 1. rewrite Him, Hc, Hv. simpl.
  destruct k as [|x k]; [congruence|]. simpl key_ok. cbv iota.
  rewrite (clean_inj (x :: k) c Kne Wc).
  assert (I : inb (x :: k) (items s) = false) by (apply inb_false_notin; apply Hf; left; reflexivity).
  rewrite I.
  rewrite IH; simpl; auto.
  - rewrite <- app_assoc. reflexivity.
  - intros k0 c0 H. apply Hw. right; exact H.
  - intros k0 H F. rewrite akeys_app in F. apply in_app_or in F as [F|[F|[]]].
    + apply (Hf k0); [right; exact H | exact F].
    + subst k0. contradiction.
Qed.

Lemma mk_resource_id a schema : wf_attrs a -> r_attrs (mk_resource (as_input a) schema) = a.
Proof.
  intros [Hd Hw]. unfold mk_resource, make; simpl.
  rewrite merge_in_fresh; simpl; auto.
Qed.

Lemma aupdate_lookup a k v k2 :
  alookup k2 (aupdate a k v) = if str_eqb k k2 then Some v else alookup k2 a.
Proof.
  induction a as [|[k' v'] r IH]; simpl.
  - reflexivity.
  - destruct (str_eqb k' k) eqn:E; simpl.
    + apply str_eqb_eq in E; subst k'. destruct (str_eqb k k2); reflexivity.
    + rewrite IH. destruct (str_eqb k' k2) eqn:E2; [|reflexivity].
      apply str_eqb_eq in E2; subst k'. destruct (str_eqb k k2) eqn:E3; [|reflexivity].
      apply str_eqb_eq in E3; subst k2. rewrite str_eqb_refl in E. discriminate.
Qed.

Lemma aupdate_keys a k v : akeys (aupdate a k v) = if inb k a then akeys a else akeys a ++ [k].
Proof.
  unfold inb. induction a as [|[k' v'] r IH]; simpl; [reflexivity|].
  destruct (str_eqb k' k) eqn:E; simpl; [reflexivity|]. rewrite IH.
  destruct (alookup k r); reflexivity.
Qed.

Lemma aupdate_In a k v k2 c : In (k2, c) (aupdate a k v) -> In (k2, c) a \/ (k2 = k /\ c = v).
Proof.
  induction a as [|[k' v'] r IH]; simpl.
  - intros [H|[]]; inversion H; auto.
  - destruct (str_eqb k' k) eqn:E; simpl; intros [H|H]; auto.
    + apply str_eqb_eq in E. inversion H; subst. auto.
    + destruct (IH H); auto.
Qed.

Lemma aupdate_wf a k v : wf_attrs a -> k <> [] -> wf_cval None v -> wf_attrs (aupdate a k v).
Proof.
  intros [Hd Hw] Kne Wv. split.
  - rewrite aupdate_keys. destruct (inb k a) eqn:I; [exact Hd|]. apply NoDup_snoc; [exact Hd|].
    apply inb_false_notin; exact I.
  - intros k2 c H. apply aupdate_In in H as [H|[-> ->]]; [eauto | split; assumption].
Qed.

Lemma dict_update_lookup b : forall a k,
  NoDup (akeys b) ->
  alookup k (dict_update a b) = match alookup k b with Some v => Some v | None => alookup k a end.
Proof.
  unfold dict_update. induction b as [|[k' v'] r IH]; intros a k Hd; simpl; [reflexivity|].
  inversion Hd as [|x xs Hn Hd']; subst. rewrite IH by exact Hd'. rewrite aupdate_lookup.
  destruct (str_eqb k' k) eqn:E.
  - apply str_eqb_eq in E; subst k'. apply alookup_None_notin in Hn. rewrite Hn. reflexivity.
  - reflexivity.
Qed.

Lemma dict_update_wf b : forall a, wf_attrs a -> wf_attrs b -> wf_attrs (dict_update a b).
Proof.
  unfold dict_update. induction b as [|[k v] r IH]; intros a Ha [Hd Hw]; simpl; [exact Ha|].
  inversion Hd; subst. destruct (Hw k v (or_introl eq_refl)).
  apply IH; [apply aupdate_wf; assumption|]. split; [assumption|]. intros; apply Hw; right; assumption.
Qed.

Lemma dict_update_keeps_keys b : forall a k, In k (akeys a) -> In k (akeys (dict_update a b)).
Proof.
  unfold dict_update. induction b as [|[k' v] r IH]; intros a k H; simpl; [exact H|].
  apply IH. rewrite aupdate_keys. destruct (inb k' a); [exact H | apply in_or_app; left; exact H].
Qed.

Definition compatible (a b : resource) : Prop :=
  r_schema a = [] \/ r_schema b = [] \/ r_schema a = r_schema b.

Definition wf_res (r : resource) : Prop := wf_attrs (r_attrs r).

Lemma merge_attrs a b : wf_res a -> wf_res b -> compatible a b ->
  r_attrs (merge a b) = dict_update (r_attrs a) (r_attrs b).
Proof.
  intros Ha Hb Hc. unfold merge.
  pose proof (dict_update_wf _ _ Ha Hb) as W.
  destruct (is_empty (r_schema a)) eqn:Ea; [apply mk_resource_id; exact W|].
  destruct (is_empty (r_schema b)) eqn:Eb; [apply mk_resource_id; exact W|].
  destruct (str_eqb (r_schema a) (r_schema b)) eqn:Es; [apply mk_resource_id; exact W|].
  exfalso. destruct Hc as [H|[H|H]].
  - rewrite H in Ea. discriminate.
  - rewrite H in Eb. discriminate.
  - apply str_eqb_neq in Es. contradiction.
Qed.

Lemma merge_wf a b : wf_res a -> wf_res b -> wf_res (merge a b).
Proof.
  intros Ha Hb. unfold merge.
  destruct (is_empty (r_schema a)); [apply mk_resource_wf|].
  destruct (is_empty (r_schema b)); [apply mk_resource_wf|].
  destruct (str_eqb (r_schema a) (r_schema b)); [apply mk_resource_wf | exact Ha].
Qed.

(* later source wins key by key *)
Theorem merge_lookup a b k : wf_res a -> wf_res b -> compatible a b ->
  alookup k (r_attrs (merge a b)) =
  match alookup k (r_attrs b) with Some v => Some v | None => alookup k (r_attrs a) end.
Proof.
  intros Ha Hb Hc. rewrite merge_attrs by assumption. apply dict_update_lookup. apply Hb.
Qed.

(* incompatible schemas: the old resource is returned unchanged *)
Theorem merge_incompatible a b : ~ compatible a b -> merge a b = a.
Proof.
  intros N. unfold merge.
  destruct (r_schema a) as [|x sa] eqn:Ea; [exfalso; apply N; left; exact Ea|].
  destruct (r_schema b) as [|y sb] eqn:Eb; [exfalso; apply N; right; left; exact Eb|].
  simpl. destruct (Z.eqb x y && str_eqb sa sb) eqn:E; [|reflexivity].
  exfalso. apply N. right; right. change (str_eqb (x :: sa) (y :: sb) = true) in E.
  apply str_eqb_eq in E. congruence.
Qed.

Theorem merge_schema a b : wf_res a -> wf_res b -> compatible a b ->
  r_schema (merge a b) = if is_empty (r_schema a) then r_schema b else r_schema a.
Proof.
  intros _ _ Hc. unfold merge.
  destruct (is_empty (r_schema a)) eqn:Ea; [reflexivity|].
  destruct (is_empty (r_schema b)) eqn:Eb; [reflexivity|].
  destruct (str_eqb (r_schema a) (r_schema b)) eqn:Es; [apply str_eqb_eq in Es; simpl; congruence | reflexivity].
Qed.

(* a key once present stays present through every later merge (compatible or not) *)
Theorem merge_keeps_keys a b k : wf_res a -> wf_res b ->
  In k (akeys (r_attrs a)) -> In k (akeys (r_attrs (merge a b))).
Proof.
  intros Ha Hb H.
  assert (D : compatible a b \/ ~ compatible a b).
  { unfold compatible. destruct (r_schema a) as [|x sa]; [auto|]. destruct (r_schema b) as [|y sb]; [auto|].
    destruct (list_eq_dec Z.eq_dec (x :: sa) (y :: sb)) as [E|N]; [auto|].
    right. intros [F|[F|F]]; try discriminate. contradiction. }
  destruct D as [Hc|N].
  - rewrite merge_attrs by assumption. apply dict_update_keeps_keys. exact H.
  - rewrite merge_incompatible by exact N. exact H.
Qed.

Theorem merge_all_keeps_keys l : forall base k, wf_res base -> Forall wf_res l ->
  In k (akeys (r_attrs base)) -> In k (akeys (r_attrs (merge_all base l))).
Proof.
  unfold merge_all. induction l as [|r l IH]; intros base k Hb Hl H; simpl; [exact H|].
  inversion Hl; subst. apply IH; [apply merge_wf; assumption | assumption | apply merge_keeps_keys; assumption].
Qed.

(* chain of sources with empty schemas (the agent's own chain: defaults, environment, code,
   plugins all use the empty schema unless the user passes one): each key has the value of
   the LAST source that holds it *)
Fixpoint last_holding (k : str) (l : list resource) (acc : option cval) : option cval :=
  match l with
  | [] => acc
  | r :: l' => last_holding k l' (match alookup k (r_attrs r) with Some v => Some v | None => acc end)
  end.

Theorem merge_all_chain l : forall base k, wf_res base -> Forall wf_res l ->
  r_schema base = [] -> Forall (fun r => r_schema r = []) l ->
  alookup k (r_attrs (merge_all base l)) = last_holding k l (alookup k (r_attrs base)).
Proof.
  unfold merge_all. induction l as [|r l IH]; intros base k Hb Hl Sb Sl; simpl; [reflexivity|].
  inversion Hl; subst. inversion Sl; subst.
  assert (Hc : compatible base r) by (left; exact Sb).
  rewrite IH; try assumption.
  - rewrite merge_lookup by assumption. reflexivity.
  - apply merge_wf; assumption.
  - rewrite merge_schema by assumption. rewrite Sb. simpl. assumption.
Qed.

(* Resource.create always yields a service name and keeps every default (SDK identity) key *)
Theorem create_service_name dflt env attrs schema :
  wf_res dflt -> wf_res env -> r_schema dflt = [] -> r_schema env = [] ->
  truthy (alookup SERVICE_NAME (r_attrs (create dflt env attrs schema))) = true.
Proof.
  intros Hd He Sd Se. unfold create.
  set (r := merge (merge dflt env) (mk_resource attrs schema)).
  destruct (truthy (alookup SERVICE_NAME (r_attrs r))) eqn:T; [exact T|].
  assert (Wr : wf_res r) by (apply merge_wf; [apply merge_wf; assumption | apply mk_resource_wf]).
  assert (Sr : r_schema r = schema).
  { unfold r. rewrite merge_schema; [| apply merge_wf; assumption | apply mk_resource_wf |].
    - rewrite merge_schema by (try assumption; left; exact Sd). rewrite Sd. simpl. rewrite Se. reflexivity.
    - left. rewrite merge_schema by (try assumption; left; exact Sd). rewrite Sd. simpl. exact Se. }
  set (suffix := match alookup PROCESS_EXE (r_attrs r) with
                 | Some (CP (CStr s)) => if is_empty s then PYTHON else s | _ => PYTHON end).
  set (sn := mk_resource [(KStr SERVICE_NAME, VPrim (PStr (UNKNOWN_SERVICE ++ [58] ++ suffix)))] schema).
  assert (Hc : compatible r sn) by (right; right; rewrite Sr; reflexivity).
  rewrite merge_lookup; [|exact Wr|apply mk_resource_wf|exact Hc].
  unfold sn, mk_resource, make; simpl. reflexivity.
Qed.

Theorem create_keeps_defaults dflt env attrs schema k :
  wf_res dflt -> wf_res env ->
  In k (akeys (r_attrs dflt)) -> In k (akeys (r_attrs (create dflt env attrs schema))).
Proof.
  intros Hd He H. unfold create.
  set (r := merge (merge dflt env) (mk_resource attrs schema)).
  assert (Wr : wf_res r) by (apply merge_wf; [apply merge_wf; assumption | apply mk_resource_wf]).
  assert (Hr : In k (akeys (r_attrs r))).
  { apply merge_keeps_keys; [apply merge_wf; assumption | apply mk_resource_wf |].
    apply merge_keeps_keys; assumption. }
  destruct (truthy _); [exact Hr|]. apply merge_keeps_keys; [exact Wr | apply mk_resource_wf | exact Hr].
Qed.
