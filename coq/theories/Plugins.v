(* Plugins.v -- api/plugin/__init__.py load_plugins: the candidates that import, construct and report
   active, in declared order (stable psort by order(), None counting as 0). *)
From Deep Require Import Base.

Record cand := { cd_id : nat; cd_imports : bool; cd_constructs : bool; cd_active : bool; cd_order : Z }.
Definition usable (c : cand) : bool := cd_imports c && cd_constructs c && cd_active c.

Fixpoint insert (c : cand) (l : list cand) : list cand :=
  match l with
  | [] => [c]
  | x :: r => if cd_order c <? cd_order x then c :: l else x :: insert c r
  end.
(* stable: an element is placed AFTER the elements of equal order that precede it in the input *)
Definition psort (l : list cand) : list cand := fold_left (fun acc c => insert c acc) l [].
Definition load (cs : list cand) : list cand := psort (filter usable cs).

Record load_case := { ld_cands : list cand; ld_obs : list nat }.
Definition check_load_case (c : load_case) : bool := list_eqb Nat.eqb (map cd_id (load (ld_cands c))) (ld_obs c).
