(* ExnFlow.v -- a small language of exception flow, its big-step semantics, and verified analyses.
   The skeletons of the agent's functions (coq/gen/Skeleton.v) are REGENERATED from /repo/src by
   harness/translate/exnflow.py on every run; the theorems about them are re-checked each time.
   Every opaque step (Prim) may raise any class in its annotation: the quantifier over fault
   sequences is the nondeterminism of the semantics. *)
From Coq Require Import List Bool Arith Lia.
Import ListNotations.

Inductive ecls := EExc | EBase.          (* Exception-derived / BaseException-only (KeyboardInterrupt, SystemExit, ...) *)
(* what an 'except' clause catches *)
Inductive hcls := HExc | HBase | HSome.  (* except Exception / except BaseException or bare / a specific class (assumed to catch nothing) *)
Definition catches (h : hcls) (c : ecls) : bool :=
  match h, c with
  | HBase, _ => true
  | HExc, EExc => true
  | _, _ => false
  end.
Definition ecls_eqb (a b : ecls) : bool := match a, b with EExc, EExc | EBase, EBase => true | _, _ => false end.

Inductive stmt :=
| Skip
| Prim (id : nat) (raises : list ecls)     (* opaque step: host code, plugin, library call *)
| Seq (a b : stmt)
| If (cond : nat) (a b : stmt)
| Loop (body : stmt)
| Try (body : stmt) (handlers : list (hcls * stmt))
| Finally (body fin : stmt)
| Ret (tag : nat)
| Brk
| Cont
| Call (body : stmt).                       (* an inlined call: the callee's return ends the call, not the caller *)

Inductive outcome := ONorm | ORet (tag : nat) | OBrk | OCont | ORaise (c : ecls).

Fixpoint first_handler (hs : list (hcls * stmt)) (c : ecls) : option stmt :=
  match hs with
  | [] => None
  | (h, s) :: r => if catches h c then Some s else first_handler r c
  end.

(* big-step, nondeterministic; the trace lists the opaque steps attempted *)
Inductive exec : stmt -> list nat -> outcome -> Prop :=
| XSkip : exec Skip [] ONorm
| XPrimOk i r : exec (Prim i r) [i] ONorm
| XPrimRaise i r c : In c r -> exec (Prim i r) [i] (ORaise c)
| XSeqN a b t1 t2 o : exec a t1 ONorm -> exec b t2 o -> exec (Seq a b) (t1 ++ t2) o
| XSeqA a b t1 o : exec a t1 o -> o <> ONorm -> exec (Seq a b) t1 o
| XIfT c a b t o : exec a t o -> exec (If c a b) t o
| XIfF c a b t o : exec b t o -> exec (If c a b) t o
| XLoop0 b : exec (Loop b) [] ONorm
| XLoopN b t1 t2 o : exec b t1 ONorm -> exec (Loop b) t2 o -> exec (Loop b) (t1 ++ t2) o
| XLoopC b t1 t2 o : exec b t1 OCont -> exec (Loop b) t2 o -> exec (Loop b) (t1 ++ t2) o
| XLoopB b t1 : exec b t1 OBrk -> exec (Loop b) t1 ONorm
| XLoopRet b t1 v : exec b t1 (ORet v) -> exec (Loop b) t1 (ORet v)
| XLoopRaise b t1 c : exec b t1 (ORaise c) -> exec (Loop b) t1 (ORaise c)
| XTryN b hs t o : exec b t o -> (forall c, o <> ORaise c) -> exec (Try b hs) t o
| XTryU b hs t c : exec b t (ORaise c) -> first_handler hs c = None -> exec (Try b hs) t (ORaise c)
| XTryC b hs t1 t2 c h o : exec b t1 (ORaise c) -> first_handler hs c = Some h -> exec h t2 o -> exec (Try b hs) (t1 ++ t2) o
| XFinN b f t1 t2 o : exec b t1 o -> exec f t2 ONorm -> exec (Finally b f) (t1 ++ t2) o
| XFinA b f t1 t2 o o2 : exec b t1 o -> exec f t2 o2 -> o2 <> ONorm -> exec (Finally b f) (t1 ++ t2) o2
| XRet v : exec (Ret v) [] (ORet v)
| XBrk : exec Brk [] OBrk
| XCont : exec Cont [] OCont
| XCallN b t : exec b t ONorm -> exec (Call b) t ONorm
| XCallRet b t v : exec b t (ORet v) -> exec (Call b) t ONorm
| XCallRaise b t c : exec b t (ORaise c) -> exec (Call b) t (ORaise c).

(* ---------- may-escape analysis ---------- *)
Fixpoint uncaught (hs : list (hcls * stmt)) (c : ecls) : bool :=
  match hs with [] => true | (h, _) :: r => if catches h c then false else uncaught r c end.

Fixpoint esc (s : stmt) : list ecls :=
  match s with
  | Skip | Ret _ | Brk | Cont => []
  | Prim _ r => r
  | Seq a b | If _ a b => esc a ++ esc b
  | Loop b | Call b => esc b
  | Try b hs => filter (uncaught hs) (esc b) ++ flat_map (fun h => esc (snd h)) hs
  | Finally b f => esc b ++ esc f
  end.

Lemma first_handler_none hs c : first_handler hs c = None -> uncaught hs c = true.
Proof. induction hs as [|[h s] r IH]; simpl; [reflexivity|]. destruct (catches h c); [discriminate|exact IH]. Qed.
Lemma first_handler_some hs c h : first_handler hs c = Some h -> In h (map snd hs).
Proof.
  induction hs as [|[h' s] r IH]; simpl; [discriminate|]. destruct (catches h' c).
  - intros E; inversion E; left; reflexivity.
  - intros E; right; apply IH; exact E.
Qed.

(* the induction principle generated for [stmt] does not cover the handlers nested in a list *)
Section StmtInd.
  Variable P : stmt -> Prop.
  Hypothesis HSkip : P Skip.
  Hypothesis HPrim : forall i r, P (Prim i r).
  Hypothesis HSeq : forall a b, P a -> P b -> P (Seq a b).
  Hypothesis HIf : forall c a b, P a -> P b -> P (If c a b).
  Hypothesis HLoop : forall b, P b -> P (Loop b).
  Hypothesis HTry : forall b hs, P b -> Forall (fun h => P (snd h)) hs -> P (Try b hs).
  Hypothesis HFin : forall b f, P b -> P f -> P (Finally b f).
  Hypothesis HRet : forall v, P (Ret v).
  Hypothesis HBrk : P Brk.
  Hypothesis HCont : P Cont.
  Hypothesis HCall : forall b, P b -> P (Call b).
  Fixpoint stmt_ind' (s : stmt) : P s :=
    match s with
    | Skip => HSkip
    | Prim i r => HPrim i r
    | Seq a b => HSeq a b (stmt_ind' a) (stmt_ind' b)
    | If c a b => HIf c a b (stmt_ind' a) (stmt_ind' b)
    | Loop b => HLoop b (stmt_ind' b)
    | Try b hs => HTry b hs (stmt_ind' b)
        ((fix go (l : list (hcls * stmt)) : Forall (fun h => P (snd h)) l :=
            match l with [] => Forall_nil _ | h :: r => Forall_cons h (stmt_ind' (snd h)) (go r) end) hs)
    | Finally b f => HFin b f (stmt_ind' b) (stmt_ind' f)
    | Ret v => HRet v
    | Brk => HBrk
    | Cont => HCont
    | Call b => HCall b (stmt_ind' b)
    end.
End StmtInd.

Theorem esc_sound s t o : exec s t o -> forall c, o = ORaise c -> In c (esc s).
Proof.
  induction 1; intros c' E; subst; simpl; try discriminate; auto.
  - inversion E; subst; auto.
  - apply in_or_app; right; eauto.
  - apply in_or_app; left; eauto.
  - apply in_or_app; left; eauto.
  - apply in_or_app; right; eauto.
  - exfalso. eapply H0; reflexivity.
  - inversion E; subst. apply in_or_app; left. apply filter_In. split; [eauto|]. apply first_handler_none; assumption.
  - apply in_or_app; right. apply in_flat_map. apply first_handler_some in H0. apply in_map_iff in H0 as (x & <- & I).
    exists x. split; [exact I|eauto].
  - apply in_or_app; left; eauto.
  - apply in_or_app; right; eauto.
Qed.

Theorem no_escape s : esc s = [] -> forall t o c, exec s t o -> o <> ORaise c.
Proof. intros H t o c X E. pose proof (esc_sound _ _ _ X c E) as I. rewrite H in I. destruct I. Qed.

(* ---------- return values ---------- *)
Fixpoint rets (s : stmt) : list nat :=
  match s with
  | Skip | Prim _ _ | Brk | Cont | Call _ => []
  | Ret v => [v]
  | Seq a b | If _ a b => rets a ++ rets b
  | Loop b => rets b
  | Try b hs => rets b ++ flat_map (fun h => rets (snd h)) hs
  | Finally b f => rets b ++ rets f
  end.

Theorem rets_sound s t o : exec s t o -> forall v, o = ORet v -> In v (rets s).
Proof.
  induction 1; intros v' E; subst; simpl; try discriminate; auto.
  - apply in_or_app; right; eauto.
  - apply in_or_app; left; eauto.
  - apply in_or_app; left; eauto.
  - apply in_or_app; right; eauto.
  - apply in_or_app; left; eauto.
  - apply in_or_app; right. apply in_flat_map. apply first_handler_some in H0. apply in_map_iff in H0 as (x & <- & I).
    exists x. split; [exact I|eauto].
  - apply in_or_app; left; eauto.
  - apply in_or_app; right; eauto.
  - inversion E; subst; left; reflexivity.
Qed.

(* ---------- the paths to each return: the conditions (with their truth value) passed on the way ---------- *)
Fixpoint ret_paths (s : stmt) : list (list (nat * bool) * nat) :=
  match s with
  | Skip | Prim _ _ | Brk | Cont | Call _ => []
  | Ret v => [([], v)]
  | Seq a b => ret_paths a ++ ret_paths b
  | If c a b => map (fun p => ((c, true) :: fst p, snd p)) (ret_paths a) ++ map (fun p => ((c, false) :: fst p, snd p)) (ret_paths b)
  | Loop b => ret_paths b
  | Try b hs => ret_paths b ++ flat_map (fun h => ret_paths (snd h)) hs
  | Finally b f => ret_paths b ++ ret_paths f
  end.
Lemma ret_paths_tags s : map snd (ret_paths s) = rets s.
Proof.
  induction s using stmt_ind'; simpl; try reflexivity.
  - rewrite map_app, IHs1, IHs2. reflexivity.
  - rewrite map_app, !map_map. simpl. rewrite <- IHs1, <- IHs2. reflexivity.
  - exact IHs.
  - rewrite map_app, IHs. f_equal. induction H as [|h r Hh Hr IH]; simpl; [reflexivity|]. rewrite map_app, Hh, IH. reflexivity.
  - rewrite map_app, IHs1, IHs2. reflexivity.
Qed.

(* ---------- loops over plugins: every element is attempted ---------- *)
Fixpoint no_jump (s : stmt) : bool :=
  match s with
  | Skip | Prim _ _ | Call _ => true
  | Ret _ | Brk | Cont => false
  | Seq a b | If _ a b | Finally a b => no_jump a && no_jump b
  | Loop b => no_jump b
  | Try b hs => no_jump b && forallb (fun h => no_jump (snd h)) hs
  end.

Lemma no_jump_outcome s t o : exec s t o -> no_jump s = true -> o = ONorm \/ exists c, o = ORaise c.
Proof.
  induction 1; simpl; intros J; try discriminate; try (apply andb_true_iff in J as [J1 J2]); eauto.
  apply IHexec2. rewrite forallb_forall in J2. apply first_handler_some in H0. apply in_map_iff in H0 as (x & <- & I). apply J2; exact I.
Qed.

Theorem body_completes s : esc s = [] -> no_jump s = true -> forall t o, exec s t o -> o = ONorm.
Proof.
  intros E J t o X. destruct (no_jump_outcome _ _ _ X J) as [->|[c ->]]; [reflexivity|].
  exfalso. eapply no_escape; eauto.
Qed.

(* the loop over n elements, unrolled *)
Fixpoint foreach (n : nat) (body : stmt) : stmt := match n with O => Skip | S k => Seq body (foreach k body) end.
Theorem foreach_attempts_all n body :
  esc body = [] -> no_jump body = true ->
  forall t o, exec (foreach n body) t o ->
  o = ONorm /\ exists ts, length ts = n /\ t = concat ts /\ Forall (fun ti => exec body ti ONorm) ts.
Proof.
  intros E J. induction n as [|k IH]; simpl; intros t o X.
  - inversion X; subst. split; [reflexivity|]. exists []. simpl. auto.
  - inversion X; subst.
    + destruct (IH _ _ H4) as [-> (ts & L & -> & F)]. split; [reflexivity|].
      exists (t1 :: ts). simpl. repeat split; auto.
    + exfalso. apply H4. eapply body_completes; eauto.
Qed.

(* restriction of the fault oracle to Exception-class failures ("a plugin that fails" = raises Exception) *)
Fixpoint only_exc (s : stmt) : stmt :=
  match s with
  | Prim i r => Prim i (filter (ecls_eqb EExc) r)
  | Seq a b => Seq (only_exc a) (only_exc b)
  | If c a b => If c (only_exc a) (only_exc b)
  | Loop b => Loop (only_exc b)
  | Try b hs => Try (only_exc b) (map (fun h => (fst h, only_exc (snd h))) hs)
  | Finally b f => Finally (only_exc b) (only_exc f)
  | Call b => Call (only_exc b)
  | x => x
  end.

(* the opaque steps whose failure can escape (diagnosis: names the replay sites) *)
Fixpoint escp (s : stmt) : list (nat * ecls) :=
  match s with
  | Skip | Ret _ | Brk | Cont => []
  | Prim i r => map (fun c => (i, c)) r
  | Seq a b | If _ a b => escp a ++ escp b
  | Loop b | Call b => escp b
  | Try b hs => filter (fun p => uncaught hs (snd p)) (escp b) ++ flat_map (fun h => escp (snd h)) hs
  | Finally b f => escp b ++ escp f
  end.

(* ---------- a for-loop over n elements: 'continue' moves on to the next element ---------- *)
Fixpoint no_exit (s : stmt) : bool :=     (* no return / break leaves the loop body; continue is allowed *)
  match s with
  | Skip | Prim _ _ | Call _ | Cont => true
  | Ret _ | Brk => false
  | Seq a b | If _ a b | Finally a b => no_exit a && no_exit b
  | Loop b => no_jump b
  | Try b hs => no_exit b && forallb (fun h => no_exit (snd h)) hs
  end.

Inductive each : nat -> stmt -> list (list nat) -> outcome -> Prop :=
| E0 b : each 0 b [] ONorm
| ENext n b t ts o : exec b t ONorm \/ exec b t OCont -> each n b ts o -> each (S n) b (t :: ts) o
| EBreak n b t : exec b t OBrk -> each (S n) b [t] ONorm
| EReturn n b t v : exec b t (ORet v) -> each (S n) b [t] (ORet v)
| ERaise n b t c : exec b t (ORaise c) -> each (S n) b [t] (ORaise c).

Lemma no_exit_outcome s t o : exec s t o -> no_exit s = true -> o = ONorm \/ o = OCont \/ exists c, o = ORaise c.
Proof.
  induction 1; simpl; intros J; try discriminate; try (apply andb_true_iff in J as [J1 J2]); eauto.
  - destruct (no_jump_outcome _ _ _ H J) as [E1|[c1 E1]]; discriminate.
  - apply IHexec2. rewrite forallb_forall in J2. apply first_handler_some in H0. apply in_map_iff in H0 as (x & <- & I). apply J2; exact I.
Qed.

(* every element of the collection is attempted and the statements after the loop are reached *)
Theorem each_attempts_all n body :
  esc body = [] -> no_exit body = true ->
  forall ts o, each n body ts o -> o = ONorm /\ length ts = n.
Proof.
  intros E J ts o X. induction X as [b|n b t ts o H X IH|n b t H|n b t v H|n b t c H].
  - auto.
  - destruct (IH E J) as [-> L]. simpl. auto.
  - destruct (no_exit_outcome _ _ _ H J) as [D|[D|[c D]]]; discriminate.
  - destruct (no_exit_outcome _ _ _ H J) as [D|[D|[c D]]]; discriminate.
  - exfalso. eapply no_escape; eauto.
Qed.
