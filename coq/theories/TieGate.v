(* TieGate.v -- functions of the agent as translated from /repo/src on every run (gen/P*.v, harness/translate/pure.py)
   ARE the functions the hand-written model uses; statements about the translated code follow from that. *)
From Deep Require Import Base Config Limiter Cond PureSupport TieTruth.
From DeepGen Require Import PTruth PGate.
From Coq Require Import Lia.
Local Open Scope Z_scope.

(* ---------- the gate of an action: processor/context/action_context.py ----------
   limits first; an absent or blank condition is true; a condition that failed to evaluate rejects;
   otherwise the truth word of str(result) *)
Lemma tie_action_can_trigger limits cond ts ev :
  gen_action_can_trigger limits cond ts ev = limits ts && gate cond ev.
Proof.
  unfold gen_action_can_trigger, gate. destruct (limits ts); simpl; [|reflexivity].
  destruct cond as [c|]; [|reflexivity].
  rewrite py_strip_empty. fold (blank c). destruct (blank c); [reflexivity|].
  unfold truth. destruct (ev c); simpl; [apply tie_str2bool|reflexivity].
Qed.


(* the gate as coded: limits first; then absent / blank condition, or a condition that EVALUATED to a truth word *)
Lemma code_gate limits cond ts ev :
  gen_action_can_trigger limits cond ts ev = true ->
  limits ts = true /\
  (cond = None \/ exists c, cond = Some c /\ (blank c = true \/ exists t, ev c = EVal t /\ str2bool t = true)).
Proof.
  rewrite tie_action_can_trigger. intros H. apply andb_prop in H as [L G]. split; [exact L|].
  unfold gate in G. destruct cond as [c|]; [right; exists c; split; [reflexivity|] | left; reflexivity].
  destruct (blank c); [left; reflexivity|right].
  unfold truth in G. destruct (ev c) as [t|? ?]; [exists t; auto|discriminate].
Qed.
