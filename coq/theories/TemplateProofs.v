(* TemplateProofs.v -- print/scan round trip of the brace scanner *)
From Deep Require Import Base Config Limiter LimiterProofs Cond Template.

Lemma scan_field_body e : forall acc rest,
  forallb plain e = true ->
  scan (e ++ RB :: rest) (Some acc) = option_map (cons (Field (rev acc ++ e))) (scan rest None).
Proof.
  induction e as [|c e IH]; intros acc rest P.
  - cbn [app scan]. rewrite Z.eqb_refl. rewrite app_nil_r. reflexivity.
  - cbn [forallb] in P. apply andb_true_iff in P as [Pc Pe]. unfold plain in Pc. apply andb_true_iff in Pc as [P1 P2].
    apply negb_true_iff in P1, P2. cbn [app scan]. rewrite P2, P1. rewrite IH by exact Pe. cbn [rev]. rewrite <- app_assoc. reflexivity.
Qed.

Theorem scan_print segs : forall rest_segs,
  forallb wf_seg segs = true ->
  scan (print segs ++ print rest_segs) None = option_map (app segs) (scan (print rest_segs) None).
Proof.
  induction segs as [|g segs IH]; intros rest W.
  - cbn [print flat_map app]. destruct (scan (print rest) None); reflexivity.
  - cbn [forallb] in W. apply andb_true_iff in W as [Wg Ws]. specialize (IH rest Ws).
    unfold print in *. cbn [flat_map]. rewrite <- app_assoc.
    destruct g as [c|e]; cbn [print_seg].
    + destruct (c =? LB) eqn:E1.
      * cbn [app scan]. rewrite Z.eqb_refl. rewrite IH. apply Z.eqb_eq in E1. subst c.
        destruct (scan (flat_map print_seg rest) None); reflexivity.
      * destruct (c =? RB) eqn:E2.
        -- cbn [app scan]. replace (RB =? LB) with false by reflexivity. rewrite Z.eqb_refl.
           rewrite IH. apply Z.eqb_eq in E2. subst c. destruct (scan (flat_map print_seg rest) None); reflexivity.
        -- cbn [app scan]. rewrite E1, E2. rewrite IH. destruct (scan (flat_map print_seg rest) None); reflexivity.
    + cbn [wf_seg] in Wg. apply andb_true_iff in Wg as [Pe Ne]. destruct e as [|c e]; [discriminate|].
      assert (Pc : plain c = true) by (cbn [forallb] in Pe; apply andb_true_iff in Pe; tauto).
      unfold plain in Pc. apply andb_true_iff in Pc as [P1 P2]. apply negb_true_iff in P1, P2.
      assert (Pe' : forallb plain e = true) by (cbn [forallb] in Pe; apply andb_true_iff in Pe; tauto).
      cbn [app scan]. rewrite Z.eqb_refl. rewrite ?P1, ?P2.
      replace ((e ++ [RB]) ++ flat_map print_seg segs ++ flat_map print_seg rest)
        with (e ++ RB :: (flat_map print_seg segs ++ flat_map print_seg rest))
        by (rewrite <- app_assoc; reflexivity).
      rewrite (scan_field_body e [c] _ Pe'). cbn [rev app].
      rewrite IH. destruct (scan (flat_map print_seg rest) None); reflexivity.
Qed.

Theorem render_print segs ev :
  forallb wf_seg segs = true ->
  render (print segs) ev = Some (PREFIX ++ flat_map (seg_text ev) segs).
Proof.
  intros W. unfold render. pose proof (scan_print segs [] W) as H.
  change (print []) with (@nil Z) in H. rewrite app_nil_r in H. rewrite H. cbn [scan option_map]. rewrite app_nil_r. reflexivity.
Qed.

Lemma scan_plain t : forallb plain t = true -> scan t None = Some (map Lit t).
Proof.
  induction t as [|c t IH]; intros P; [reflexivity|]. cbn [forallb] in P. apply andb_true_iff in P as [Pc Pt].
  unfold plain in Pc. apply andb_true_iff in Pc as [P1 P2]. apply negb_true_iff in P1, P2.
  cbn [scan map]. rewrite P1, P2, IH by exact Pt. reflexivity.
Qed.

Theorem render_literal t ev : forallb plain t = true -> render t ev = Some (PREFIX ++ t).
Proof.
  intros P. unfold render. rewrite scan_plain by exact P. cbn [option_map]. f_equal. f_equal.
  clear P. induction t as [|c t IH]; [reflexivity|]. cbn [map flat_map seg_text app]. rewrite IH. reflexivity.
Qed.

(* one message per collected hit *)
Lemma log_run_length l tpl hs :
  length (log_run l tpl hs) = count_true (snd (run l stats0 (map fst hs))).
Proof.
  unfold log_run.
  assert (L : length (snd (run l stats0 (map fst hs))) = length hs).
  { generalize stats0. induction hs as [|h r IH]; intros s; simpl; [reflexivity|].
    destruct (step l s (fst h)) as [s1 b]. specialize (IH s1). destruct (run l s1 (map fst r)) as [s2 bs]. simpl in *. lia. }
  revert L. generalize (snd (run l stats0 (map fst hs))). intros bs. revert hs.
  induction bs as [|b bs IH]; intros hs L; destruct hs as [|h hs]; simpl in *; try discriminate; try reflexivity.
  destruct b; simpl; rewrite IH by lia; reflexivity.
Qed.

(* fields of printed segments: one per Field segment, in order *)
Lemma fields_app a b : fields (a ++ b) = fields a ++ fields b.
Proof. unfold fields. apply flat_map_app. Qed.
