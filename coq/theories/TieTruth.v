(* TieTruth.v -- functions of the agent as translated from /repo/src on every run (gen/P*.v, harness/translate/pure.py)
   ARE the functions the hand-written model uses; statements about the translated code follow from that. *)
From Deep Require Import Base Config PureSupport.
From DeepGen Require Import PTruth.
From Coq Require Import Lia.
Local Open Scope Z_scope.

(* ---------- truth words: utils.py ---------- *)
Lemma tie_str2bool s : gen_str2bool s = str2bool s.
Proof. reflexivity. Qed.

