(* Metric.v -- metric tracepoints:
     processor/context/metric_action.py  MetricActionContext.{can_trigger, _process_action, _process_metric, _convert_type}
     config/config_service.py            has_metric_processor, metric_processors
   A number is carried as the text Python prints for it (the model never computes with it). *)
From Deep Require Import Base Config Limiter Cond.

Record label := { lb_key : str; lb_static : option str; lb_expr : option str }.
Record metric := { m_name : str; m_type : str; m_labels : list label; m_expr : option str;
                   m_namespace : option str; m_help : option str; m_unit : option str }.

(* what evaluating an expression gives: its text, and its value as a number when float() accepts it *)
Record mres := { r_text : str; r_num : option str }.

Definition ONE : str := [49].
Definition DEEP : str := [100; 101; 101; 112].
Definition nonempty_opt (o : option str) : option str := match o with Some [] => None | x => x end.

Definition metric_value (ev : str -> mres) (m : metric) : str :=
  match nonempty_opt (m_expr m) with
  | None => ONE
  | Some e => match r_num (ev e) with Some v => v | None => ONE end
  end.

(* dict assignment: a repeated key keeps its first position and takes the last value *)
Fixpoint dict_set (d : list (str * str)) (k v : str) : list (str * str) :=
  match d with
  | [] => [(k, v)]
  | (k', v') :: r => if str_eqb k' k then (k', v) :: r else (k', v') :: dict_set r k v
  end.
Definition label_value (ev : str -> mres) (l : label) : str :=
  match nonempty_opt (lb_expr l) with
  | Some e => r_text (ev e)
  | None => match lb_static l with Some s => s | None => [78; 111; 110; 101] end
  end.
Definition metric_labels (ev : str -> mres) (m : metric) : list (str * str) :=
  fold_left (fun d l => dict_set d (lb_key l) (label_value ev l)) (m_labels m) [].

Record call := { c_proc : nat; c_op : str; c_name : str; c_labels : list (str * str); c_namespace : str;
                 c_help : option str; c_unit : option str; c_value : str }.
Definition call_of (ev : str -> mres) (m : metric) (p : nat) : call :=
  {| c_proc := p; c_op := lower (m_type m); c_name := m_name m; c_labels := metric_labels ev m;
     c_namespace := match nonempty_opt (m_namespace m) with Some n => n | None => DEEP end;
     c_help := m_help m; c_unit := m_unit m; c_value := metric_value ev m |}.

(* one permitted hit: every metric, to every processor, in this order *)
Definition dispatch (ev : str -> mres) (ms : list metric) (procs : list nat) : list call :=
  flat_map (fun m => map (call_of ev m) procs) ms.

(* one hit of a metric action: without a processor it cannot trigger (and uses no budget) *)
Definition metric_hit (l : lim) (s : stats) (h : hit) (ev : str -> mres) (ms : list metric) (procs : list nat)
  : stats * list call :=
  match procs with
  | [] => (s, [])
  | _ => let '(s', b) := step l s h in (s', if b then dispatch ev ms procs else [])
  end.

(* ---------- correspondence ---------- *)
Definition kv_eqb (a b : str * str) : bool := str_eqb (fst a) (fst b) && str_eqb (snd a) (snd b).
Definition call_eqb (a b : call) : bool :=
  Nat.eqb (c_proc a) (c_proc b) && str_eqb (c_op a) (c_op b) && str_eqb (c_name a) (c_name b)
  && list_eqb kv_eqb (c_labels a) (c_labels b) && str_eqb (c_namespace a) (c_namespace b)
  && option_eqb str_eqb (c_help a) (c_help b) && option_eqb str_eqb (c_unit a) (c_unit b) && str_eqb (c_value a) (c_value b).
Record metric_case := { mk_metrics : list metric; mk_procs : list nat; mk_env : list (str * mres);
                        mk_hits : nat (* permitted hits delivered *); mk_obs : list call; mk_obs_cnt : Z }.
Definition menv (env : list (str * mres)) (e : str) : mres :=
  match alookup e env with Some r => r | None => {| r_text := []; r_num := None |} end.
Fixpoint repeat_hits (n : nat) (l : lim) (s : stats) (ev : str -> mres) (ms : list metric) (procs : list nat) (t : Z)
  : stats * list call :=
  match n with
  | O => (s, [])
  | S k => let '(s1, c1) := metric_hit l s {| h_ts := t; h_cond := true |} ev ms procs in
           let '(s2, c2) := repeat_hits k l s1 ev ms procs (t + 1) in (s2, c1 ++ c2)
  end.
Definition check_metric_case (c : metric_case) : bool :=
  let '(s, calls) := repeat_hits (mk_hits c) {| fc := -1; fp := 0; ws := 0; we := 0 |} stats0 (menv (mk_env c))
                                 (mk_metrics c) (mk_procs c) 1 in
  list_eqb call_eqb calls (mk_obs c) && (cnt s =? mk_obs_cnt c).
