(* TieHooks.v -- TriggerHandler.start / shutdown as translated from /repo/src on every run (gen/PHooks.v) are the handler part
   of Lifecycle.do_start / do_shutdown: what is saved, what is installed, what is put back, the inert flag. *)
From Deep Require Import Base Lifecycle PureSupport.
From DeepGen Require Import PHooks.
Local Open Scope Z_scope.

Definition handler_state (l : life) := (inert l, hooks_installed l, saved_sys l, saved_thr l, sys_hook l, thr_hook l).

(* a start that is not a repeated start (hooks not installed, as after construction or after a shutdown) *)
Lemma tie_handler_start c l :
  started l = false -> hooks_installed l = false ->
  gen_handler_start (no_trace c) (inert l) (hooks_installed l) (saved_sys l) (saved_thr l) (sys_hook l) (thr_hook l) =
  handler_state (do_start c l).
Proof.
  intros S H. unfold gen_handler_start, handler_state, do_start, set_hook, id. rewrite S, H.
  destruct (no_trace c); reflexivity.
Qed.

Lemma tie_handler_shutdown guarded c f l :
  started l = true ->
  gen_handler_shutdown (inert l) (hooks_installed l) (saved_sys l) (saved_thr l) (sys_hook l) (thr_hook l) =
  handler_state (do_shutdown guarded c f l).
Proof.
  intros S. unfold gen_handler_shutdown, handler_state, do_shutdown, set_hook. rewrite S. simpl negb. cbv iota.
  destruct (hooks_installed l) eqn:H; destruct (f_flush f && negb guarded); try reflexivity;
    destruct (f_poll f && negb guarded); try reflexivity;
    destruct (plugin_steps guarded f 0 (nplugins c)); reflexivity.
Qed.

(* stated over the code: start then shutdown puts back exactly the hooks that were there, and touches none when tracing is
   disabled; after shutdown the handler is inert *)
Lemma code_hooks_restored no_trace i0 s0 t0 ss st :
  let '(i1, h1, ss1, st1, s1, t1) := gen_handler_start no_trace i0 false ss st s0 t0 in
  let '(i2, h2, _, _, s2, t2) := gen_handler_shutdown i1 h1 ss1 st1 s1 t1 in
  s2 = s0 /\ t2 = t0 /\ i2 = true /\ h2 = false /\ (no_trace = true -> s1 = s0 /\ t1 = t0).
Proof. unfold gen_handler_start, gen_handler_shutdown, set_hook, id. destruct no_trace; simpl; repeat split; auto; discriminate. Qed.
