(* Tasks.v -- background delivery:
     task/__init__.py        TaskHandler.{submit_task, flush}, the done-callback
     push/push_service.py    PushService.push_snapshot / _push_task
   Environment model (trusted): ThreadPoolExecutor(max_workers=2) = FIFO queue; the first two unfinished
   tasks are the running ones; a task is executed once, by a worker; its exception is stored in its
   future; the done-callback removes it from the pending table. *)
From Deep Require Import Base.

Record trec := { tf_fail : bool; tf_done : bool; tf_runs : nat }.
Inductive fstate :=
| FIdle
| FWaiting (l : list nat)            (* flush is going through the futures that were pending when it began *)
| FLatched (i : nat) (l : list nat)  (* flush is blocked on the future of task i *)
| FReturned (normal : bool).
Record ts := { tasks : list trec; is_open : bool; fl : fstate; refused : nat }.
Definition ts0 : ts := {| tasks := []; is_open := true; fl := FIdle; refused := 0 |}.

Inductive lbl := Submit (fail : bool) | Finish (i : nat) | FlushBegin | FlushStep.

Definition done_at (l : list trec) (i : nat) : bool := match nth_error l i with Some t => tf_done t | None => true end.
Definition fail_at (l : list trec) (i : nat) : bool := match nth_error l i with Some t => tf_fail t | None => false end.

(* indices of the unfinished tasks, in submission order *)
Fixpoint undone_from (l : list trec) (i : nat) : list nat :=
  match l with [] => [] | t :: r => if tf_done t then undone_from r (S i) else i :: undone_from r (S i) end.
Definition undone (l : list trec) : list nat := undone_from l 0.
Definition running (l : list trec) (i : nat) : bool := existsb (Nat.eqb i) (firstn 2 (undone l)).

Fixpoint finish_at (l : list trec) (i : nat) : list trec :=
  match l, i with
  | [], _ => []
  | t :: r, O => {| tf_fail := tf_fail t; tf_done := true; tf_runs := S (tf_runs t) |} :: r
  | t :: r, S k => t :: finish_at r k
  end.

(* reraise = false: flush waits for each future without re-raising (the code);
   reraise = true : flush calls result(), which re-raises the error of a failed task (before the repair) *)
Definition step (reraise : bool) (s : ts) (a : lbl) : ts :=
  match a with
  | Submit f =>
      if is_open s
      then {| tasks := tasks s ++ [{| tf_fail := f; tf_done := false; tf_runs := 0 |}]; is_open := true; fl := fl s; refused := refused s |}
      else {| tasks := tasks s; is_open := false; fl := fl s; refused := S (refused s) |}
  | Finish i =>
      if running (tasks s) i
      then {| tasks := finish_at (tasks s) i; is_open := is_open s; fl := fl s; refused := refused s |}
      else s
  | FlushBegin =>
      match fl s with
      | FIdle => {| tasks := tasks s; is_open := false; fl := FWaiting (undone (tasks s)); refused := refused s |}
      | _ => s
      end
  | FlushStep =>
      match fl s with
      | FWaiting [] => {| tasks := tasks s; is_open := is_open s; fl := FReturned true; refused := refused s |}
      | FWaiting (i :: r) =>
          if done_at (tasks s) i
          then {| tasks := tasks s; is_open := is_open s; fl := FWaiting r; refused := refused s |}   (* already gone from the table *)
          else {| tasks := tasks s; is_open := is_open s; fl := FLatched i r; refused := refused s |}
      | FLatched i r =>
          if done_at (tasks s) i
          then if reraise && fail_at (tasks s) i
               then {| tasks := tasks s; is_open := is_open s; fl := FReturned false; refused := refused s |}
               else {| tasks := tasks s; is_open := is_open s; fl := FWaiting r; refused := refused s |}
          else s                                                                                    (* still blocked *)
      | _ => s
      end
  end.
Definition run (reraise : bool) (s : ts) (l : list lbl) : ts := fold_left (step reraise) l s.

(* ---------- correspondence ---------- *)
(* the harness's operations; after each one the flusher thread advances as far as it can *)
Fixpoint settle (n : nat) (s : ts) : ts := match n with O => s | S k => settle k (step false s FlushStep) end.
Record tasks_case := { tk_ops : list lbl; tk_obs : list (list bool * option bool) (* per op: done flags, flush outcome *);
                       tk_obs_refused : nat }.
Definition flush_obs (s : ts) : option bool := match fl s with FReturned b => Some b | _ => None end.
Fixpoint trace (s : ts) (l : list lbl) : list (list bool * option bool) * ts :=
  match l with
  | [] => ([], s)
  | a :: r => let s1 := settle (S (S (length (tasks s)))) (step false s a) in
              let '(t, s2) := trace s1 r in ((map tf_done (tasks s1), flush_obs s1) :: t, s2)
  end.
Definition obs_eqb (a b : list bool * option bool) : bool :=
  list_eqb Bool.eqb (fst a) (fst b) && option_eqb Bool.eqb (snd a) (snd b).
Definition check_tasks_case (c : tasks_case) : bool :=
  let '(t, s) := trace ts0 (tk_ops c) in
  list_eqb obs_eqb t (tk_obs c) && Nat.eqb (refused s) (tk_obs_refused c)
  && forallb (fun t => Nat.eqb (tf_runs t) (if tf_done t then 1 else 0)) (tasks s).
