(* TieFrames.v -- functions of the agent as translated from /repo/src on every run (gen/P*.v, harness/translate/pure.py)
   ARE the functions the hand-written model uses; statements about the translated code follow from that. *)
From Deep Require Import Base Config PureSupport.
From DeepGen Require Import PFrames.
From Coq Require Import Lia.
Local Open Scope Z_scope.

(* ---------- application frames and short paths: config/config_service.py, processor/frame_collector.py ----------
   (the two lists are what __as_path_list makes of the IN_APP_INCLUDE / IN_APP_EXCLUDE settings: Config.as_prefixes,
   tied by correspondence) *)
Lemma find_first_prefix l f : find (fun p => prefixb p f) l = first_prefix l f.
Proof. induction l as [|p r IH]; simpl; [reflexivity|]. destruct (prefixb p f); [reflexivity|exact IH]. Qed.

Lemma tie_is_app_frame excl incl ep root f :
  gen_is_app_frame excl incl ep root f = is_app_frame (with_exec_prefix ep excl) incl root f.
Proof.
  unfold gen_is_app_frame, is_app_frame, with_exec_prefix. cbv zeta.
  destruct (existsb (str_eqb ep) excl); simpl; rewrite !find_first_prefix;
    (destruct (first_prefix _ f); [reflexivity|]); (destruct (first_prefix incl f); [reflexivity|]);
    destruct (prefixb root f); reflexivity.
Qed.

Lemma tie_parse_short_name ia f :
  gen_parse_short_name ia f = (short_path (snd (ia f)) f, fst (ia f)).
Proof.
  unfold gen_parse_short_name, short_path, py_slice_from. destruct (ia f) as [b [m|]]; simpl; [|reflexivity].
  assert (Z.of_nat (length m) <? 0 = false) as -> by (apply Z.ltb_ge; lia).
  rewrite Nat2Z.id. reflexivity.
Qed.

