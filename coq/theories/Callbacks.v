(* Callbacks.v -- executable model of the pending-callback store of one thread:
     processor/trigger_handler.py   TriggerHandler.__process_call_backs, the push at the end of _trace_call
     processor/context/callback_context.py  CallbackContext.at_location
     thread_local.py                ThreadLocal (one store entry per thread)
   A context is created at a 'call' event (method span, method capture) or at a 'line' event (line
   span, line capture) and holds the callbacks (spans to close, deferred snapshots to send) created
   at that event.  It is matched by the NAME of the file and function, not by the invocation. *)
From Deep Require Import Base.

Definition label := (str * str)%type.       (* file basename, function name *)
Definition lab_eqb (a b : label) : bool := str_eqb (fst a) (fst b) && str_eqb (snd a) (snd b).

Inductive ckind := LineCb | CallCb.
(* c_owner is ghost: the invocation during which the context was created *)
Record ctx := { c_kind : ckind; c_lab : label; c_owner : nat; c_id : nat }.
Definition is_line (k : ckind) : bool := match k with LineCb => true | CallCb => false end.

(* the loop of __process_call_backs: from the top, while the context is at this location: at most one context
   opened by a line, then at most one opened by a call (which a line event never completes) *)
Definition matches (lab : label) (c : ctx) : bool := lab_eqb (c_lab c) lab.
Definition complete (isline : bool) (lab : label) (p : list ctx) : list ctx * list ctx :=
  match p with
  | [] => ([], [])
  | c :: r =>
    if negb (matches lab c) then ([], p) else
    if is_line (c_kind c) then
      match r with
      | c2 :: r2 => if matches lab c2 && negb (is_line (c_kind c2)) && negb isline then ([c; c2], r2) else ([c], r)
      | [] => ([c], [])
      end
    else if isline then ([], p) else ([c], r)
  end.

(* events of ONE thread, acting on the implicit call stack (ghost) *)
Inductive ev :=
| Call (lab : label) (opens : bool)   (* function entered; opens: a context is created at this event *)
| Line (opens : bool)
| Exc
| Ret.
Record fr := { f_inv : nat; f_lab : label }.
Record done := { d_id : nat; d_owner : nat; d_top : nat }.   (* context id, its owner, the invocation that was running *)
Record st := { stack : list fr; pending : list ctx; ninv : nat; nid : nat; log : list done }.
Definition init : st := {| stack := []; pending := []; ninv := 0; nid := 0; log := [] |}.

Definition mk_done (top : nat) (c : ctx) : done := {| d_id := c_id c; d_owner := c_owner c; d_top := top |}.

Definition step (s : st) (e : ev) : option st :=
  match e with
  | Call lab o =>
      let f := {| f_inv := ninv s; f_lab := lab |} in
      let p := if o then {| c_kind := CallCb; c_lab := lab; c_owner := ninv s; c_id := nid s |} :: pending s else pending s in
      Some {| stack := f :: stack s; pending := p; ninv := S (ninv s); nid := if o then S (nid s) else nid s; log := log s |}
  | Line o =>
      match stack s with
      | [] => None
      | f :: _ =>
        let '(d, p) := complete true (f_lab f) (pending s) in
        let p' := if o then {| c_kind := LineCb; c_lab := f_lab f; c_owner := f_inv f; c_id := nid s |} :: p else p in
        Some {| stack := stack s; pending := p'; ninv := ninv s; nid := if o then S (nid s) else nid s;
                log := log s ++ map (mk_done (f_inv f)) d |}
      end
  | Exc =>
      match stack s with
      | [] => None
      | f :: _ =>
        let '(d, p) := complete false (f_lab f) (pending s) in
        Some {| stack := stack s; pending := p; ninv := ninv s; nid := nid s; log := log s ++ map (mk_done (f_inv f)) d |}
      end
  | Ret =>
      match stack s with
      | [] => None
      | f :: rest =>
        let '(d, p) := complete false (f_lab f) (pending s) in
        Some {| stack := rest; pending := p; ninv := ninv s; nid := nid s; log := log s ++ map (mk_done (f_inv f)) d |}
      end
  end.

Fixpoint run (s : st) (es : list ev) : option st :=
  match es with
  | [] => Some s
  | e :: r => match step s e with Some s' => run s' r | None => None end
  end.

(* the discipline the code had before the repair: only the TOP context is examined *)
Definition complete_top (isline : bool) (lab : label) (p : list ctx) : list ctx * list ctx :=
  match p with
  | [] => ([], [])
  | c :: r =>
    if negb (lab_eqb (c_lab c) lab) then ([], p) else
    if is_line (c_kind c) then ([c], r) else if isline then ([], p) else ([c], r)
  end.

(* ---------- correspondence: the completions observed per event ---------- *)
Record cb_case := { cb_events : list ev; cb_obs : list (list nat) (* per event: ids completed, in order *);
                    cb_obs_pending : list nat (* ids left pending at the end, top first *) }.
Fixpoint run_obs (s : st) (es : list ev) : option (list (list nat) * st) :=
  match es with
  | [] => Some ([], s)
  | e :: r => match step s e with
              | Some s' => match run_obs s' r with
                           | Some (o, s2) => Some (map d_id (skipn (length (log s)) (log s')) :: o, s2)
                           | None => None end
              | None => None end
  end.
Definition check_cb_case (c : cb_case) : bool :=
  match run_obs init (cb_events c) with
  | Some (o, s) => list_eqb (list_eqb Nat.eqb) o (cb_obs c) && list_eqb Nat.eqb (map c_id (pending s)) (cb_obs_pending c)
  | None => false
  end.

(* ---------- several threads: the store holds one entry per thread ---------- *)
Definition mstate := nat -> st.
Definition minit : mstate := fun _ => init.
Definition mset (m : mstate) (t : nat) (s : st) : mstate := fun t' => if Nat.eqb t' t then s else m t'.
Definition mstep (m : mstate) (te : nat * ev) : option mstate :=
  match step (m (fst te)) (snd te) with Some s' => Some (mset m (fst te) s') | None => None end.
Fixpoint mrun (m : mstate) (tes : list (nat * ev)) : option mstate :=
  match tes with
  | [] => Some m
  | te :: r => match mstep m te with Some m' => mrun m' r | None => None end
  end.
Definition events_of (t : nat) (tes : list (nat * ev)) : list ev :=
  map snd (filter (fun te => Nat.eqb (fst te) t) tes).
