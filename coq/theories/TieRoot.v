(* TieRoot.v -- VariableSetProcessor.process_variable (one root) as it is in /repo/src NOW (gen/PCollect.v), over the translated
   traversal (TieTraverse.v), is the model's collect_root.  Kept apart from TieTraverse.v so that a change to it alarms the
   identity property (C07), not the bounds (C05). *)
From Deep Require Import Base Config Collector CollectorProofs PureSupport TieCollect TieTraverse.
From DeepGen Require Import PCollect.
Local Open Scope nat_scope.

Section Root.
Variables (c : cfg) (h : heap).

(* VariableSetProcessor.process_variable (one root: a frame's locals, a watch value, a captured value) as translated: an object
   that is already recorded answers its id at once; otherwise ONE traversal from it, and the id it was given (none, if the budget
   was used up before it) *)
Definition code_collect_root (fuel : nat) (cs : list nat) (tbl : list (nat * var)) (name : str) (o : nat)
  : (list nat * list (nat * var)) * (option nat * str) :=
  gen_collect_root (fun x : nat => x) lookup_cache root_node (fun l : list node => l)
    (fun l st => match l with
                 | [n] => let k := fst (code_traverse c h (S (S fuel)) n (core_init (fst st) (snd st))) in (k_cache k, k_table k)
                 | _ => st
                 end)
    (fun (v : option nat) (_ : str) => v) (fun x => otext (hget h x)) cs tbl name o.

Theorem tie_collect_root fuel a tbl name o :
  code_collect_root fuel (a_cache a) tbl name o =
  let '(a', t', r) := collect_root (S fuel) true c h a tbl name o in ((a_cache a', t'), (r, otext (hget h o))).
Proof.
  unfold code_collect_root, gen_collect_root, collect_root.
  destruct (lookup_cache (a_cache a) o) as [v|]; [reflexivity|].
  rewrite (tie_traverse c h). cbn [fst snd core_of k_cache k_table core_init a_cache]. reflexivity.
Qed.

(* a root that is already recorded (a watch on a value of the frame, the same value under a second name): its id, and nothing
   else changes *)
Lemma code_collect_root_known fuel cs tbl name o v :
  lookup_cache cs o = Some v -> code_collect_root fuel cs tbl name o = ((cs, tbl), (Some v, otext (hget h o))).
Proof. intros L. unfold code_collect_root, gen_collect_root. rewrite L. reflexivity. Qed.

End Root.
