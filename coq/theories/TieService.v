(* TieService.v -- TracepointConfigService.{update_no_change, update_new_config, __trigger_update, update_listeners} and the
   handler's listener, as translated from /repo/src on every run (gen/PService.v), are the steps of ConfigSvc.step. *)
From Deep Require Import Base ConfigSvc PureSupport.
From DeepGen Require Import PService.
From Coq Require Import Lia.
Local Open Scope Z_scope.

Lemma tie_listener installed ts oh ch oc newc :
  gen_listener_config_change installed ts oh ch oc newc = deliver installed ts oh ch oc newc.
Proof. reflexivity. Qed.

Lemma tie_no_change s ts : gen_update_no_change (last_update s) ts = last_update (step true s (PollNoChange ts)).
Proof. reflexivity. Qed.

Lemma tie_new_config s ts h c :
  gen_update_new_config (polled s) (hash s) (last_update s) (pending s) ts h c =
  let s' := step true s (PollUpdate ts h c) in (polled s', hash s', last_update s', pending s').
Proof. reflexivity. Qed.

(* an update task, whenever it runs and whatever it captured at submission, installs the state current AT THAT MOMENT *)
Lemma tie_run_task s k t ts oh ch oc :
  (k < 2)%nat -> nth_error (pending s) k = Some t ->
  gen_update_listeners (polled s) (hash s) (map snd (custom s)) (installed s) ts oh ch oc (tk_captured t) =
  installed (step true s (RunTask k)).
Proof.
  intros Hk Hn. unfold gen_update_listeners, deliver, step.
  apply Nat.ltb_lt in Hk. rewrite Hk, Hn. reflexivity.
Qed.

Lemma code_task_ignores_what_it_captured polled hash custom installed ts oh ch oc captured1 captured2 :
  gen_update_listeners polled hash custom installed ts oh ch oc captured1 =
  gen_update_listeners polled hash custom installed ts oh ch oc captured2.
Proof. reflexivity. Qed.
