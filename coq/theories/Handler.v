(* Handler.v -- the composition: one trace event through matching (Match), each matching action's own
   limits (Limiter) and condition (Cond), in action order; the statistics are per action.
     processor/trigger_handler.py  TriggerHandler._trace_call: __actions_for_location, then per action
                                   can_trigger / acquire / process *)
From Deep Require Import Base Config Limiter Cond Match.

Record haction := { ha_id : nat; ha_lim : lim; ha_cond : option str }.
Definition installed := list (loc * haction).           (* every action with the location of its trigger, in order *)
Record hevent := { he_ev : event; he_ts : Z; he_env : list (str * eres) }.
Definition env_of (env : list (str * eres)) (e : str) : eres :=
  match alookup e env with Some r => r | None => EErr [] [] end.

Definition hstate := nat -> stats.
Definition hstate0 : hstate := fun _ => stats0.
Definition upd (st : hstate) (a : nat) (s : stats) : hstate := fun x => if Nat.eqb x a then s else st x.

Definition hit_for (a : haction) (e : hevent) : hit := hit_of (ha_cond a) (he_ts e) (env_of (he_env e)).

Definition handle1 (e : hevent) (acc : hstate * list nat) (p : loc * haction) : hstate * list nat :=
  if at_loc (fst p) (he_ev e) then
    let a := snd p in
    let '(s', b) := step (ha_lim a) (fst acc (ha_id a)) (hit_for a e) in
    (upd (fst acc) (ha_id a) s', if b then snd acc ++ [ha_id a] else snd acc)
  else acc.
Definition handle (inst : installed) (st : hstate) (e : hevent) : hstate * list nat :=
  fold_left (handle1 e) inst (st, []).

Fixpoint run_events (inst : installed) (st : hstate) (es : list hevent) : hstate * list (list nat) :=
  match es with
  | [] => (st, [])
  | e :: r => let '(st1, f) := handle inst st e in let '(st2, fs) := run_events inst st1 r in (st2, f :: fs)
  end.

(* ---------- correspondence ---------- *)
Record handler_case := { hc_inst : installed; hc_events : list hevent; hc_obs : list (list nat);
                         hc_obs_counts : list (nat * Z) (* action id, fires recorded at the end *) }.
Definition check_handler_case (c : handler_case) : bool :=
  let '(st, fs) := run_events (hc_inst c) hstate0 (hc_events c) in
  list_eqb (list_eqb Nat.eqb) fs (hc_obs c) && forallb (fun p => cnt (st (fst p)) =? snd p) (hc_obs_counts c).
