(* CollectorProofs.v -- step invariants of the collector work list, lifted over every fuel. *)
From Deep Require Import Base Config Collector.
From Coq Require Import Sorted.

Section Step.
Variables (c : cfg) (h : heap).

(* ---------- cache lookups ---------- *)
Lemma index_of_bound o l : forall i v, index_of o l i = Some v -> (i <= v < i + length l)%nat.
Proof.
  induction l as [|x r IH]; simpl; intros i v H; [discriminate|].
  destruct (Nat.eqb x o); [inversion H; lia|]. apply IH in H. lia.
Qed.

Lemma index_of_none o l : forall i, index_of o l i = None <-> ~ In o l.
Proof.
  induction l as [|x r IH]; simpl; intros i; [tauto|].
  destruct (Nat.eqb_spec x o) as [E|N].
  - split; [discriminate|]. intros F; exfalso; apply F; left; exact E.
  - rewrite IH. tauto.
Qed.

Lemma index_of_nth o l : forall i v, index_of o l i = Some v -> nth (v - i) l 0%nat = o.
Proof.
  induction l as [|x r IH]; simpl; intros i v H; [discriminate|].
  destruct (Nat.eqb_spec x o) as [E|N].
  - inversion H; subst. rewrite Nat.sub_diag. reflexivity.
  - pose proof (index_of_bound _ _ _ _ H) as B. specialize (IH _ _ H).
    replace (v - i)%nat with (S (v - S i)) by lia. exact IH.
Qed.

Lemma lookup_cache_bound cs o v : lookup_cache cs o = Some v -> (1 <= v <= length cs)%nat.
Proof. unfold lookup_cache; intros H. apply index_of_bound in H. lia. Qed.

(* ---------- the four cases of one loop iteration ---------- *)
Definition mkref (n : node) (v : nat) : vref := {| r_vid := v; r_name := n_name n; r_orig := n_orig n |}.

Inductive step_case (fifo : bool) (s : st) : st -> Prop :=
| SC_idle : stopped s = true \/ pop fifo (queue s) = None -> step_case fifo s s
| SC_stop n q : stopped s = false -> pop fifo (queue s) = Some (n, q) ->
    (max_vars c < length (cache s))%nat ->
    step_case fifo s {| cache := cache s; table := table s; roots := roots s; queue := []; stopped := true; log := log s |}
| SC_hit n q v t rs : stopped s = false -> pop fifo (queue s) = Some (n, q) ->
    (length (cache s) <= max_vars c)%nat ->
    lookup_cache (cache s) (n_oid n) = Some v ->
    attach (table s) (roots s) (n_par n) (mkref n v) = (t, rs) ->
    step_case fifo s {| cache := cache s; table := t; roots := rs; queue := q; stopped := false; log := log s |}
| SC_new n q t rs : stopped s = false -> pop fifo (queue s) = Some (n, q) ->
    (length (cache s) <= max_vars c)%nat ->
    lookup_cache (cache s) (n_oid n) = None ->
    attach (table s ++ [(S (length (cache s)), record_var c h (n_oid n))]) (roots s) (n_par n)
           (mkref n (S (length (cache s)))) = (t, rs) ->
    step_case fifo s {| cache := cache s ++ [n_oid n]; table := t; roots := rs;
                        queue := q ++ children_of c h (n_oid n) (n_depth n) (S (length (cache s)));
                        stopped := false; log := log s ++ [(S (length (cache s)), n_depth n)] |}.

Lemma step_cases fifo s : step_case fifo s (step fifo c h s).
Proof.
  unfold step. destruct (stopped s) eqn:St; [apply SC_idle; left; exact St|].
  destruct (pop fifo (queue s)) as [[n q]|] eqn:P; [|apply SC_idle; right; exact P].
  destruct (Nat.ltb_spec (max_vars c) (length (cache s))) as [Lt|Ge].
  - eapply SC_stop; eauto.
  - destruct (lookup_cache (cache s) (n_oid n)) as [v|] eqn:Lk.
    + destruct (attach (table s) (roots s) (n_par n) _) as [t rs] eqn:A.
      eapply SC_hit; eauto.
    + destruct (attach (table s ++ _) (roots s) (n_par n) _) as [t rs] eqn:A.
      eapply SC_new; eauto.
Qed.

(* ---------- C05: the variable budget ---------- *)
Lemma step_count fifo s B :
  (S (max_vars c) <= B)%nat -> (length (cache s) <= B)%nat -> (length (cache (step fifo c h s)) <= B)%nat.
Proof.
  intros HB H. destruct (step_cases fifo s); simpl; try exact H. rewrite app_length; simpl. lia.
Qed.

Lemma run_count fuel : forall fifo s B,
  (S (max_vars c) <= B)%nat -> (length (cache s) <= B)%nat -> (length (cache (run fuel fifo c h s)) <= B)%nat.
Proof. induction fuel as [|f IH]; simpl; intros fifo s B HB H; [exact H|]. apply IH; [exact HB|]. apply step_count; assumption. Qed.

Lemma step_cache_mono fifo s : (length (cache s) <= length (cache (step fifo c h s)))%nat.
Proof. destruct (step_cases fifo s); simpl; try lia. rewrite app_length; simpl; lia. Qed.

(* ---------- C07: one object, one id ---------- *)
Lemma step_nodup fifo s : NoDup (cache s) -> NoDup (cache (step fifo c h s)).
Proof.
  intros H. destruct (step_cases fifo s) as [| | |n q t rs _ _ _ Lk _]; simpl; try exact H.
  apply index_of_none in Lk. clear -H Lk. induction (cache s) as [|x l IH]; simpl.
  - constructor; [intros []|constructor].
  - inversion H; subst. constructor.
    + intros F. apply in_app_or in F as [F|[F|[]]]; [contradiction|]. subst. apply Lk; left; reflexivity.
    + apply IH; [assumption|]. intros F; apply Lk; right; exact F.
Qed.

Lemma run_nodup fuel : forall fifo s, NoDup (cache s) -> NoDup (cache (run fuel fifo c h s)).
Proof. induction fuel as [|f IH]; simpl; intros fifo s H; [exact H|]. apply IH. apply step_nodup. exact H. Qed.

(* ---------- table entries are faithful to the objects they were made from ---------- *)
Definition entry_ok (x : var) : Prop :=
  v_ty x = o_ty (hget h (v_oid x)) /\
  v_val x = firstn (max_str c) (otext (hget h (v_oid x))) /\
  v_trunc x = (max_str c <? length (otext (hget h (v_oid x))))%nat.
Definition table_ok (t : list (nat * var)) : Prop := forall v x, In (v, x) t -> entry_ok x.

Lemma add_child_tbl_in t p r v x : In (v, x) (add_child_tbl t p r) ->
  In (v, x) t \/ exists y, In (v, y) t /\ v = p /\ x = add_child_var y r.
Proof.
  induction t as [|[k y] t' IH]; simpl; [tauto|].
  destruct (Nat.eqb_spec k p) as [E|N]; simpl.
  - intros [H|H]; [inversion H; subst; right; exists y; auto | left; right; exact H].
  - intros [H|H]; [left; left; exact H|]. destruct (IH H) as [I|[z [I J]]]; [left; right; exact I | right; exists z; tauto].
Qed.

Lemma attach_table_ok t rs p r t' rs' : attach t rs p r = (t', rs') -> table_ok t -> table_ok t'.
Proof.
  destruct p as [|pv]; simpl; intros E H; inversion E; subst; [exact H|].
  intros v x I. apply add_child_tbl_in in I as [I|[y [I [_ ->]]]]; [eapply H; eauto|].
  specialize (H _ _ I). exact H.
Qed.

Lemma record_var_ok o : entry_ok (record_var c h o).
Proof. unfold entry_ok, record_var; simpl. auto. Qed.

Lemma step_table_ok fifo s : table_ok (table s) -> table_ok (table (step fifo c h s)).
Proof.
  intros H. destruct (step_cases fifo s) as [| |n q v t rs _ _ _ _ A|n q t rs _ _ _ _ A]; simpl; try exact H.
  - eapply attach_table_ok; eauto.
  - eapply attach_table_ok; eauto. intros v x I. apply in_app_or in I as [I|[I|[]]]; [eapply H; eauto|].
    inversion I; subst. apply record_var_ok.
Qed.

Lemma run_table_ok fuel : forall fifo s, table_ok (table s) -> table_ok (table (run fuel fifo c h s)).
Proof. induction fuel as [|f IH]; simpl; intros fifo s H; [exact H|]. apply IH. apply step_table_ok. exact H. Qed.

(* C05: string cut and truncated flag, consequence of faithfulness *)
Lemma entry_ok_string x : entry_ok x ->
  (length (v_val x) <= max_str c)%nat /\
  (v_trunc x = true <-> (max_str c < length (otext (hget h (v_oid x))))%nat).
Proof.
  intros (_ & Hv & Ht). split.
  - rewrite Hv, firstn_length. lia.
  - rewrite Ht. apply Nat.ltb_lt.
Qed.

(* ---------- C07: references are ids that exist ---------- *)
Definition dom (t : list (nat * var)) : list nat := map fst t.
Definition valid (s : st) (v : nat) : Prop := (1 <= v <= length (cache s))%nat.
Definition refs_valid (s : st) : Prop :=
  (forall r, In r (roots s) -> valid s (r_vid r)) /\
  (forall v x r, In (v, x) (table s) -> In r (v_children x) -> valid s (r_vid r)) /\
  (forall n v, In n (queue s) -> n_par n = PVar v -> In v (dom (table s))) /\
  (forall v, In v (dom (table s)) -> valid s v).

Lemma dom_add_child t p r : dom (add_child_tbl t p r) = dom t.
Proof. induction t as [|[k y] t' IH]; simpl; [reflexivity|]. destruct (Nat.eqb k p); simpl; f_equal; exact IH. Qed.

Lemma pop_in fifo q n r : pop fifo q = Some (n, r) -> forall m, In m r -> In m q.
Proof.
  destruct fifo; simpl.
  - destruct q as [|x q']; intros H; inversion H; subst. intros m I; right; exact I.
  - destruct (rev q) as [|x q'] eqn:E; intros H; inversion H; subst.
    intros m I. apply in_rev in I. apply in_rev. rewrite E. right; exact I.
Qed.
Lemma pop_head_in fifo q n r : pop fifo q = Some (n, r) -> In n q.
Proof.
  destruct fifo; simpl.
  - destruct q as [|x q']; intros H; inversion H; subst. left; reflexivity.
  - destruct (rev q) as [|x q'] eqn:E; intros H; inversion H; subst. apply in_rev. rewrite E. left; reflexivity.
Qed.

Lemma children_parent o d v n : In n (children_of c h o d v) -> n_par n = PVar v /\ n_depth n = S d /\ (S d < max_depth c)%nat.
Proof.
  unfold children_of. destruct (Nat.leb_spec (max_depth c) (d + 1)) as [L|G]; [intros []|].
  assert (D : (S d < max_depth c)%nat) by lia.
  destruct (o_kind (hget h o)); [intros []| | |]; intros I; apply in_map_iff in I as (x & <- & _); simpl; auto.
Qed.

Lemma step_refs_valid fifo s : refs_valid s -> refs_valid (step fifo c h s).
Proof.
  intros HI. pose proof HI as (Hr & Hc & Hq & Hd).
  destruct (step_cases fifo s) as [|n q _ P _|n q v t rs _ P _ Lk A|n q t rs _ P _ Lk A].
  - exact HI.
  - unfold refs_valid, valid; simpl. split; [exact Hr|]. split; [exact Hc|]. split; [intros ? ? []|exact Hd].
  - apply lookup_cache_bound in Lk.
    assert (Hq' : forall m w, In m q -> n_par m = PVar w -> In w (dom (table s))) by (intros; eapply Hq; eauto; eapply pop_in; eauto).
    unfold refs_valid, valid; simpl. destruct (n_par n) as [|p] eqn:Pn; simpl in A; inversion A; subst; clear A.
    + split; [|split; [|split]]; auto.
      intros r0 I. apply in_app_or in I as [I|[<-|[]]]; [apply Hr; exact I | simpl; exact Lk].
    + rewrite dom_add_child. split; [|split; [|split]]; auto.
      intros w x r0 I J. apply add_child_tbl_in in I as [I|[y [I [_ ->]]]]; [eapply Hc; eauto|].
      simpl in J. apply in_app_or in J as [J|[<-|[]]]; [eapply Hc; eauto | simpl; exact Lk].
  - set (v := S (length (cache s))) in *.
    assert (Hq' : forall m w, In m q -> n_par m = PVar w -> In w (dom (table s))) by (intros; eapply Hq; eauto; eapply pop_in; eauto).
    assert (Vm : forall w, valid s w -> (1 <= w <= length (cache s ++ [n_oid n]))%nat) by (unfold valid; intros; rewrite app_length; simpl; lia).
    assert (Vv : (1 <= v <= length (cache s ++ [n_oid n]))%nat) by (unfold v; rewrite app_length; simpl; lia).
    assert (Kids : forall m w, In m (q ++ children_of c h (n_oid n) (n_depth n) v) -> n_par m = PVar w ->
                               In w (dom (table s) ++ [v])).
    { intros m w I E. apply in_or_app. apply in_app_or in I as [I|I]; [left; eapply Hq'; eauto|].
      right. apply children_parent in I as [Pm _]. rewrite Pm in E. inversion E; subst. left; reflexivity. }
    assert (Dm : forall w, In w (dom (table s) ++ [v]) -> (1 <= w <= length (cache s ++ [n_oid n]))%nat).
    { intros w I. apply in_app_or in I as [I|[<-|[]]]; [apply Vm, Hd; exact I | exact Vv]. }
    unfold refs_valid, valid; simpl. destruct (n_par n) as [|p] eqn:Pn; simpl in A; inversion A; subst; clear A.
    + unfold dom. rewrite map_app. simpl. fold (dom (table s)).
      split; [|split; [|split]]; [| |exact Kids|exact Dm].
      * intros r0 I. apply in_app_or in I as [I|[<-|[]]]; [apply Vm, Hr; exact I | simpl; exact Vv].
      * intros w x r0 I J. apply in_app_or in I as [I|[I|[]]]; [apply Vm; eapply Hc; eauto|]. inversion I; subst. simpl in J. destruct J.
    + rewrite dom_add_child. unfold dom. rewrite map_app. simpl. fold (dom (table s)).
      split; [|split; [|split]]; [| |exact Kids|exact Dm].
      * intros r0 I. apply Vm, Hr; exact I.
      * intros w x r0 I J. apply add_child_tbl_in in I as [I|[y [I [_ ->]]]].
        -- apply in_app_or in I as [I|[I|[]]]; [apply Vm; eapply Hc; eauto|]. inversion I; subst. simpl in J. destruct J.
        -- simpl in J. apply in_app_or in J as [J|[<-|[]]]; [|simpl; exact Vv].
           apply in_app_or in I as [I|[I|[]]]; [apply Vm; eapply Hc; eauto|]. inversion I; subst. simpl in J. destruct J.
Qed.

Lemma run_refs_valid fuel : forall fifo s, refs_valid s -> refs_valid (run fuel fifo c h s).
Proof. induction fuel as [|f IH]; simpl; intros fifo s H; [exact H|]. apply IH. apply step_refs_valid. exact H. Qed.

(* every id handed out during the run has its entry in the run's table *)
Lemma step_dom fifo s :
  dom (table (step fifo c h s)) =
  dom (table s) ++ seq (S (length (cache s))) (length (cache (step fifo c h s)) - length (cache s)).
Proof.
  destruct (step_cases fifo s) as [| |n q v t rs _ _ _ _ A|n q t rs _ _ _ _ A]; simpl;
    rewrite ?Nat.sub_diag; simpl; rewrite ?app_nil_r; try reflexivity.
  - destruct (n_par n); simpl in A; inversion A; subst; [reflexivity | apply dom_add_child].
  - rewrite app_length; simpl. replace (length (cache s) + 1 - length (cache s))%nat with 1%nat by lia. simpl.
    destruct (n_par n); simpl in A; inversion A; subst; rewrite ?dom_add_child; unfold dom; rewrite map_app; reflexivity.
Qed.

Lemma run_dom fuel : forall fifo s,
  dom (table (run fuel fifo c h s)) =
  dom (table s) ++ seq (S (length (cache s))) (length (cache (run fuel fifo c h s)) - length (cache s)).
Proof.
  induction fuel as [|f IH]; simpl; intros fifo s.
  - rewrite Nat.sub_diag; simpl. rewrite app_nil_r. reflexivity.
  - rewrite IH, step_dom, <- app_assoc. f_equal.
    pose proof (step_cache_mono fifo s) as M1.
    assert (M2 : (length (cache (step fifo c h s)) <= length (cache (run f fifo c h (step fifo c h s))))%nat).
    { clear. generalize (step fifo c h s). induction f as [|f IH]; simpl; intros s0; [lia|].
      etransitivity; [apply (step_cache_mono fifo s0)|apply IH]. }
    set (a := length (cache s)) in *. set (b := length (cache (step fifo c h s))) in *.
    set (d := length (cache (run f fifo c h (step fifo c h s)))) in *.
    replace (d - a)%nat with ((b - a) + (d - b))%nat by lia. rewrite seq_app. f_equal. f_equal. lia.
Qed.

(* ---------- C05: depth cap ---------- *)
Definition depth_ok (d : nat) : Prop := d = 0%nat \/ (d < max_depth c)%nat.
Definition depths_ok (s : st) : Prop :=
  (forall n, In n (queue s) -> depth_ok (n_depth n)) /\ (forall e, In e (log s) -> depth_ok (snd e)).

Lemma step_depths_ok fifo s : depths_ok s -> depths_ok (step fifo c h s).
Proof.
  intros HI. pose proof HI as (Hq & Hl).
  destruct (step_cases fifo s) as [|n q _ P _|n q v t rs _ P _ Lk A|n q t rs _ P _ Lk A].
  - exact HI.
  - split; simpl; [intros ? []|exact Hl].
  - split; simpl; [|exact Hl]. intros m I. apply Hq. eapply pop_in; eauto.
  - split; simpl.
    + intros m I. apply in_app_or in I as [I|I]; [apply Hq; eapply pop_in; eauto|].
      apply children_parent in I as (_ & -> & D). right; exact D.
    + intros e I. apply in_app_or in I as [I|[<-|[]]]; [apply Hl; exact I|]. simpl. apply Hq. eapply pop_head_in; eauto.
Qed.

Lemma run_depths_ok fuel : forall fifo s, depths_ok s -> depths_ok (run fuel fifo c h s).
Proof. induction fuel as [|f IH]; simpl; intros fifo s H; [exact H|]. apply IH. apply step_depths_ok. exact H. Qed.

(* ---------- C05: breadth first (front-of-list discipline) ---------- *)
Definition layered (s : st) : Prop :=
  exists d A B, queue s = A ++ B /\ (forall n, In n A -> n_depth n = d) /\ (forall n, In n B -> n_depth n = S d) /\
                (forall e, In e (log s) -> (snd e <= d)%nat) /\ StronglySorted le (map snd (log s)).

Lemma ssorted_snoc l x : StronglySorted le l -> (forall y, In y l -> (y <= x)%nat) -> StronglySorted le (l ++ [x]).
Proof.
  induction l as [|a l IH]; simpl; intros S F; [repeat constructor|].
  inversion S as [|? ? S' Fa]; subst. constructor.
  - apply IH; [exact S'|]. intros y I; apply F; right; exact I.
  - apply Forall_app; split; [exact Fa|]. constructor; [apply F; left; reflexivity|constructor].
Qed.

Lemma step_layered s : layered s -> layered (step true c h s).
Proof.
  intros HI. pose proof HI as (d & A & B & Q & HA & HB & HL & HS).
  destruct (step_cases true s) as [|n q _ P _|n q v t rs _ P _ Lk At|n q t rs _ P _ Lk At].
  - exact HI.
  - exists d, [], []. simpl. split; [reflexivity|]. split; [intros ? []|]. split; [intros ? []|]. split; assumption.
  - (* cached object: only the queue shrinks *)
    simpl in P. rewrite Q in P. destruct A as [|a A'].
    + destruct B as [|b B']; [discriminate|]. simpl in P. inversion P; subst b B'.
      exists (S d), q, []. simpl. rewrite app_nil_r.
      split; [reflexivity|]. split; [intros m I; apply HB; right; exact I|]. split; [intros ? []|].
      split; [intros e I; specialize (HL e I); lia | exact HS].
    + simpl in P. inversion P; subst a q. exists d, A', B. simpl.
      split; [reflexivity|]. split; [intros m I; apply HA; right; exact I|]. split; [exact HB|]. split; assumption.
  - simpl in P. rewrite Q in P.
    assert (K : forall m, In m (children_of c h (n_oid n) (n_depth n) (S (length (cache s)))) -> n_depth m = S (n_depth n)).
    { intros m I. apply children_parent in I. tauto. }
    destruct A as [|a A'].
    + destruct B as [|b B']; [discriminate|]. simpl in P. inversion P; subst b B'.
      assert (Dn : n_depth n = S d) by (apply HB; left; reflexivity).
      exists (S d), q, (children_of c h (n_oid n) (n_depth n) (S (length (cache s)))). simpl.
      split; [reflexivity|]. split; [intros m I; apply HB; right; exact I|].
      split; [intros m I; rewrite (K m I), Dn; reflexivity|].
      split.
      * intros e I. apply in_app_or in I as [I|[<-|[]]]; [specialize (HL e I); lia | simpl; lia].
      * rewrite map_app. simpl. apply ssorted_snoc; [exact HS|].
        intros y I. apply in_map_iff in I as (e & <- & I). specialize (HL e I). lia.
    + simpl in P. inversion P; subst a q.
      assert (Dn : n_depth n = d) by (apply HA; left; reflexivity).
      exists d, A', (B ++ children_of c h (n_oid n) (n_depth n) (S (length (cache s)))). simpl.
      split; [rewrite app_assoc; reflexivity|]. split; [intros m I; apply HA; right; exact I|].
      split; [intros m I; apply in_app_or in I as [I|I]; [apply HB; exact I | rewrite (K m I), Dn; reflexivity]|].
      split.
      * intros e I. apply in_app_or in I as [I|[<-|[]]]; [apply HL; exact I | simpl; lia].
      * rewrite map_app. simpl. apply ssorted_snoc; [exact HS|].
        intros y I. apply in_map_iff in I as (e & <- & I). specialize (HL e I). lia.
Qed.

Lemma run_layered fuel : forall s, layered s -> layered (run fuel true c h s).
Proof. induction fuel as [|f IH]; simpl; intros s H; [exact H|]. apply IH. apply step_layered. exact H. Qed.

(* ---------- C05: collection size cap ---------- *)
Definition par_is (v : nat) (n : node) : bool := match n_par n with PVar w => Nat.eqb w v | PRoot => false end.
Definition qcount (v : nat) (q : list node) : nat := length (filter (par_is v) q).
Definition kid_bound (o : nat) : nat :=
  match o_kind (hget h o) with
  | KLeaf => 0 | KDict ch => length ch | KSeq el => Nat.min (max_coll c) (length el) | KObj a => length a
  end.

Lemma number_length l : forall i, length (number i l) = length l.
Proof. induction l as [|x r IH]; simpl; intros i; [reflexivity|]. rewrite IH. reflexivity. Qed.

Lemma children_of_length o d v : (length (children_of c h o d v) <= kid_bound o)%nat.
Proof.
  unfold children_of, kid_bound. destruct (max_depth c <=? d + 1)%nat; [simpl; lia|].
  destruct (o_kind (hget h o)); simpl; rewrite ?map_length, ?number_length, ?firstn_length; lia.
Qed.

Lemma qcount_app v a b : qcount v (a ++ b) = (qcount v a + qcount v b)%nat.
Proof. unfold qcount. rewrite filter_app, app_length. reflexivity. Qed.

Lemma qcount_all v l : (forall n, In n l -> n_par n = PVar v) -> qcount v l = length l.
Proof.
  unfold qcount. induction l as [|x r IH]; simpl; intros H; [reflexivity|].
  unfold par_is at 1. rewrite (H x (or_introl eq_refl)), Nat.eqb_refl. simpl. f_equal. apply IH. intros; apply H; right; assumption.
Qed.

Lemma qcount_none v l : (forall n, In n l -> n_par n <> PVar v) -> qcount v l = 0%nat.
Proof.
  unfold qcount. induction l as [|x r IH]; simpl; intros H; [reflexivity|].
  unfold par_is at 1. destruct (n_par x) as [|w] eqn:E; [apply IH; intros; apply H; right; assumption|].
  destruct (Nat.eqb_spec w v) as [->|N]; [exfalso; apply (H x (or_introl eq_refl)); exact E|].
  apply IH; intros; apply H; right; assumption.
Qed.

Definition size_ok (s : st) : Prop :=
  forall v x, In (v, x) (table s) -> (length (v_children x) + qcount v (queue s) <= kid_bound (v_oid x))%nat.

Lemma qcount_cons v n q : qcount v (n :: q) = ((if par_is v n then 1 else 0) + qcount v q)%nat.
Proof. unfold qcount. simpl. destruct (par_is v n); reflexivity. Qed.

Lemma par_is_root v n : n_par n = PRoot -> par_is v n = false.
Proof. unfold par_is. intros ->. reflexivity. Qed.
Lemma par_is_var v n p : n_par n = PVar p -> par_is v n = Nat.eqb p v.
Proof. unfold par_is. intros ->. reflexivity. Qed.

Lemma step_size_ok s : refs_valid s -> size_ok s -> size_ok (step true c h s).
Proof.
  intros (Hr & Hc & Hq & Hd) HS.
  destruct (step_cases true s) as [|n q _ P _|n q v t rs _ P _ Lk At|n q t rs _ P _ Lk At].
  - exact HS.
  - intros w x I. simpl in *. specialize (HS w x I). unfold qcount at 1. simpl. lia.
  - simpl in P. destruct (queue s) as [|n0 q0] eqn:Q; [discriminate|]. inversion P; subst n0 q0. clear P.
    unfold size_ok in HS. rewrite Q in HS.
    intros w x I. simpl in *.
    destruct (n_par n) as [|p] eqn:Pn; simpl in At; inversion At; subst; clear At.
    + specialize (HS w x I). rewrite qcount_cons, (par_is_root _ _ Pn) in HS. exact HS.
    + apply add_child_tbl_in in I as [I|[y [I [-> ->]]]].
      * specialize (HS w x I). rewrite qcount_cons in HS. lia.
      * specialize (HS p y I). rewrite qcount_cons, (par_is_var _ _ _ Pn), Nat.eqb_refl in HS.
        simpl. rewrite app_length. simpl. lia.
  - simpl in P. destruct (queue s) as [|n0 q0] eqn:Q; [discriminate|]. inversion P; subst n0 q0. clear P.
    unfold size_ok in HS. rewrite Q in HS.
    set (v := S (length (cache s))) in *.
    assert (Fresh : ~ In v (dom (table s))).
    { intros F. apply Hd in F. unfold valid, v in F. lia. }
    assert (Kp : forall m, In m (children_of c h (n_oid n) (n_depth n) v) -> n_par m = PVar v).
    { intros m I. apply children_parent in I. tauto. }
    assert (Qv : qcount v q = 0%nat).
    { apply qcount_none. intros m I E. apply Fresh. eapply Hq; [right; exact I | exact E]. }
    assert (Other : forall w, w <> v -> qcount w (children_of c h (n_oid n) (n_depth n) v) = 0%nat).
    { intros w N. apply qcount_none. intros m I E. rewrite (Kp m I) in E. inversion E. congruence. }
    assert (Old : forall w x, In (w, x) (table s) -> w <> v).
    { intros w x I E. apply Fresh. subst w. apply in_map_iff. exists (v, x). split; [reflexivity | exact I]. }
    intros w x I. simpl in *. rewrite qcount_app.
    destruct (n_par n) as [|p] eqn:Pn; simpl in At; inversion At; subst; clear At.
    + apply in_app_or in I as [I|[I|[]]].
      * rewrite (Other w (Old _ _ I)). specialize (HS w x I). rewrite qcount_cons in HS. lia.
      * inversion I; subst. simpl. rewrite Qv, (qcount_all _ _ Kp). apply children_of_length.
    + apply add_child_tbl_in in I as [I|[y [I [-> ->]]]].
      * apply in_app_or in I as [I|[I|[]]].
        -- rewrite (Other w (Old _ _ I)). specialize (HS w x I). rewrite qcount_cons in HS. lia.
        -- inversion I; subst. simpl. rewrite Qv, (qcount_all _ _ Kp). apply children_of_length.
      * apply in_app_or in I as [I|[I|[]]].
        -- rewrite (Other p (Old _ _ I)). specialize (HS p y I).
           rewrite qcount_cons, (par_is_var _ _ _ Pn), Nat.eqb_refl in HS. simpl. rewrite app_length. simpl. lia.
        -- inversion I; subst. exfalso. apply Fresh. eapply Hq; [left; reflexivity | exact Pn].
Qed.

Lemma run_size_ok fuel : forall s, refs_valid s -> size_ok s -> size_ok (run fuel true c h s).
Proof.
  induction fuel as [|f IH]; simpl; intros s R H; [exact H|].
  apply IH; [apply step_refs_valid; exact R | apply step_size_ok; assumption].
Qed.

(* ---------- the state in which process_variable starts a traversal ---------- *)
Definition init (cs : list nat) (tbl : list (nat * var)) (name : str) (o : nat) : st :=
  {| cache := cs; table := tbl; roots := []; queue := [root_node name o]; stopped := false; log := [] |}.

Lemma init_depths_ok cs tbl name o : depths_ok (init cs tbl name o).
Proof. split; simpl; [intros n [<-|[]]; left; reflexivity | intros ? []]. Qed.

Lemma init_layered cs tbl name o : layered (init cs tbl name o).
Proof.
  exists 0%nat, [root_node name o], []. simpl.
  split; [reflexivity|]. split; [intros m [<-|[]]; reflexivity|]. split; [intros ? []|]. split; [intros ? []|constructor].
Qed.
End Step.

(* ---------- the whole snapshot: frames, then watches, on one cache ---------- *)
Section Snapshot.
Variables (c : cfg) (h : heap).

Definition acc_ok (a : acc) : Prop := (length (a_cache a) <= S (max_vars c))%nat /\ NoDup (a_cache a).

Lemma collect_root_ok fuel fifo a tbl name o :
  acc_ok a -> acc_ok (fst (fst (collect_root fuel fifo c h a tbl name o))).
Proof.
  intros [Hc Hd]. unfold collect_root. destruct (lookup_cache (a_cache a) o); simpl; [split; assumption|].
  split; [apply run_count; [lia | exact Hc] | apply run_nodup; exact Hd].
Qed.

Lemma collect_frame_ok fuel fifo a f : acc_ok a -> acc_ok (fst (collect_frame fuel fifo c h a f)).
Proof.
  intros H. unfold collect_frame. destruct (fr_collect f); [|exact H].
  pose proof (collect_root_ok fuel fifo a (a_table a) LOCALS (fr_locals f) H) as R.
  destruct (collect_root fuel fifo c h a (a_table a) LOCALS (fr_locals f)) as [[a1 t1] r]. simpl in R.
  destruct r as [v|]; [destruct (tlookup v t1)|]; exact R.
Qed.

Lemma collect_frames_ok fuel fifo fs : forall a, acc_ok a -> acc_ok (fst (collect_frames fuel fifo c h a fs)).
Proof.
  induction fs as [|f r IH]; intros a H; simpl; [exact H|].
  pose proof (collect_frame_ok fuel fifo a f H) as H1.
  destruct (collect_frame fuel fifo c h a f) as [a1 vs]. simpl in H1.
  specialize (IH a1 H1). destruct (collect_frames fuel fifo c h a1 r) as [a2 rest]. exact IH.
Qed.

Lemma collect_watch_ok fuel fifo a w : acc_ok a -> acc_ok (fst (collect_watch fuel fifo c h a w)).
Proof.
  intros H. unfold collect_watch.
  pose proof (collect_root_ok fuel fifo a [] (fst w) (snd w) H) as R.
  destruct (collect_root fuel fifo c h a [] (fst w) (snd w)) as [[a1 t1] r]. simpl in R.
  destruct r; exact R.
Qed.

Lemma collect_watches_ok fuel fifo ws : forall a, acc_ok a -> acc_ok (fst (collect_watches fuel fifo c h a ws)).
Proof.
  induction ws as [|w r IH]; intros a H; simpl; [exact H|].
  pose proof (collect_watch_ok fuel fifo a w H) as H1.
  destruct (collect_watch fuel fifo c h a w) as [a1 x]. simpl in H1.
  specialize (IH a1 H1). destruct (collect_watches fuel fifo c h a1 r) as [a2 rest]. exact IH.
Qed.

(* C05: however large the data, frames and watches together hand out at most max_variables + 1
   ids; C07: no object is given two ids *)
Theorem snapshot_budget fuel fifo fs ws :
  let o := snapshot fuel fifo c h fs ws in
  (length (so_cache o) <= S (max_vars c))%nat /\ NoDup (so_cache o).
Proof.
  unfold snapshot.
  set (a0 := {| a_cache := []; a_table := []; a_ok := true |}).
  assert (H0 : acc_ok a0) by (split; simpl; [lia | constructor]).
  pose proof (collect_frames_ok fuel fifo fs a0 H0) as H1.
  destruct (collect_frames fuel fifo c h a0 fs) as [a1 frs]. simpl in H1.
  pose proof (collect_watches_ok fuel fifo ws a1 H1) as H2.
  destruct (collect_watches fuel fifo c h a1 ws) as [a2 wrs]. simpl in H2. exact H2.
Qed.

(* two references carry the same id exactly when they denote the same object *)
Theorem same_id_same_object cs o1 o2 v :
  lookup_cache cs o1 = Some v -> lookup_cache cs o2 = Some v -> o1 = o2.
Proof.
  unfold lookup_cache. intros H1 H2. apply index_of_nth in H1. apply index_of_nth in H2. congruence.
Qed.
End Snapshot.

(* ---------- C07: termination (cyclic and self-referential data included) ---------- *)
Section Termination.
Variables (c : cfg) (h : heap).

Definition objkids (ob : obj) : nat :=
  match o_kind ob with
  | KLeaf => 0 | KDict ch => length ch | KSeq el => Nat.min (max_coll c) (length el) | KObj a => length a
  end.
Definition hmax : nat := fold_right Nat.max 0%nat (map objkids h).

Lemma in_le_max l x : In x l -> (x <= fold_right Nat.max 0%nat l)%nat.
Proof. induction l as [|y r IH]; simpl; intros I; [destruct I|]. destruct I as [->|I]; [lia|]. specialize (IH I). lia. Qed.

Lemma kid_bound_hmax o : (kid_bound c h o <= hmax)%nat.
Proof.
  unfold kid_bound, hmax. fold (objkids (hget h o)). unfold hget.
  destruct (Nat.lt_ge_cases o (length h)) as [L|G].
  - apply in_le_max. apply in_map. apply nth_In. exact L.
  - rewrite nth_overflow by exact G. unfold objkids, dummy_obj. simpl. lia.
Qed.

Lemma pop_length fifo q n r : pop fifo q = Some (n, r) -> length q = S (length r).
Proof.
  unfold pop. destruct fifo.
  - destruct q as [|x q']; intros E; inversion E; subst; reflexivity.
  - destruct (rev q) as [|x q'] eqn:R; intros E; inversion E; subst.
    rewrite <- (rev_involutive q), R. simpl. rewrite app_length, !rev_length. simpl. lia.
Qed.

Definition mu (s : st) : nat := ((S (S (max_vars c)) - length (cache s)) * S hmax + length (queue s))%nat.

Lemma finished_stable fifo s : finished s = true -> step fifo c h s = s.
Proof.
  unfold finished, step. destruct (stopped s); [reflexivity|]. simpl. destruct (queue s) eqn:Q; [|discriminate].
  intros _. unfold pop. destruct fifo; simpl; reflexivity.
Qed.

Lemma step_progress fifo s :
  finished s = false -> finished (step fifo c h s) = true \/ (mu (step fifo c h s) < mu s)%nat.
Proof.
  intros F. destruct (step_cases c h fifo s) as [I|n q St P Lt|n q v t rs St P Le Lk A|n q t rs St P Le Lk A].
  - exfalso. unfold finished in F. destruct I as [I|I]; [rewrite I in F; discriminate|].
    destruct (stopped s); [discriminate|]. simpl in F. destruct (queue s) as [|x q'] eqn:Q; [discriminate|].
    unfold pop in I. destruct fifo; [discriminate|]. destruct (rev (x :: q')) eqn:R; [|discriminate].
    apply (f_equal (@length node)) in R. rewrite rev_length in R. discriminate.
  - left. reflexivity.
  - right. unfold mu. cbn [cache queue]. apply pop_length in P. lia.
  - right. unfold mu. cbn [cache queue]. apply pop_length in P. rewrite !app_length. cbn [length].
    pose proof (children_of_length c h (n_oid n) (n_depth n) (S (length (cache s)))) as K.
    pose proof (kid_bound_hmax (n_oid n)) as M.
    replace (S (S (max_vars c)) - (length (cache s) + 1))%nat with ((S (S (max_vars c)) - length (cache s)) - 1)%nat by lia.
    assert (H2 : (2 <= S (S (max_vars c)) - length (cache s))%nat) by lia.
    set (X := (S (S (max_vars c)) - length (cache s))%nat) in *.
    assert (E : ((X - 1) * S hmax + S hmax = X * S hmax)%nat).
    { destruct X as [|x]; [lia|]. simpl. rewrite Nat.sub_0_r. lia. }
    lia.
Qed.

(* the traversal of ANY heap - cyclic, self-referential, arbitrarily shared - is over after mu steps *)
Theorem run_terminates fifo : forall fuel s, (mu s <= fuel)%nat -> finished (run fuel fifo c h s) = true.
Proof.
  induction fuel as [|f IH]; intros s L.
  - simpl. unfold mu in L. unfold finished. destruct (stopped s); [reflexivity|]. simpl.
    destruct (queue s); [reflexivity|]. simpl in L. lia.
  - simpl. destruct (finished s) eqn:F.
    + rewrite (finished_stable fifo s F). clear L IH. induction f as [|g IHg]; simpl; [exact F|].
      rewrite (finished_stable fifo s F). exact IHg.
    + destruct (step_progress fifo s F) as [D|D].
      * clear IH L. remember (step fifo c h s) as s1. clear Heqs1. induction f as [|g IHg]; simpl; [exact D|].
        rewrite (finished_stable fifo s1 D). exact IHg.
      * apply IH. lia.
Qed.
End Termination.
