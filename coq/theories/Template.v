(* Template.v -- log message templates:
     processor/context/log_action.py  LogActionContext.process_log (string.Formatter with get_field
                                      replaced by eval_watch), LogActionResult.process
     processor/context/snapshot_action.py  log message and LOG watches recorded on the snapshot
   The brace scanner is CPython's (string.Formatter / _string.formatter_parser); it is hand-modelled
   here for the grammar  (literal | '{{' | '}}' | '{' expr '}')*  where expr holds no brace, colon or
   exclamation mark, and validated against CPython on every run. *)
From Deep Require Import Base Config Limiter Cond.

Definition LB : Z := 123.   (* { *)
Definition RB : Z := 125.   (* } *)
Inductive seg := Lit (c : Z) | Field (e : str).

(* None: the template is rejected (ValueError: single brace, unterminated field, nested brace) *)
Fixpoint scan (s : str) (infield : option str) : option (list seg) :=
  match s, infield with
  | [], None => Some []
  | [], Some _ => None
  | c :: r, None =>
      if c =? LB then
        match r with
        | c2 :: r' => if c2 =? LB then option_map (cons (Lit LB)) (scan r' None) else scan r (Some [])
        | [] => None
        end
      else if c =? RB then
        match r with
        | c2 :: r' => if c2 =? RB then option_map (cons (Lit RB)) (scan r' None) else None
        | [] => None
        end
      else option_map (cons (Lit c)) (scan r None)
  | c :: r, Some acc =>
      if c =? RB then option_map (cons (Field (rev acc))) (scan r None)
      else if c =? LB then None
      else scan r (Some (c :: acc))
  end.

Definition PREFIX : str := [91; 100; 101; 101; 112; 93; 32].    (* "[deep] " *)
(* a field is replaced by the text of its value, or by the text of the error it raised *)
Definition field_text (ev : str -> eres) (e : str) : str :=
  match ev e with EVal t => t | EErr _ m => m end.
Definition seg_text (ev : str -> eres) (g : seg) : str :=
  match g with Lit c => [c] | Field e => field_text ev e end.
Definition render (tpl : str) (ev : str -> eres) : option str :=
  option_map (fun segs => PREFIX ++ flat_map (seg_text ev) segs) (scan tpl None).

(* printing segments back into a template *)
Definition print_seg (g : seg) : str :=
  match g with
  | Lit c => if c =? LB then [LB; LB] else if c =? RB then [RB; RB] else [c]
  | Field e => LB :: e ++ [RB]
  end.
Definition print (segs : list seg) : str := flat_map print_seg segs.
Definition plain (c : Z) : bool := negb (c =? LB) && negb (c =? RB).
Definition wf_seg (g : seg) : bool :=
  match g with Lit _ => true | Field e => forallb plain e && match e with [] => false | c :: _ => true end end.

(* the fields of a template, in order: one LOG watch each *)
Definition fields (segs : list seg) : list str :=
  flat_map (fun g => match g with Field e => [e] | Lit _ => [] end) segs.

(* what the tracepoint logger receives *)
Record log_record := { lr_msg : str; lr_tp : str; lr_ctx : str }.
Definition emit (msg tp_id ctx_id : str) : log_record := {| lr_msg := msg; lr_tp := tp_id; lr_ctx := ctx_id |}.

(* messages of a log action over a hit history: one per collected hit *)
Definition log_run (l : lim) (tpl : str) (hs : list (hit * (str -> eres))) : list (option str) :=
  let bs := snd (run l stats0 (map fst hs)) in
  flat_map (fun p : bool * (hit * (str -> eres)) => if fst p then [render tpl (snd (snd p))] else []) (combine bs hs).

(* ---------- correspondence ---------- *)
Record tpl_case := { tc_tpl : str; tc_env : list (str * eres); tc_obs : option str }.
Definition env_fun (env : list (str * eres)) (e : str) : eres :=
  match alookup e env with Some r => r | None => EErr [] [] end.
Definition check_tpl_case (c : tpl_case) : bool :=
  option_eqb str_eqb (render (tc_tpl c) (env_fun (tc_env c))) (tc_obs c).
(* the fields the scanner finds are the expressions evaluated, in order *)
Record fields_case := { fc_tpl : str; fc_obs_fields : list str }.
Definition check_fields_case (c : fields_case) : bool :=
  match scan (fc_tpl c) None with
  | Some segs => list_eqb str_eqb (fields segs) (fc_obs_fields c)
  | None => false
  end.
