(* TieEvent.v -- one trace event through the handler as it is in /repo/src NOW: TriggerHandler._trace_call and
   location_from_event, translated statement by statement on every run (gen/PEvent.v).
   (1) a NORMAL FORM of the translated _trace_call for every instantiation of what it calls: nothing when inert; pending
       callbacks first (line / return / exception events); no tracepoints: stop tracing the scope; otherwise every action of the
       matching triggers gets ONE attempt, in order - `if can_trigger and acquire: process` -, then the callbacks the actions
       registered are pushed as one pending context.
   (2) instantiated with the translated matching (gen/PMatch.v), and with any per-action gate / acquire / process whose turn is
       the limiter's step (shown for the translated gate and acquire in TieEventHit.v - a library file that no property file
       imports, so that a change to the limiter alarms C04 and not C03), it is Handler.handle, the composition the C03
       theorems are proved about. *)
From Deep Require Import Base Config Limiter Cond Match Handler PureSupport TieMatch.
From DeepGen Require Import PMatch PEvent.
From Coq Require Import Lia.
Local Open Scope Z_scope.

(* the location of an event: the event kind as it came, the BASE NAME of the code's file, the frame's line, the code's name *)
Lemma tie_location_from_event {F} (co_filename : F -> str) (f_lineno : F -> Z) (co_name : F -> str) ev fr :
  gen_location_from_event co_filename f_lineno co_name ev fr = (ev, basename (co_filename fr), f_lineno fr, co_name fr).
Proof. reflexivity. Qed.

Section NormalForm.
Context {S A CB PC F T : Type} (inert : bool) (lfe : str -> F -> str * str * Z * str) (cset : S -> bool)
        (pcb : str -> str -> Z -> str -> S -> S) (tp_config : list T) (actions_for : str -> str -> Z -> str -> list A)
        (can_trigger : A -> S -> bool) (acquire : A -> S -> bool * S) (process : A -> S -> S) (callbacks_of : S -> list CB)
        (mk_pending : str -> str -> Z -> str -> list CB -> PC) (push_pending : PC -> S -> S).

(* one action's turn *)
Definition hit_step (acc : S) (a : A) : S :=
  if can_trigger a acc then let '(ok, s') := acquire a acc in if ok then process a s' else s' else acc.
Definition completing (ev : str) : bool :=
  existsb (str_eqb ev) [[108; 105; 110; 101]; [114; 101; 116; 117; 114; 110]; [101; 120; 99; 101; 112; 116; 105; 111; 110]].

Lemma len_cons_nonzero {X} (x : X) l : (Z.of_nat (length (x :: l)) =? 0) = false.
Proof. apply Z.eqb_neq. cbn [length]. lia. Qed.
Lemma len_cons_pos {X} (x : X) l : (Z.of_nat (length (x :: l)) >? 0) = true.
Proof. rewrite Z.gtb_ltb. apply Z.ltb_lt. cbn [length]. lia. Qed.

Lemma trace_call_normal_form s frame event :
  gen_trace_call inert lfe cset pcb tp_config actions_for can_trigger acquire process callbacks_of mk_pending push_pending s frame event =
  if inert then (s, false) else
  let '(ev, file, line, fn) := lfe event frame in
  let s1 := if completing ev && cset s then pcb ev file line fn s else s in
  match tp_config with
  | [] => (s1, false)
  | _ :: _ =>
    match actions_for ev file line fn with
    | [] => (s1, true)
    | a :: r =>
      let s2 := fold_left hit_step (a :: r) s1 in
      match callbacks_of s2 with
      | [] => (s2, true)
      | c :: cs => (push_pending (mk_pending ev file line fn (c :: cs)) s2, true)
      end
    end
  end.
Proof.
  unfold gen_trace_call. cbv beta. destruct inert; [reflexivity|].
  destruct (lfe event frame) as [[[ev file] line] fn]. fold (completing ev).
  destruct (completing ev && cset s).
  - destruct tp_config as [|t ts]; [reflexivity|]. rewrite len_cons_nonzero.
    destruct (actions_for ev file line fn) as [|a r]; [reflexivity|]. rewrite len_cons_nonzero.
    change (fun (acc_ : S) (action_8 : A) => _) with hit_step.
    destruct (callbacks_of (fold_left hit_step (a :: r) (pcb ev file line fn s))) as [|c cs].
    + reflexivity.
    + rewrite len_cons_pos. reflexivity.
  - destruct tp_config as [|t ts]; [reflexivity|]. rewrite len_cons_nonzero.
    destruct (actions_for ev file line fn) as [|a r]; [reflexivity|]. rewrite len_cons_nonzero.
    change (fun (acc_ : S) (action_18 : A) => _) with hit_step.
    destruct (callbacks_of (fold_left hit_step (a :: r) s)) as [|c cs].
    + reflexivity.
    + rewrite len_cons_pos. reflexivity.
Qed.
End NormalForm.

(* ---------- the composition: the translated event handling on the model's per-action statistics ---------- *)
Section Composition.
Variables (act : nat -> haction) (e : hevent).

Definition hs := (hstate * list nat)%type.
Variables (m_can : nat -> hs -> bool) (m_acquire : nat -> hs -> bool * hs) (m_process : nat -> hs -> hs).
Definition flatten (trs : list trigger) : installed :=
  flat_map (fun t => map (fun a => (t_loc t, act a)) (t_actions t)) trs.
(* what is assumed of one action's turn: it is the model's step on that action's own statistics *)
Definition turn_is_step : Prop := forall (acc : hs) (a : nat) (l : loc), at_loc l (he_ev e) = true ->
  (forall x, fst (hit_step m_can m_acquire m_process acc a) x = fst (handle1 e acc (l, act a)) x) /\
  snd (hit_step m_can m_acquire m_process acc a) = snd (handle1 e acc (l, act a)).
Hypothesis hit_step_model : turn_is_step.

(* the statistics are a function of the action: equality of states is pointwise *)
Definition hs_eq (x y : hs) : Prop := (forall a, fst x a = fst y a) /\ snd x = snd y.
Lemma hs_eq_refl x : hs_eq x x.
Proof. split; reflexivity. Qed.
Lemma hs_eq_trans x y z : hs_eq x y -> hs_eq y z -> hs_eq x z.
Proof. intros [A B] [C D]. split; [intros a; rewrite A; apply C | rewrite B; exact D]. Qed.

Lemma handle1_congr acc acc' p : hs_eq acc acc' -> hs_eq (handle1 e acc p) (handle1 e acc' p).
Proof.
  intros [A B]. unfold handle1. destruct (at_loc (fst p) (he_ev e)); [|split; assumption].
  rewrite (A (ha_id (snd p))). destruct (step _ _ _) as [s' b]. cbn [fst snd]. split.
  - intros a. cbn [fst]. unfold upd. destruct (Nat.eqb a (ha_id (snd p))); [reflexivity|apply A].
  - cbn [snd]. rewrite B. reflexivity.
Qed.

Lemma fold_handle1_congr l : forall acc acc', hs_eq acc acc' -> hs_eq (fold_left (handle1 e) l acc) (fold_left (handle1 e) l acc').
Proof. induction l as [|p r IH]; intros acc acc' H; [exact H|]. cbn [fold_left]. apply IH, handle1_congr, H. Qed.

(* the actions of ONE trigger: all of them get their turn when the trigger's location matches, none otherwise *)
Lemma fold_one_trigger (l : loc) : forall acts acc acc', hs_eq acc acc' ->
  hs_eq (if at_loc l (he_ev e) then fold_left (hit_step m_can m_acquire m_process) acts acc else acc)
        (fold_left (handle1 e) (map (fun a => (l, act a)) acts) acc').
Proof.
  destruct (at_loc l (he_ev e)) eqn:M.
  - induction acts as [|a r IH]; intros acc acc' H; [exact H|]. cbn [fold_left map]. apply IH.
    destruct (hit_step_model acc a l M) as [P Q].
    eapply hs_eq_trans; [split; [exact P|exact Q]|]. apply handle1_congr, H.
  - induction acts as [|a r IH]; intros acc acc' H; [exact H|]. cbn [fold_left map].
    apply IH. unfold handle1. cbn [fst]. rewrite M. exact H.
Qed.

Lemma fold_triggers : forall trs acc acc', hs_eq acc acc' ->
  hs_eq (fold_left (hit_step m_can m_acquire m_process) (actions_for trs (he_ev e)) acc) (fold_left (handle1 e) (flatten trs) acc').
Proof.
  induction trs as [|t r IH]; intros acc acc' H; [exact H|].
  unfold actions_for, flatten. cbn [flat_map]. rewrite !fold_left_app. apply IH.
  pose proof (fold_one_trigger (t_loc t) (t_actions t) acc acc' H) as K.
  destruct (at_loc (t_loc t) (he_ev e)); [exact K|]. cbn [fold_left]. exact K.
Qed.

(* THE TIE: the translated _trace_call, with the translated matching and the translated gate / acquire, on an event of the
   model (no deferred callbacks pending or registered: those are Callbacks.v / TieCallbacks.v) is Handler.handle *)
Definition code_event (trs : list trigger) (st : hstate) : hs * bool :=
  let ev := he_ev e in
  gen_trace_call false (fun (k : str) (_ : unit) => (k, e_file ev, e_line ev, e_func ev)) (fun _ : hs => false)
    (fun _ _ _ _ (s : hs) => s) trs (gen_actions_for_location trs) m_can m_acquire m_process (fun _ : hs => @nil unit)
    (fun _ _ _ _ (_ : list unit) => tt) (fun (_ : unit) (s : hs) => s) (st, []) tt (kind_name (e_kind ev)).

Theorem tie_event (trs : list trigger) (st : hstate) :
  hs_eq (fst (code_event trs st)) (handle (flatten trs) st e) /\ snd (code_event trs st) = negb (match trs with [] => true | _ => false end).
Proof.
  unfold code_event. rewrite trace_call_normal_form. cbv zeta.
  rewrite Bool.andb_false_r.
  destruct trs as [|t r]; [split; [apply hs_eq_refl|reflexivity]|].
  pose proof (tie_actions_for_location (t :: r) (he_ev e)) as TA. rewrite TA.
  pose proof (fold_triggers (t :: r) (st, []) (st, []) (hs_eq_refl _)) as K. unfold handle.
  destruct (actions_for (t :: r) (he_ev e)) as [|a acts]; split; try reflexivity; exact K.
Qed.
End Composition.
