(* TieNames.v -- how children are NAMED and ordered, as it is in /repo/src NOW (gen/PChildren.v, translated on every run):
   correct_names (private attribute names) and process_list_breadth_first (the first max_collection_size elements, in order,
   named by their index).  Kept apart from TieChildren.v so that a change to the depth gate / the no-child types alarms the
   bounds (C05), not the fidelity of names (C02). *)
From Deep Require Import Base Config Collector PureSupport.
From DeepGen Require Import PChildren.
From Coq Require Import Lia.
Local Open Scope Z_scope.

(* ---------- correct_names ---------- *)
Lemma py_slice_from_nat (s : str) n : py_slice_from s (Z.of_nat n) = skipn n s.
Proof.
  unfold py_slice_from. assert (Z.of_nat n <? 0 = false) as -> by (apply Z.ltb_ge; lia). rewrite Nat2Z.id. reflexivity.
Qed.

Lemma tie_correct_names ty name : gen_correct_names ty name = correct_name ty name.
Proof. unfold gen_correct_names, correct_name. cbn [app]. rewrite py_slice_from_nat. reflexivity. Qed.

(* ---------- process_list_breadth_first ---------- *)
Section ListCap.
Context {N P : Type} (mk : str -> nat -> P -> N) (K : nat) (p : P).

Definition list_step : bool * list N * Z -> nat -> bool * list N * Z :=
  fun acc_ v => let '(brk_, nodes, total) := acc_ in
    if brk_ then acc_
    else if total >=? Z.of_nat K then (true, nodes, total)
    else (false, nodes ++ [mk (py_str_int total) v p], total + 1).

Lemma fold_left_done l : forall acc t, fold_left list_step l (true, acc, t) = (true, acc, t).
Proof. induction l as [|x r IH]; intros acc t; [reflexivity|]. cbn [fold_left list_step]. apply IH. Qed.

Lemma py_str_int_nat i : py_str_int (Z.of_nat i) = print_nat i.
Proof. unfold py_str_int. assert (Z.of_nat i <? 0 = false) as -> by (apply Z.ltb_ge; lia). rewrite Nat2Z.id. reflexivity. Qed.

Lemma fold_left_cap l : forall i acc, (i <= K)%nat ->
  snd (fst (fold_left list_step l (false, acc, Z.of_nat i))) =
  acc ++ map (fun ix => mk (print_nat (fst ix)) (snd ix) p) (number i (firstn (K - i) l)).
Proof.
  induction l as [|x r IH]; intros i acc Hi.
  - rewrite firstn_nil. cbn. rewrite app_nil_r. reflexivity.
  - cbn [fold_left list_step].
    destruct (Z.geb_spec (Z.of_nat i) (Z.of_nat K)) as [G|G].
    + assert (i = K) as -> by lia. rewrite Nat.sub_diag. rewrite fold_left_done. cbn. rewrite app_nil_r. reflexivity.
    + replace (Z.of_nat i + 1) with (Z.of_nat (S i)) by lia. rewrite IH by lia.
      replace (K - i)%nat with (S (K - S i)) by lia. cbn [firstn number map fst snd].
      rewrite py_str_int_nat, <- app_assoc. reflexivity.
Qed.

(* the first max_collection_size elements, named by their index, in order *)
Lemma tie_process_list el :
  gen_process_list mk (Z.of_nat K) p el = map (fun ix => mk (print_nat (fst ix)) (snd ix) p) (number 0 (firstn K el)).
Proof.
  unfold gen_process_list.
  pose proof (fold_left_cap el 0 [] (Nat.le_0_l K)) as H. rewrite Nat.sub_0_r in H. cbn [app] in H.
  change (Z.of_nat 0) with 0 in H. change (fold_left _ el _) with (fold_left list_step el (false, [], 0)).
  destruct (fold_left list_step el (false, [], 0)) as [[b nodes] t]. exact H.
Qed.

Lemma number_length (l : list nat) : forall i, length (number i l) = length l.
Proof. induction l as [|x r IH]; intros i; [reflexivity|]. cbn. rewrite IH. reflexivity. Qed.

Lemma code_list_cap el : (length (gen_process_list mk (Z.of_nat K) p el) <= K)%nat
                         /\ length (gen_process_list mk (Z.of_nat K) p el) = Nat.min K (length el).
Proof.
  rewrite tie_process_list, map_length, number_length, firstn_length. split; [apply Nat.le_min_l|reflexivity].
Qed.
End ListCap.

