(* LimiterProofs.v -- rate limiting: sequential laws over every hit history, and the invariant of
   the interleaving semantics over every schedule of any number of threads. *)
From Deep Require Import Base Config Limiter.

Fixpoint count_true (bs : list bool) : nat :=
  match bs with [] => O | true :: r => S (count_true r) | false :: r => count_true r end.

(* adjacent elements are at least p apart *)
Fixpoint spaced (p : Z) (l : list Z) : Prop :=
  match l with
  | a :: ((b :: _) as r) => (p <= 0 \/ b - a >= p) /\ spaced p r
  | _ => True
  end.

Definition lastz (l : list Z) : Z := last l 0.

Lemma spaced_snoc p l x : spaced p l -> (l = [] \/ p <= 0 \/ x - lastz l >= p) -> spaced p (l ++ [x]).
Proof.
  induction l as [|a r IH]; simpl; intros S H; [exact I|].
  destruct r as [|b r'].
  - simpl. destruct H as [H|H]; [discriminate|]. unfold lastz in H; simpl in H. split; [lia|exact I].
  - destruct S as [S1 S2]. change ((a :: b :: r') ++ [x]) with (a :: ((b :: r') ++ [x])).
    simpl. split; [exact S1|]. apply IH; [exact S2|]. right. destruct H as [H|H]; [discriminate|].
    unfold lastz in *. simpl in H. simpl. exact H.
Qed.

Lemma lastz_snoc l x : lastz (l ++ [x]) = x.
Proof. unfold lastz. apply last_last. Qed.

(* ---------- one step ---------- *)
Lemma can_trigger_true l s ts :
  can_trigger l s ts = true <->
  (fc l = -1 \/ cnt s < fc l) /\ in_window l ts = true /\ (lastf s = 0 \/ fp l * 1000000 <= 0 \/ ts - lastf s >= fp l * 1000000).
Proof.
  unfold can_trigger.
  destruct (fc l =? -1) eqn:E1; destruct (fc l <=? cnt s) eqn:E2; destruct (in_window l ts) eqn:E3;
    destruct (lastf s =? 0) eqn:E4; destruct (0 <? fp l * 1000000) eqn:E6; destruct (ts - lastf s <? fp l * 1000000) eqn:E5; simpl;
    rewrite ?Z.eqb_eq, ?Z.eqb_neq, ?Z.leb_le, ?Z.leb_gt, ?Z.ltb_lt, ?Z.ltb_ge in *;
    split; try discriminate; try (intros _; repeat split; (lia || reflexivity || (left; lia) || (right; left; lia) || (right; right; lia)));
    try (intros (A & B & C); try discriminate; lia).
Qed.

(* ---------- sequential histories ---------- *)
(* generalised state invariant: acq is the list of fire times so far *)
Record SInv (l : lim) (s : stats) (acq : list Z) : Prop := {
  si_cnt : cnt s = Z.of_nat (length acq);
  si_last : acq <> [] -> lastf s = lastz acq;
  si_last0 : acq = [] -> lastf s = 0;
  si_pos : forall t, In t acq -> t > 0;
  si_win : forall t, In t acq -> in_window l t = true;
  si_spaced : spaced (fp l * 1000000) acq;
  si_bound : fc l <> -1 -> Z.of_nat (length acq) <= Z.max 0 (fc l)
}.

Lemma SInv_init l : SInv l stats0 [].
Proof. constructor; simpl; try reflexivity; try tauto; try lia. Qed.

Lemma SInv_fire l s acq ts :
  SInv l s acq -> ts > 0 -> can_trigger l s ts = true -> SInv l (fire s ts) (acq ++ [ts]).
Proof.
  intros [C L L0 P W S B] Hp Hc. apply can_trigger_true in Hc as (Hc1 & Hc2 & Hc3).
  constructor; simpl.
  - rewrite app_length; simpl. lia.
  - intros _. rewrite lastz_snoc. reflexivity.
  - intros E. destruct acq; discriminate.
  - intros t I. apply in_app_or in I as [I|[<-|[]]]; auto.
  - intros t I. apply in_app_or in I as [I|[<-|[]]]; auto.
  - apply spaced_snoc; [exact S|]. destruct acq as [|a r]; [left; reflexivity|right].
    rewrite <- L by discriminate. destruct Hc3 as [Hc3|Hc3]; [|exact Hc3].
    exfalso. assert (lastf s > 0). { rewrite L by discriminate. apply P. unfold lastz.
      destruct (exists_last (l := a :: r)) as (l' & x & E); [discriminate|]. rewrite E, last_last.
      apply in_or_app; right; left; reflexivity. } lia.
  - intros N. rewrite app_length; simpl. specialize (B N). destruct Hc1 as [Hc1|Hc1]; [contradiction|]. lia.
Qed.

Lemma run_inv l : forall hs s acq,
  SInv l s acq -> (forall h, In h hs -> h_ts h > 0) ->
  let '(s', bs) := run l s hs in
  SInv l s' (acq ++ fired hs bs) /\ length bs = length hs /\ length (fired hs bs) = count_true bs.
Proof.
  induction hs as [|h r IH]; intros s acq Inv Pos; simpl.
  - rewrite app_nil_r. auto.
  - unfold step. destruct (can_trigger l s (h_ts h) && h_cond h) eqn:E.
    + apply andb_true_iff in E as [E1 E2].
      assert (Inv1 : SInv l (fire s (h_ts h)) (acq ++ [h_ts h])).
      { apply SInv_fire; auto. apply Pos; left; reflexivity. }
      specialize (IH _ _ Inv1 (fun h0 I => Pos h0 (or_intror I))).
      destruct (run l (fire s (h_ts h)) r) as [s2 bs]. destruct IH as (A & B & C).
      simpl. rewrite <- app_assoc in A. simpl in A. split; [exact A|]. split; simpl; lia.
    + specialize (IH _ _ Inv (fun h0 I => Pos h0 (or_intror I))).
      destruct (run l s r) as [s2 bs]. destruct IH as (A & B & C). simpl. split; [exact A|]. split; simpl; lia.
Qed.

Theorem seq_count l hs :
  (forall h, In h hs -> h_ts h > 0) -> fc l <> -1 ->
  Z.of_nat (count_true (snd (run l stats0 hs))) <= Z.max 0 (fc l).
Proof.
  intros P N. pose proof (run_inv l hs stats0 [] (SInv_init l) P) as H.
  destruct (run l stats0 hs) as [s bs]. destruct H as (A & B & C). simpl in *.
  rewrite <- C. apply (si_bound _ _ _ A N).
Qed.

Theorem seq_spacing l hs :
  (forall h, In h hs -> h_ts h > 0) ->
  spaced (fp l * 1000000) (fired hs (snd (run l stats0 hs))).
Proof.
  intros P. pose proof (run_inv l hs stats0 [] (SInv_init l) P) as H.
  destruct (run l stats0 hs) as [s bs]. destruct H as (A & _). simpl in *. apply (si_spaced _ _ _ A).
Qed.

Theorem seq_window l hs t :
  (forall h, In h hs -> h_ts h > 0) ->
  In t (fired hs (snd (run l stats0 hs))) -> in_window l t = true.
Proof.
  intros P. pose proof (run_inv l hs stats0 [] (SInv_init l) P) as H.
  destruct (run l stats0 hs) as [s bs]. destruct H as (A & _). simpl in *. apply (si_win _ _ _ A).
Qed.

(* liveness of one hit, and "a rejected hit uses no budget" *)
Theorem step_live l s h :
  (fc l = -1 \/ cnt s < fc l) -> in_window l (h_ts h) = true ->
  (lastf s = 0 \/ fp l * 1000000 <= 0 \/ h_ts h - lastf s >= fp l * 1000000) -> h_cond h = true ->
  step l s h = (fire s (h_ts h), true).
Proof.
  intros A B C D. unfold step.
  assert (E : can_trigger l s (h_ts h) = true) by (apply can_trigger_true; auto).
  rewrite E, D. reflexivity.
Qed.

Theorem step_rejected_keeps_budget l s h : snd (step l s h) = false -> fst (step l s h) = s.
Proof. unfold step. destruct (can_trigger l s (h_ts h) && h_cond h); simpl; [discriminate|reflexivity]. Qed.

Theorem step_collects_only_if l s h :
  snd (step l s h) = true -> can_trigger l s (h_ts h) = true /\ h_cond h = true.
Proof.
  unfold step. destruct (can_trigger l s (h_ts h)); destruct (h_cond h); simpl; intros H; try discriminate; auto.
Qed.

Lemma run_all_rejected l s hs :
  (forall h, In h hs -> h_cond h = false) -> run l s hs = (s, map (fun _ => false) hs).
Proof.
  induction hs as [|h r IH]; intros F; simpl; [reflexivity|].
  unfold step. rewrite (F h (or_introl eq_refl)), andb_false_r. rewrite IH by (intros; apply F; right; assumption).
  reflexivity.
Qed.

Theorem rejected_hits_then_live l hs h :
  (forall x, In x hs -> h_cond x = false) ->
  (fc l = -1 \/ 0 < fc l) -> in_window l (h_ts h) = true -> h_cond h = true ->
  snd (run l stats0 (hs ++ [h])) = map (fun _ => false) hs ++ [true].
Proof.
  intros F A B C. revert F. induction hs as [|x r IH]; intros F; simpl.
  - rewrite step_live; simpl; auto.
  - unfold step at 1. rewrite (F x (or_introl eq_refl)), andb_false_r.
    specialize (IH (fun y I => F y (or_intror I))).
    destruct (run l stats0 (r ++ [h])) as [s2 bs]. simpl in *. rewrite IH. reflexivity.
Qed.

(* ---------- every schedule of any number of threads (locked discipline) ---------- *)
Definition is_acq (t : thread) : bool := match t_pc t with PAcquired => true | _ => false end.
Fixpoint count_acq (l : list thread) : nat :=
  match l with [] => O | t :: r => (if is_acq t then 1 else 0) + count_acq r end.

Lemma count_acq_upd l i t t' :
  nth_error l i = Some t ->
  (count_acq (upd l i t') + (if is_acq t then 1 else 0) = count_acq l + (if is_acq t' then 1 else 0))%nat.
Proof.
  revert i; induction l as [|x r IH]; intros [|i] H; simpl in *; try discriminate.
  - inversion H; subst. lia.
  - specialize (IH i H). lia.
Qed.

Lemma nth_error_upd_pos l i (t t' : thread) x :
  nth_error l i = Some t -> In x (upd l i t') -> x = t' \/ In x l.
Proof.
  revert i; induction l as [|y r IH]; intros [|i] H I; simpl in *; try discriminate.
  - destruct I as [I|I]; auto.
  - destruct I as [I|I]; auto. destruct (IH i H I); auto.
Qed.

Record CInv (l : lim) (c : cstate) : Prop := {
  ci_s : SInv l (c_stats c) (c_acq c);
  ci_pos : forall t, In t (c_threads c) -> t_ts t > 0;
  ci_cnt : (length (c_collected c) + count_acq (c_threads c) = length (c_acq c))%nat
}.

Lemma cstep_inv l c i : CInv l c -> CInv l (cstep true l c i).
Proof.
  intros [S P C]. unfold cstep. destruct (nth_error (c_threads c) i) as [t|] eqn:N; [|constructor; auto].
  assert (Pt : t_ts t > 0) by (apply P; eapply nth_error_In; eauto).
  assert (Pos' : forall p x, In x (upd (c_threads c) i (set_pc t p)) -> t_ts x > 0).
  { intros p x I. destruct (nth_error_upd_pos _ _ _ _ _ N I) as [->|I']; [exact Pt|auto]. }
  destruct (t_pc t) eqn:PC.
  - destruct (can_trigger l (c_stats c) (t_ts t)); constructor; simpl; eauto;
      pose proof (count_acq_upd _ _ _ (set_pc t PChecked) N); pose proof (count_acq_upd _ _ _ (set_pc t (PDone false)) N);
      unfold is_acq in *; simpl in *; rewrite PC in *; lia.
  - destruct (t_cond t); constructor; simpl; eauto;
      pose proof (count_acq_upd _ _ _ (set_pc t PCondOk) N); pose proof (count_acq_upd _ _ _ (set_pc t (PDone false)) N);
      unfold is_acq in *; simpl in *; rewrite PC in *; lia.
  - destruct (can_trigger l (c_stats c) (t_ts t)) eqn:CT; constructor; simpl; eauto.
    + apply SInv_fire; auto.
    + pose proof (count_acq_upd _ _ _ (set_pc t PAcquired) N). unfold is_acq in *; simpl in *; rewrite PC in *.
      rewrite app_length; simpl. lia.
    + pose proof (count_acq_upd _ _ _ (set_pc t (PDone false)) N). unfold is_acq in *; simpl in *; rewrite PC in *. lia.
  - constructor; simpl; eauto.
    pose proof (count_acq_upd _ _ _ (set_pc t (PDone true)) N). unfold is_acq in *; simpl in *; rewrite PC in *.
    rewrite app_length; simpl. lia.
  - constructor; auto.
Qed.

Lemma crun_inv l sched : forall c, CInv l c -> CInv l (crun true l c sched).
Proof.
  unfold crun. induction sched as [|i r IH]; intros c I; simpl; [exact I|]. apply IH. apply cstep_inv. exact I.
Qed.

Lemma cinit_inv l ths : (forall p, In p ths -> fst p > 0) -> CInv l (cinit ths).
Proof.
  intros P. constructor; simpl.
  - apply SInv_init.
  - intros t I. apply in_map_iff in I as (p & <- & I). simpl. apply P; exact I.
  - induction ths as [|p r IH]; simpl; [reflexivity|]. apply IH. intros q I; apply P; right; exact I.
Qed.

(* in every state reachable under ANY schedule of ANY number of threads: the collections are at most
   the recorded fires, these are at most fire_count, pairwise fire_period apart, and in the window *)
Theorem conc_safe l ths sched :
  (forall p, In p ths -> fst p > 0) ->
  let c := crun true l (cinit ths) sched in
  (length (c_collected c) <= length (c_acq c))%nat /\
  (fc l <> -1 -> Z.of_nat (length (c_acq c)) <= Z.max 0 (fc l)) /\
  spaced (fp l * 1000000) (c_acq c) /\
  (forall t, In t (c_acq c) -> in_window l t = true).
Proof.
  intros P c. pose proof (crun_inv l sched _ (cinit_inv l ths P)) as [S _ C]. fold c in S, C.
  repeat split.
  - lia.
  - apply (si_bound _ _ _ S).
  - apply (si_spaced _ _ _ S).
  - apply (si_win _ _ _ S).
Qed.

(* the discipline without the atomic re-check (record after collecting) is refuted: two threads,
   fire_count 1, both check before either records *)
Definition unlocked_witness : cstate :=
  crun false {| fc := 1; fp := 1000; ws := 0; we := 0 |} (cinit [(10, true); (20, true)])
       [0; 1; 0; 1; 0; 1; 0; 1]%nat.
Theorem conc_unlocked_refuted : length (c_collected unlocked_witness) = 2%nat.
Proof. vm_compute. reflexivity. Qed.

(* non-vacuity: a concrete history meeting the hypotheses, with collections *)
Example seq_example :
  snd (run {| fc := 2; fp := 1; ws := 0; we := 0 |} stats0
           [{| h_ts := 5; h_cond := true |}; {| h_ts := 6; h_cond := true |}; {| h_ts := 1000005; h_cond := false |};
            {| h_ts := 1000005; h_cond := true |}; {| h_ts := 3000000; h_cond := true |}])
  = [true; false; false; true; false].
Proof. vm_compute. reflexivity. Qed.
