From Deep Require Import Base Config Limiter LimiterProofs Cond Match MatchProofs Handler.

Definition ids (inst : installed) : list nat := map (fun p => ha_id (snd p)) inst.

Lemma fold_other e inst : forall acc a, ~ In a (ids inst) -> fst (fold_left (handle1 e) inst acc) a = fst acc a.
Proof.
  induction inst as [|p r IH]; intros acc a N; simpl; [reflexivity|].
  rewrite IH by (intros I; apply N; right; exact I). unfold handle1.
  destruct (at_loc (fst p) (he_ev e)); [|reflexivity].
  destruct (step (ha_lim (snd p)) (fst acc (ha_id (snd p))) (hit_for (snd p) e)) as [s' b]. simpl. unfold upd.
  destruct (Nat.eqb_spec a (ha_id (snd p))) as [->|_]; [exfalso; apply N; left; reflexivity|reflexivity].
Qed.

Lemma fold_fired_mono e inst : forall acc x, In x (snd acc) -> In x (snd (fold_left (handle1 e) inst acc)).
Proof.
  induction inst as [|p r IH]; intros acc x I; simpl; [exact I|]. apply IH. unfold handle1.
  destruct (at_loc (fst p) (he_ev e)); [|exact I].
  destruct (step (ha_lim (snd p)) (fst acc (ha_id (snd p))) (hit_for (snd p) e)) as [s' b]. simpl.
  destruct b; [apply in_or_app; left; exact I|exact I].
Qed.

Lemma fold_fired_ids e inst : forall acc x, In x (snd (fold_left (handle1 e) inst acc)) -> In x (snd acc) \/ In x (ids inst).
Proof.
  induction inst as [|p r IH]; intros acc x I; simpl in *; [left; exact I|].
  destruct (IH _ _ I) as [J|J]; [|right; right; exact J]. unfold handle1 in J.
  destruct (at_loc (fst p) (he_ev e)); [|left; exact J].
  destruct (step (ha_lim (snd p)) (fst acc (ha_id (snd p))) (hit_for (snd p) e)) as [s' b]. simpl in J.
  destruct b; [|left; exact J]. apply in_app_or in J as [J|[<-|[]]]; [left; exact J|right; left; reflexivity].
Qed.

Lemma handle1_eq e acc l a :
  handle1 e acc (l, a) =
  if at_loc l (he_ev e)
  then (upd (fst acc) (ha_id a) (fst (step (ha_lim a) (fst acc (ha_id a)) (hit_for a e))),
        if snd (step (ha_lim a) (fst acc (ha_id a)) (hit_for a e)) then snd acc ++ [ha_id a] else snd acc)
  else acc.
Proof.
  unfold handle1. cbn [fst snd]. destruct (at_loc l (he_ev e)); [|reflexivity].
  destruct (step (ha_lim a) (fst acc (ha_id a)) (hit_for a e)); reflexivity.
Qed.

(* one event, seen from one action: only its own statistics and its own gate matter *)
Theorem handle_one_action l1 l a l2 st e :
  ~ In (ha_id a) (ids l1) -> ~ In (ha_id a) (ids l2) ->
  let r := handle (l1 ++ (l, a) :: l2) st e in
  let own := if at_loc l (he_ev e) then step (ha_lim a) (st (ha_id a)) (hit_for a e) else (st (ha_id a), false) in
  fst r (ha_id a) = fst own /\ (In (ha_id a) (snd r) <-> snd own = true).
Proof.
  intros N1 N2. unfold handle. rewrite fold_left_app. cbn [fold_left].
  set (acc1 := fold_left (handle1 e) l1 (st, [])).
  assert (S1 : fst acc1 (ha_id a) = st (ha_id a)) by (apply (fold_other e l1 (st, []) _ N1)).
  assert (F1 : ~ In (ha_id a) (snd acc1)).
  { intros I. destruct (fold_fired_ids e l1 (st, []) _ I) as [[]|J]. contradiction. }
  rewrite handle1_eq, S1. destruct (at_loc l (he_ev e)) eqn:A.
  - destruct (step (ha_lim a) (st (ha_id a)) (hit_for a e)) as [s' b] eqn:St. cbn [fst snd]. split.
    + rewrite fold_other by exact N2. cbn [fst]. unfold upd. rewrite Nat.eqb_refl. reflexivity.
    + split.
      * intros I. destruct (fold_fired_ids e l2 _ _ I) as [J|J]; [|contradiction]. cbn [snd] in J.
        destruct b; [reflexivity|exfalso; apply F1; exact J].
      * intros ->. apply fold_fired_mono. cbn [snd]. apply in_or_app; right; left; reflexivity.
  - cbn [fst snd]. split.
    + rewrite fold_other by exact N2. exact S1.
    + split; [|discriminate]. intros I. destruct (fold_fired_ids e l2 _ _ I) as [J|J]; [exfalso; apply F1; exact J|contradiction].
Qed.

(* whatever fires was matched, permitted by its own limits, and its condition held *)
Theorem fired_sound inst st e x :
  NoDup (ids inst) -> In x (snd (handle inst st e)) ->
  exists l a, In (l, a) inst /\ ha_id a = x /\ at_loc l (he_ev e) = true /\
              can_trigger (ha_lim a) (st x) (he_ts e) = true /\ gate (ha_cond a) (env_of (he_env e)) = true.
Proof.
  intros N I. destruct (fold_fired_ids e inst (st, []) _ I) as [[]|J]. unfold ids in J.
  apply in_map_iff in J as ([l a] & E & Ip). simpl in E. apply in_split in Ip as (l1 & l2 & ->).
  unfold ids in N. rewrite map_app in N. simpl in N. apply NoDup_remove in N as [N0 N1].
  assert (N1a : ~ In (ha_id a) (ids l1)) by (intros K; apply N1; apply in_or_app; left; exact K).
  assert (N1b : ~ In (ha_id a) (ids l2)) by (intros K; apply N1; apply in_or_app; right; exact K).
  destruct (handle_one_action l1 l a l2 st e N1a N1b) as [_ H]. subst x. apply H in I.
  exists l, a. split; [apply in_or_app; right; left; reflexivity|]. split; [reflexivity|].
  destruct (at_loc l (he_ev e)); [|discriminate]. split; [reflexivity|].
  apply step_collects_only_if in I. exact I.
Qed.

(* over a whole event sequence: the statistics of an action are those of the limiter run on ITS OWN hits
   (the events at its location), whatever the other tracepoints do *)
Fixpoint own_hits (l : loc) (a : haction) (es : list hevent) : list hit :=
  match es with
  | [] => []
  | e :: r => if at_loc l (he_ev e) then hit_for a e :: own_hits l a r else own_hits l a r
  end.

Theorem action_sees_only_its_own_hits l1 l a l2 es : forall st,
  ~ In (ha_id a) (ids l1) -> ~ In (ha_id a) (ids l2) ->
  fst (run_events (l1 ++ (l, a) :: l2) st es) (ha_id a) = fst (run (ha_lim a) (st (ha_id a)) (own_hits l a es)).
Proof.
  induction es as [|e r IH]; intros st N1 N2; simpl; [reflexivity|].
  destruct (handle (l1 ++ (l, a) :: l2) st e) as [st1 f] eqn:H.
  destruct (handle_one_action l1 l a l2 st e N1 N2) as [S _]. rewrite H in S. simpl in S.
  specialize (IH st1 N1 N2). destruct (run_events (l1 ++ (l, a) :: l2) st1 r) as [st2 fs]. simpl in *.
  rewrite IH, S. destruct (at_loc l (he_ev e)); simpl.
  - destruct (step (ha_lim a) (st (ha_id a)) (hit_for a e)) as [s' b]. simpl.
    destruct (run (ha_lim a) s' (own_hits l a r)); reflexivity.
  - reflexivity.
Qed.
