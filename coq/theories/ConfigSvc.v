(* ConfigSvc.v -- the tracepoint configuration service and the update tasks that install it:
     config/tracepoint_config.py  TracepointConfigService.{update_no_change, update_new_config,
                                  add_custom, remove_custom, update_listeners}
     poll/poll.py                 LongPoll.poll (update / no-change / error / malformed answers)
     processor/trigger_handler.py TriggerHandler.new_config (the installed list)
     task/__init__.py             TaskHandler: pool of TWO workers, FIFO queue
   A tracepoint is a number; a configuration is a list of them. *)
From Deep Require Import Base.

Definition cfg := list nat.
Record task := { tk_captured : cfg }.     (* the configuration passed to submit_task *)
Record svc := { polled : cfg; hash : option nat; last_update : Z;
                custom : list (nat * nat);       (* handle, tracepoint *)
                next_handle : nat;
                installed : cfg;                 (* what the handler acts on *)
                pending : list task }.           (* submitted, not yet run; the first two may be running *)
Definition svc0 : svc := {| polled := []; hash := None; last_update := 0; custom := []; next_handle := 0; installed := []; pending := [] |}.

Definition latest (s : svc) : cfg := polled s ++ map snd (custom s).

Inductive op :=
| PollUpdate (ts : Z) (h : nat) (c : cfg)
| PollNoChange (ts : Z)
| PollFailed                       (* transport error, or an answer that cannot be converted *)
| Register (tp : nat)
| RegisterRefused                  (* a registration the agent cannot interpret: refused, nothing stored *)
| Unregister (h : nat)
| RunTask (k : nat).               (* one of the first two pending tasks performs its installation *)

Definition submit (s : svc) : list task := pending s ++ [{| tk_captured := polled s |}].

Fixpoint remove_handle (h : nat) (l : list (nat * nat)) : list (nat * nat) :=
  match l with
  | [] => []
  | (h', t) :: r => if Nat.eqb h' h then r else (h', t) :: remove_handle h r
  end.
Definition has_handle (h : nat) (l : list (nat * nat)) : bool := existsb (fun p => Nat.eqb (fst p) h) l.

Fixpoint remove_nth {A} (k : nat) (l : list A) : list A :=
  match l, k with
  | [], _ => []
  | _ :: r, O => r
  | x :: r, S k' => x :: remove_nth k' r
  end.

(* fresh = true : an update task installs the state current when it runs (the code);
   fresh = false: it installs the configuration captured at submit (the discipline before the repair) *)
Definition step (fresh : bool) (s : svc) (o : op) : svc :=
  match o with
  | PollUpdate ts h c =>
      let s1 := {| polled := c; hash := Some h; last_update := ts; custom := custom s; next_handle := next_handle s;
                   installed := installed s; pending := pending s |} in
      {| polled := c; hash := Some h; last_update := ts; custom := custom s; next_handle := next_handle s;
         installed := installed s; pending := submit s1 |}
  | PollNoChange ts =>
      {| polled := polled s; hash := hash s; last_update := ts; custom := custom s; next_handle := next_handle s;
         installed := installed s; pending := pending s |}
  | PollFailed => s
  | RegisterRefused => s
  | Register tp =>
      let s1 := {| polled := polled s; hash := hash s; last_update := last_update s;
                   custom := custom s ++ [(next_handle s, tp)]; next_handle := S (next_handle s);
                   installed := installed s; pending := pending s |} in
      {| polled := polled s1; hash := hash s1; last_update := last_update s1; custom := custom s1;
         next_handle := next_handle s1; installed := installed s1; pending := submit s1 |}
  | Unregister h =>
      if has_handle h (custom s) then
        let s1 := {| polled := polled s; hash := hash s; last_update := last_update s;
                     custom := remove_handle h (custom s); next_handle := next_handle s;
                     installed := installed s; pending := pending s |} in
        {| polled := polled s1; hash := hash s1; last_update := last_update s1; custom := custom s1;
           next_handle := next_handle s1; installed := installed s1; pending := submit s1 |}
      else s
  | RunTask k =>
      if (k <? 2)%nat then
        match nth_error (pending s) k with
        | None => s
        | Some t =>
            {| polled := polled s; hash := hash s; last_update := last_update s; custom := custom s;
               next_handle := next_handle s;
               installed := (if fresh then polled s else tk_captured t) ++ map snd (custom s);
               pending := remove_nth k (pending s) |}
        end
      else s
  end.

Definition run (fresh : bool) (s : svc) (ops : list op) : svc := fold_left (step fresh) ops s.

(* ---------- registrations with the LOCATION as handle (the discipline before the repair) ---------- *)
Definition step_loc (loc_of : nat -> nat) (s : svc) (o : op) : svc :=
  match o with
  | Register tp =>
      {| polled := polled s; hash := hash s; last_update := last_update s; custom := custom s ++ [(loc_of tp, tp)];
         next_handle := next_handle s; installed := installed s; pending := pending s |}
  | _ => step true s o
  end.

(* ---------- correspondence ---------- *)
Record svc_case := { sv_ops : list op; sv_obs_installed : list cfg (* after every op *);
                     sv_obs_hash : option nat; sv_obs_custom : list nat; sv_obs_pending : nat;
                     sv_obs_customs : list (list nat) (* registered tracepoints after every op *) }.
Fixpoint trace (s : svc) (ops : list op) : list cfg * svc :=
  match ops with
  | [] => ([], s)
  | o :: r => let s1 := step true s o in let '(t, s2) := trace s1 r in (installed s1 :: t, s2)
  end.
Fixpoint ctrace (s : svc) (ops : list op) : list (list nat) :=
  match ops with
  | [] => []
  | o :: r => let s1 := step true s o in map snd (custom s1) :: ctrace s1 r
  end.
Definition check_svc_case (c : svc_case) : bool :=
  let '(t, s) := trace svc0 (sv_ops c) in
  list_eqb (list_eqb Nat.eqb) t (sv_obs_installed c) && option_eqb Nat.eqb (hash s) (sv_obs_hash c)
  && list_eqb Nat.eqb (map snd (custom s)) (sv_obs_custom c) && Nat.eqb (length (pending s)) (sv_obs_pending c).
(* per-property projections.  Registered tracepoints carry numbers from 100 up, polled ones below.
   C12 (convergence to the service's configuration): the POLLED part of what the handler acts on after every step, the hash,
   the number of pending update tasks.  C13 (handles): the service's registrations after every step. *)
Definition polled_part (c : cfg) : cfg := filter (fun n => (n <? 100)%nat) c.
(* the statement speaks of the SET of tracepoints acted on: compared as multisets *)
Definition mset_eqb (a b : list nat) : bool :=
  Nat.eqb (length a) (length b) && forallb (fun n => Nat.eqb (count_occ Nat.eq_dec a n) (count_occ Nat.eq_dec b n)) a.
Definition check_svc_case_polled (c : svc_case) : bool :=
  let '(t, s) := trace svc0 (sv_ops c) in
  list_eqb mset_eqb (map polled_part t) (map polled_part (sv_obs_installed c))
  && option_eqb Nat.eqb (hash s) (sv_obs_hash c) && Nat.eqb (length (pending s)) (sv_obs_pending c).
Definition check_svc_case_reg (c : svc_case) : bool :=
  list_eqb (list_eqb Nat.eqb) (ctrace svc0 (sv_ops c)) (sv_obs_customs c).
