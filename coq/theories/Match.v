(* Match.v -- trigger placement:
     api/tracepoint/trigger.py   LineLocation.at_location, FunctionLocation.at_location, Trigger.actions,
                                 Trigger.merge_actions
     processor/trigger_handler.py  TriggerHandler.location_from_event, __actions_for_location
     grpc/__init__.py            convert_response (triggers of one location id are merged)
   The file of an event is the BASENAME of the frame's file name. *)
From Deep Require Import Base.

Inductive ekind := KCall | KLine | KReturn | KException.
Record event := { e_kind : ekind; e_file : str; e_line : Z; e_func : str }.

Inductive loc :=
| LLine (path : str) (line : Z)
| LFunc (path : str) (name : option str).   (* a nameless method location never matches *)

Definition is_kline (k : ekind) : bool := match k with KLine => true | _ => false end.
Definition is_kcall (k : ekind) : bool := match k with KCall => true | _ => false end.

Definition at_loc (l : loc) (e : event) : bool :=
  match l with
  | LLine p n => is_kline (e_kind e) && str_eqb (e_file e) p && (e_line e =? n)
  | LFunc p (Some f) => str_eqb (e_file e) p && is_kcall (e_kind e) && str_eqb (e_func e) f
  | LFunc p None => false
  end.

Record trigger := { t_loc : loc; t_actions : list nat }.   (* actions by identity *)

Definition actions_for (ts : list trigger) (e : event) : list nat :=
  flat_map (fun t => if at_loc (t_loc t) e then t_actions t else []) ts.
(* the actions that act at an event: those of the matching triggers whose gate (limits, condition) is open *)
Definition acts (ts : list trigger) (gate : nat -> bool) (e : event) : list nat := filter gate (actions_for ts e).

(* convert_response: triggers with the same location id are merged into the first one, in order *)
Definition loc_eqb (a b : loc) : bool :=
  match a, b with
  | LLine p n, LLine q m => str_eqb p q && (n =? m)
  | LFunc p f, LFunc q g => str_eqb p q && option_eqb str_eqb f g
  | _, _ => false
  end.
Fixpoint merge_into (t : trigger) (acc : list trigger) : list trigger :=
  match acc with
  | [] => [t]
  | x :: r => if loc_eqb (t_loc x) (t_loc t)
              then {| t_loc := t_loc x; t_actions := t_actions x ++ t_actions t |} :: r
              else x :: merge_into t r
  end.
Definition merge (ts : list trigger) : list trigger := fold_left (fun acc t => merge_into t acc) ts [].

(* ---------- correspondence ---------- *)
Record match_case := { mc_triggers : list trigger; mc_merge : bool; mc_events : list event; mc_obs : list (list nat) }.
Definition check_match_case (c : match_case) : bool :=
  let ts := if mc_merge c then merge (mc_triggers c) else mc_triggers c in
  list_eqb (list_eqb Nat.eqb) (map (fun e => actions_for ts e) (mc_events c)) (mc_obs c).
