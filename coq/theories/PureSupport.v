(* PureSupport.v -- the vocabulary the translated functions of gen/Pure.v are written in (no proofs):
   an action as the code builds it (tracepoint id, condition, the CONFIG DICT as an association list, kind),
   and how the model's description of an action (TriggerTable.adesc) is read off that dict. *)
From Deep Require Import Base Config Limiter Cond Match TriggerTable Attrs ConfigSvc Lifecycle.

Inductive dval := DStr (s : str) | DOpt (o : option str) | DList (l : list str) | DMetrics (n : nat).
Record gaction := mk_action { ga_tp : str; ga_cond : option str; ga_cfg : list (str * dval); ga_kind : akind }.

(* args[K] - only emitted by the translator where `K in args` is known to hold *)
Definition aget (a : args) (k : str) : str := match alookup k a with Some v => v | None => [] end.
Definition cat_options {A} (l : list (option A)) : list A :=
  flat_map (fun o => match o with Some x => [x] | None => [] end) l.

Definition position := str.
Definition position_of (s : str) : position := s.
Definition mk_line_location (p : str) (n : Z) (_ : position) : loc := LLine p n.
Definition mk_func_location (p : str) (f : option str) (_ : position) : loc := LFunc p f.
Definition gtrigger := (loc * list gaction)%type.
Definition mk_trigger (l : loc) (a : list gaction) : gtrigger := (l, a).

Definition s_watches : str := [119;97;116;99;104;101;115].
Definition s_metrics : str := [109;101;116;114;105;99;115].
Definition d_str (c : list (str * dval)) (k : str) : option str :=
  match alookup k c with Some (DStr s) => Some s | Some (DOpt o) => o | _ => None end.
Definition d_text (c : list (str * dval)) (k : str) : str := match d_str c k with Some s => s | None => [] end.
Definition adesc_of (g : gaction) : adesc :=
  let c := ga_cfg g in
  {| ad_kind := ga_kind g; ad_tp := ga_tp g; ad_cond := ga_cond g;
     ad_count := d_text c s_fire_count; ad_period := d_text c s_fire_period;
     ad_log := d_str c s_log_msg;
     ad_watches := match alookup s_watches c with Some (DList l) => l | _ => [] end;
     ad_frame := d_str c s_frame_type; ad_stack := d_str c s_stack_type;
     ad_nmetrics := match alookup s_metrics c with Some (DMetrics n) => n | _ => O end;
     ad_span := d_str c s_span |}.
Definition opt_list {A} (o : option A) : list A := match o with Some x => [x] | None => [] end.

(* s[:n] and s[n:] as Python defines them (a negative n counts from the end) *)
Definition py_slice_to (s : str) (n : Z) : str :=
  if n <? 0 then firstn (length s - Z.to_nat (- n)) s else firstn (Z.to_nat n) s.
Definition py_slice_from (s : str) (n : Z) : str :=
  if n <? 0 then skipn (length s - Z.to_nat (- n)) s else skipn (Z.to_nat n) s.

(* an evaluation outcome (Cond.eres) as the code sees it: evaluate_expression hands back what was raised *)
Definition is_err (r : eres) : bool := match r with EErr _ _ => true | EVal _ => false end.
Definition eres_text (r : eres) : str := match r with EVal t => t | EErr _ m => m end.

(* OrderedDict: d[k] = v keeps the position of an existing key, a new key goes to the end *)
Fixpoint od_replace (it : list (str * cval)) (k : str) (v : cval) : list (str * cval) :=
  match it with
  | [] => []
  | (k', v') :: r => if str_eqb k' k then (k', v) :: r else (k', v') :: od_replace r k v
  end.
Definition od_set (it : list (str * cval)) (k : str) (v : cval) : list (str * cval) :=
  if inb k it then od_replace it k v else it ++ [(k, v)].
(* _clean_attribute(key, value, max_len) for a key that is a str (a key of another type is rejected there before any
   dictionary operation: Attrs.key_ok, tied by correspondence) *)
Definition clean_attribute (k : str) (v : val) (limit : option Z) : option cval :=
  clean (option_map Z.to_nat limit) (KStr k) v.

(* TaskHandler.submit_task(update_listeners, ts, old_hash, current_hash, old_config, new_config): one more pending task,
   carrying the configuration it was handed (ConfigSvc.task) *)
Definition submit_task (pending : list task) (_ : unit) (_ : Z) (_ _ : option nat) (_ : option cfg) (new_config : cfg) : list task :=
  pending ++ [{| tk_captured := new_config |}].
(* what the handler's listener does with a delivery (tied to the translated TracepointHandlerUpdateListener.config_change
   / TriggerHandler.new_config in TieService.v): the handler acts on the list it is handed *)
Definition deliver (installed : cfg) (_ : Z) (_ _ : option nat) (_ : option cfg) (new_config : cfg) : cfg := new_config.

(* registrations: build_trigger's answer for the registration at hand is a parameter (an interpretable tracepoint, or None);
   uuid4 handles are opaque tokens handed in by the environment (assumed fresh: ConfigSvc.next_handle) *)
Definition interp_built (b : option nat) (_ : nat) (_ _ _ _ _ : unit) : option nat := b.
Fixpoint find_index {A} (f : A -> bool) (l : list A) : option nat :=
  match l with
  | [] => None
  | x :: r => if f x then Some O else option_map S (find_index f r)
  end.

(* an action's config dict restricted to the integer-valued settings: text (from the service) or number (registered in code) *)
Definition cfg_get (c : list (str * argv)) (k : str) (d : Z) : argv := match alookup k c with Some v => v | None => ANum d end.
(* int(v); None = ValueError *)
Definition py_int (v : argv) : option Z := match v with ANum z => Some z | AText s => parse_int s end.

(* the shape of TriggerHandler.__process_call_backs: while the stack is not empty, look at the top entry; the translated BODY
   says: leave it and stop / pop it and stop / pop it and go on with these flags *)
Inductive verdict := VStop | VPopStop | VPopContinue (flag : bool).
Fixpoint pop_loop {C} (body : C -> bool -> verdict) (st : list C) (flag : bool) : list C * list C :=
  match st with
  | [] => ([], [])
  | c :: r =>
      match body c flag with
      | VStop => ([], st)
      | VPopStop => ([c], r)
      | VPopContinue f' => let '(d, p) := pop_loop body r f' in (c :: d, p)
      end
  end.

(* sys.settrace(h) / threading.settrace(h): the hook becomes h (a hook is a number: Lifecycle.AGENT is the agent's) *)
Definition set_hook (h : nat) : nat := h.

(* Trigger.at_location delegates to its location (tied separately: TieMatch.tie_line_at_location / tie_func_at_location);
   the event kind travels as its name *)
Definition kind_of_name (s : str) : option ekind :=
  if str_eqb s [99; 97; 108; 108] then Some KCall else if str_eqb s [108; 105; 110; 101] then Some KLine
  else if str_eqb s [114; 101; 116; 117; 114; 110] then Some KReturn
  else if str_eqb s [101; 120; 99; 101; 112; 116; 105; 111; 110] then Some KException else None.
Definition trigger_at_location (t : trigger) (event file : str) (line : Z) (function : str) (_ : unit) : bool :=
  match kind_of_name event with
  | Some k => at_loc (t_loc t) {| e_kind := k; e_file := file; e_line := line; e_func := function |}
  | None => false
  end.

(* ---------- work-list loops (bfs.breadth_first_search) ----------
   The translator emits ONE ITERATION of the loop: from the list and the state to "the loop is over, with this state"
   or "go on with this list and this state"; wl_run is the loop over it (fuel: the list can grow). *)
Inductive wl_result (N S : Type) := WEnd (s : S) | WGo (q : list N) (s : S).
Arguments WEnd {N S} s.
Arguments WGo {N S} q s.
Fixpoint wl_run {N S} (iter : list N -> S -> wl_result N S) (fuel : nat) (q : list N) (s : S) : S * bool :=
  match fuel with
  | O => (s, match q with [] => true | _ => false end)       (* out of fuel: finished only if nothing was left to do *)
  | S f => match iter q s with WEnd s' => (s', true) | WGo q' s' => wl_run iter f q' s' end
  end.
(* l.pop(0) / l.pop(): the element taken and the list left; None = IndexError (empty list) *)
Definition py_pop_first {N} (l : list N) : option (N * list N) := match l with [] => None | x :: r => Some (x, r) end.
Definition py_pop_last {N} (l : list N) : option (N * list N) := match rev l with [] => None | x :: r => Some (x, rev r) end.
(* str(n) of an int *)
Definition py_str_int (z : Z) : str := if (z <? 0)%Z then 45 :: print_nat (Z.to_nat (- z)) else print_nat (Z.to_nat z).
(* os.path.basename (posix): what follows the last '/' *)
Fixpoint basename_acc (acc s : str) : str :=
  match s with [] => acc | c :: r => if Z.eqb c 47 then basename_acc [] r else basename_acc (acc ++ [c]) r end.
Definition basename (s : str) : str := basename_acc [] s.

(* ---------- configuration values as ConfigService.__getattribute__ handles them ----------
   a variable that may hold a value or Python's None is an `option cv`; where the code has already established that it is not None
   the translator holds the value itself: as_opt_cv reads either *)
Class AsOptCv (A : Type) := as_opt_cv : A -> option cv.
#[global] Instance cv_as_opt : AsOptCv cv := Some.
#[global] Instance optcv_as_opt : AsOptCv (option cv) := fun x => x.
(* callable(x) / x(): only a function-valued setting is callable *)
Definition is_callable_opt (x : option cv) : bool := match x with Some (VFun _) => true | _ => false end.
Definition call_opt (x : option cv) : option cv := match x with Some (VFun r) => Some r | _ => x end.
