(* TieResolve.v -- ConfigService.__getattribute__ as it is in /repo/src NOW (gen/PResolve.v, translated on every run) is
   Config.resolve: the service object's own attributes first; then the code-supplied map (an entry whose value is None counts as
   absent); then deep.config (a function there is called); then the DEEP_ variable as text; else nothing.  What is declared rather
   than translated: the four lookups themselves (own attribute / map entry / module attribute / os.getenv) and callable(). *)
From Deep Require Import Base Config PureSupport.
From DeepGen Require Import PResolve.

Definition to_cv (r : option cv) : cv := match r with Some v => v | None => VNoneV end.
(* a lookup that found Python's None found nothing the code can tell from "absent" (`attr is None`) *)
Definition present (o : option cv) : option cv := match o with Some v => if is_none v then None else Some v | None => None end.
Definition is_some {A} (o : option A) : bool := match o with Some _ => true | None => false end.

Definition code_resolve (own custom dflt : option cv) (env : option str) : cv :=
  to_cv (gen_getattribute (fun _ => own) (fun _ => present custom) (fun _ => present dflt) (fun _ => is_some dflt) (fun _ => env) []).

Theorem tie_resolve own custom dflt env : code_resolve own custom dflt env = resolve own custom dflt env.
Proof.
  unfold code_resolve, gen_getattribute, resolve.
  destruct own as [o|]; [reflexivity|].
  destruct custom as [[]|]; destruct dflt as [[]|]; destruct env; reflexivity.
Qed.

(* the precedence, read off the translated code *)
Corollary code_own_wins v custom dflt env : code_resolve (Some v) custom dflt env = v.
Proof. rewrite tie_resolve. reflexivity. Qed.
Corollary code_custom_wins v dflt env : is_none v = false -> code_resolve None (Some v) dflt env = call v.
Proof. intros H. rewrite tie_resolve. unfold resolve. rewrite H. reflexivity. Qed.
Corollary code_default_before_environment d env : code_resolve None None (Some d) env = call d.
Proof. rewrite tie_resolve. reflexivity. Qed.
Corollary code_environment_is_text s : code_resolve None None None (Some s) = VText s.
Proof. rewrite tie_resolve. reflexivity. Qed.
Corollary code_absent : code_resolve None None None None = VNoneV.
Proof. rewrite tie_resolve. reflexivity. Qed.
