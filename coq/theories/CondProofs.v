(* CondProofs.v -- list facts used by the C10 theorems *)
From Deep Require Import Base Config Limiter Cond.

Lemma firstn_len_app {A} (a b : list A) : firstn (length a) (a ++ b) = a.
Proof. induction a as [|x a IH]; simpl; [destruct b; reflexivity|]. f_equal. exact IH. Qed.
Lemma skipn_S_len_app {A} (a : list A) x b : skipn (S (length a)) (a ++ x :: b) = b.
Proof. induction a as [|y a IH]; simpl; [reflexivity|]. exact IH. Qed.

Lemma watches_local ev l1 e l2 :
  nth_error (watches ev (l1 ++ e :: l2)) (length l1) = Some (watch1 ev e) /\
  (forall cls m, ev e = EErr cls m -> snd (watch1 ev e) = WErr m) /\
  (forall e', firstn (length l1) (watches ev (l1 ++ e' :: l2)) = watches ev l1 /\
              skipn (S (length l1)) (watches ev (l1 ++ e' :: l2)) = watches ev l2).
Proof.
  unfold watches. repeat split.
  - rewrite map_app. simpl. rewrite nth_error_app2; rewrite map_length; [|lia]. rewrite Nat.sub_diag. reflexivity.
  - intros cls m E. unfold watch1. rewrite E. reflexivity.
  - rewrite map_app. rewrite <- (map_length (watch1 ev) l1). apply firstn_len_app.
  - rewrite map_app. simpl. rewrite <- (map_length (watch1 ev) l1). apply skipn_S_len_app.
Qed.
