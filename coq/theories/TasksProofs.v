From Deep Require Import Base Tasks.

(* ---------- exactly once ---------- *)
Definition once (t : trec) : Prop := tf_runs t = (if tf_done t then 1 else 0)%nat.

Lemma undone_from_spec l : forall i k, In k (undone_from l i) <-> (i <= k)%nat /\ exists t, nth_error l (k - i) = Some t /\ tf_done t = false.
Proof.
  induction l as [|t r IH]; intros i k; simpl.
  - split; [intros []|]. intros [_ (t & E & _)]. destruct (k - i)%nat; discriminate.
  - destruct (tf_done t) eqn:D.
    + rewrite IH. split.
      * intros [L (t' & E & F)]. split; [lia|]. exists t'. split; [|exact F]. replace (k - i)%nat with (S (k - S i)) by lia. exact E.
      * intros [L (t' & E & F)]. destruct (k - i)%nat as [|m] eqn:M.
        -- simpl in E. inversion E; subst. congruence.
        -- split; [lia|]. exists t'. split; [|exact F]. replace (k - S i)%nat with m by lia. exact E.
    + simpl. rewrite IH. split.
      * intros [<-|[L (t' & E & F)]].
        -- split; [lia|]. exists t. rewrite Nat.sub_diag. auto.
        -- split; [lia|]. exists t'. split; [|exact F]. replace (k - i)%nat with (S (k - S i)) by lia. exact E.
      * intros [L (t' & E & F)]. destruct (k - i)%nat as [|m] eqn:M.
        -- left. lia.
        -- right. split; [lia|]. exists t'. split; [|exact F]. replace (k - S i)%nat with m by lia. exact E.
Qed.

Lemma running_undone l i : running l i = true -> exists t, nth_error l i = Some t /\ tf_done t = false.
Proof.
  unfold running. intros E. apply existsb_exists in E as (k & I & Ek). apply Nat.eqb_eq in Ek. subst k.
  assert (J : In i (undone l)). { clear -I. revert I. generalize (undone l). intros u. destruct u as [|a [|b u]]; simpl; tauto. }
  unfold undone in J. apply undone_from_spec in J as [_ (t & E & F)]. rewrite Nat.sub_0_r in E. eauto.
Qed.

Lemma finish_at_once l : forall i t, Forall once l -> nth_error l i = Some t -> tf_done t = false -> Forall once (finish_at l i).
Proof.
  induction l as [|x r IH]; intros i t F E D; simpl; [constructor|]. inversion F as [|y ys Hx Hr]; subst.
  destruct i as [|k]; simpl in E.
  - inversion E; subst. constructor; [|exact Hr]. unfold once in *. simpl. rewrite D in Hx. lia.
  - constructor; [exact Hx|]. eapply IH; eauto.
Qed.

(* a finishing task changes no other task *)
Lemma finish_at_other l : forall i j, i <> j -> nth_error (finish_at l i) j = nth_error l j.
Proof.
  induction l as [|x r IH]; intros i j N; simpl; [reflexivity|]. destruct i as [|k].
  - destruct j; [contradiction|reflexivity].
  - destruct j; [reflexivity|]. simpl. apply IH. lia.
Qed.
Lemma finish_at_length l i : length (finish_at l i) = length l.
Proof. revert i; induction l as [|x r IH]; intros [|k]; simpl; auto. Qed.

Lemma step_once rr s a : Forall once (tasks s) -> Forall once (tasks (step rr s a)).
Proof.
  intros F. destruct a as [f|i| |]; simpl.
  - destruct (is_open s); simpl; [|exact F]. apply Forall_app. split; [exact F|]. constructor; [reflexivity|constructor].
  - destruct (running (tasks s) i) eqn:R; [|exact F]. simpl. apply running_undone in R as (t & E & D). eapply finish_at_once; eauto.
  - destruct (fl s); exact F.
  - destruct (fl s) as [|[|i r]|i r|b]; simpl; try exact F.
    + destruct (done_at (tasks s) i); exact F.
    + destruct (done_at (tasks s) i); [destruct (rr && fail_at (tasks s) i)|]; exact F.
Qed.

Theorem exactly_once rr l : Forall once (tasks (run rr ts0 l)).
Proof.
  unfold run. assert (G : forall s, Forall once (tasks s) -> Forall once (tasks (fold_left (step rr) l s))).
  { induction l as [|a r IH]; intros s F; simpl; [exact F|]. apply IH. apply step_once. exact F. }
  apply G. constructor.
Qed.

(* ---------- flush ---------- *)
(* while flush is in progress: the handler is closed and every unfinished task is one flush still waits for *)
Definition waits (f : fstate) (k : nat) : Prop :=
  match f with FWaiting l => In k l | FLatched i l => k = i \/ In k l | _ => False end.
Definition FInv (s : ts) : Prop :=
  match fl s with
  | FIdle => True
  | FReturned _ => is_open s = false /\ (forall k, In k (undone (tasks s)) -> False)
  | f => is_open s = false /\ (forall k, In k (undone (tasks s)) -> waits f k)
  end.

Lemma undone_finish l i k : In k (undone (finish_at l i)) -> In k (undone l).
Proof.
  unfold undone. rewrite !undone_from_spec, !Nat.sub_0_r. intros [L (t & E & D)]. split; [exact L|].
  destruct (Nat.eq_dec i k) as [->|N].
  - exfalso. clear L. revert k t E D. induction l as [|x r IH]; intros [|k] t E D; simpl in *; try discriminate.
    + inversion E; subst. discriminate.
    + eapply IH; eauto.
  - rewrite finish_at_other in E by exact N. eauto.
Qed.

Lemma done_at_undone l k : done_at l k = true -> ~ In k (undone l).
Proof.
  unfold done_at, undone. intros D I. apply undone_from_spec in I as [_ (t & E & F)]. rewrite Nat.sub_0_r in E.
  rewrite E in D. congruence.
Qed.

Lemma step_finv s a : FInv s -> FInv (step false s a).
Proof.
  intros I. destruct a as [f|i| |]; unfold FInv in *; simpl.
  - destruct (is_open s) eqn:O; simpl; [|exact I]. destruct (fl s) as [|l|j l|b]; auto; destruct I as [C _]; congruence.
  - destruct (running (tasks s) i); [|exact I]. simpl. destruct (fl s) as [|l|j l|b]; auto.
    + destruct I as [C W]. split; [exact C|]. intros k Ik. apply W. eapply undone_finish; eauto.
    + destruct I as [C W]. split; [exact C|]. intros k Ik. apply W. eapply undone_finish; eauto.
    + destruct I as [C W]. split; [exact C|]. intros k Ik. eapply W. eapply undone_finish; eauto.
  - destruct (fl s) as [|l|j l|b] eqn:F; try (rewrite F; exact I). simpl. split; [reflexivity|]. intros k Ik. exact Ik.
  - destruct (fl s) as [|[|i r]|i r|b] eqn:F; simpl; try (rewrite ?F; exact I).
    + destruct I as [C W]. destruct (done_at (tasks s) i) eqn:D; simpl.
      * split; [exact C|]. intros k Ik. destruct (W k Ik) as [<-|J]; [|exact J]. exfalso. eapply done_at_undone; eauto.
      * split; [exact C|]. intros k Ik. destruct (W k Ik) as [<-|J]; [left; reflexivity|right; exact J].
    + destruct I as [C W]. destruct (done_at (tasks s) i) eqn:D; simpl; [|rewrite F; split; assumption].
      split; [exact C|]. intros k Ik. destruct (W k Ik) as [->|J]; [|exact J]. exfalso. eapply done_at_undone; eauto.
Qed.

Lemma run_finv l : forall s, FInv s -> FInv (run false s l).
Proof. unfold run. induction l as [|a r IH]; intros s I; simpl; [exact I|]. apply IH. apply step_finv. exact I. Qed.

(* flush returns normally, and when it has returned every accepted task has finished *)
Lemma step_normal s a : (forall b, fl s = FReturned b -> b = true) -> forall b, fl (step false s a) = FReturned b -> b = true.
Proof.
  intros H b. destruct a as [f|i| |]; simpl.
  - destruct (is_open s); simpl; apply H.
  - destruct (running (tasks s) i); simpl; apply H.
  - destruct (fl s) eqn:F; simpl; try (rewrite F; apply H). discriminate.
  - destruct (fl s) as [|[|i r]|i r|b'] eqn:F; simpl; try (rewrite ?F; apply H).
    + intros E; inversion E; reflexivity.
    + destruct (done_at (tasks s) i); simpl; discriminate.
    + destruct (done_at (tasks s) i); simpl; [discriminate|rewrite F; discriminate].
Qed.

Theorem flush_returns_normally l b : fl (run false ts0 l) = FReturned b -> b = true.
Proof.
  unfold run. assert (G : forall s, (forall b, fl s = FReturned b -> b = true) -> forall b, fl (fold_left (step false) l s) = FReturned b -> b = true).
  { induction l as [|a r IH]; intros s H; simpl; [exact H|]. apply IH. apply step_normal. exact H. }
  apply G. simpl. discriminate.
Qed.

Theorem flush_drains l b :
  fl (run false ts0 l) = FReturned b -> is_open (run false ts0 l) = false /\ Forall (fun t => tf_done t = true) (tasks (run false ts0 l)).
Proof.
  intros E. pose proof (run_finv l ts0 I) as F. unfold FInv in F. rewrite E in F. destruct F as [C W]. split; [exact C|].
  apply Forall_forall. intros t It. destruct (tf_done t) eqn:D; [reflexivity|]. exfalso.
  apply In_nth_error in It as (k & Ek). apply (W k). unfold undone. apply undone_from_spec. rewrite Nat.sub_0_r. split; [lia|eauto].
Qed.

(* work submitted after closing is refused visibly and nothing is enqueued *)
Theorem submit_after_close_refused rr s f :
  is_open s = false -> tasks (step rr s (Submit f)) = tasks s /\ refused (step rr s (Submit f)) = S (refused s).
Proof. intros C. simpl. rewrite C. simpl. auto. Qed.

(* a finishing (failing or not) task changes no other task's record *)
Theorem finish_changes_only_itself rr s i j : i <> j -> nth_error (tasks (step rr s (Finish i))) j = nth_error (tasks s) j.
Proof. intros N. simpl. destruct (running (tasks s) i); [simpl; apply finish_at_other; exact N|reflexivity]. Qed.

(* result()-style waiting is refuted: a failing task still running when flush began makes flush raise *)
Definition reraise_witness : ts := run true ts0 [Submit true; FlushBegin; FlushStep; Finish 0%nat; FlushStep].
Theorem reraise_refuted : fl reraise_witness = FReturned false.
Proof. vm_compute. reflexivity. Qed.
