(* TieCallbacks.v -- CallbackContext.at_location (with its two helpers) and the body of the loop of
   TriggerHandler.__process_call_backs, as translated from /repo/src on every run (gen/PCallbacks.v), make the loop
   (PureSupport.pop_loop over the translated body) equal to Callbacks.complete for the three events that reach it. *)
From Deep Require Import Base Callbacks PureSupport.
From DeepGen Require Import PCallbacks.
From Coq Require Import Lia.
Local Open Scope Z_scope.

Definition s_line : str := [108; 105; 110; 101].
Definition s_call : str := [99; 97; 108; 108].
Definition s_return : str := [114; 101; 116; 117; 114; 110].
Definition s_exception : str := [101; 120; 99; 101; 112; 116; 105; 111; 110].
Definition kind_str (k : ckind) : str := match k with LineCb => s_line | CallCb => s_call end.
(* the events after which pending contexts are examined: line (isline = true), return / exception (isline = false) *)
Definition ev_str (isline : bool) (ret : bool) : str := if isline then s_line else if ret then s_return else s_exception.

Definition code_body (isline ret : bool) (lab : label) (line : Z) (c : ctx) (flag : bool) : verdict :=
  gen_cb_body (kind_str (c_kind c)) (fst (c_lab c)) (snd (c_lab c)) (ev_str isline ret) (fst lab) line (snd lab) flag.

Lemma str_eqb_sym a b : str_eqb a b = str_eqb b a.
Proof.
  destruct (str_eqb a b) eqn:E.
  - apply str_eqb_eq in E. subst. symmetry. apply str_eqb_refl.
  - destruct (str_eqb b a) eqn:F; [|reflexivity]. apply str_eqb_eq in F. subst. rewrite str_eqb_refl in E. discriminate.
Qed.

Lemma body_spec isline ret lab line c flag :
  code_body isline ret lab line c flag =
  if negb (matches lab c) then VStop
  else if is_line (c_kind c) then (if flag then VStop else VPopContinue true)
       else if isline then VStop else VPopStop.
Proof.
  unfold code_body, gen_cb_body, gen_cb_at_location, gen_cb_next_line, gen_cb_method_end, matches, lab_eqb.
  rewrite (str_eqb_sym (fst lab)), (str_eqb_sym (snd lab)).
  destruct (str_eqb (fst (c_lab c)) (fst lab)); destruct (str_eqb (snd (c_lab c)) (snd lab)); simpl; try reflexivity;
    destruct (c_kind c); destruct isline; destruct ret; destruct flag; reflexivity.
Qed.

Theorem tie_process_call_backs isline ret lab line p :
  pop_loop (code_body isline ret lab line) p false = complete isline lab p.
Proof.
  destruct p as [|c r]; [reflexivity|].
  cbn [pop_loop]. rewrite body_spec. unfold complete.
  destruct (negb (matches lab c)); [reflexivity|].
  destruct (is_line (c_kind c)).
  - destruct r as [|c2 r2]; [reflexivity|].
    cbn [pop_loop]. rewrite body_spec.
    destruct (matches lab c2); simpl; [|reflexivity].
    destruct (is_line (c_kind c2)); simpl; [reflexivity|].
    destruct isline; reflexivity.
  - destruct isline; reflexivity.
Qed.
