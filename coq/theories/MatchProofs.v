(* MatchProofs.v -- actions fire at exactly the configured locations *)
From Deep Require Import Base Match.
From Coq Require Import Permutation.

Lemma at_loc_line p n e :
  at_loc (LLine p n) e = true <-> e_kind e = KLine /\ e_file e = p /\ e_line e = n.
Proof.
  simpl. rewrite !andb_true_iff, str_eqb_eq, Z.eqb_eq. destruct (e_kind e); simpl; split; intros H;
    try (destruct H as [[? ?] ?]; discriminate); try (destruct H as [? _]; discriminate); tauto.
Qed.

Lemma at_loc_func p f e :
  at_loc (LFunc p (Some f)) e = true <-> e_kind e = KCall /\ e_file e = p /\ e_func e = f.
Proof.
  simpl. rewrite !andb_true_iff, !str_eqb_eq. destruct (e_kind e); simpl; split; intros H;
    try (destruct H as [[? ?] ?]; discriminate); try (destruct H as [? _]; discriminate); tauto.
Qed.

Lemma at_loc_return_exception l e : e_kind e = KReturn \/ e_kind e = KException -> at_loc l e = false.
Proof.
  intros H. destruct l as [p n|p [f|]]; simpl; destruct H as [H|H]; rewrite ?H; simpl;
    rewrite ?andb_false_r; reflexivity.
Qed.

Lemma actions_for_app a b e : actions_for (a ++ b) e = actions_for a e ++ actions_for b e.
Proof. unfold actions_for. apply flat_map_app. Qed.

Lemma in_actions_for ts e a :
  In a (actions_for ts e) <-> exists t, In t ts /\ at_loc (t_loc t) e = true /\ In a (t_actions t).
Proof.
  unfold actions_for. rewrite in_flat_map. split.
  - intros (t & It & Ia). exists t. destruct (at_loc (t_loc t) e); [auto|destruct Ia].
  - intros (t & It & E & Ia). exists t. rewrite E. auto.
Qed.

Theorem acts_sound ts gate e a :
  In a (acts ts gate e) -> exists t, In t ts /\ In a (t_actions t) /\ at_loc (t_loc t) e = true /\ gate a = true.
Proof.
  unfold acts. intros I. apply filter_In in I as [I G]. apply in_actions_for in I as (t & It & E & Ia).
  exists t; auto.
Qed.

Theorem acts_complete ts gate e t a :
  In t ts -> In a (t_actions t) -> at_loc (t_loc t) e = true -> gate a = true -> In a (acts ts gate e).
Proof.
  intros It Ia E G. unfold acts. apply filter_In. split; [|exact G]. apply in_actions_for. exists t; auto.
Qed.

Theorem acts_silent ts gate e : (forall t, In t ts -> at_loc (t_loc t) e = false) -> acts ts gate e = [].
Proof.
  intros H. unfold acts, actions_for. induction ts as [|t r IH]; simpl; [reflexivity|].
  rewrite (H t (or_introl eq_refl)). simpl. apply IH. intros t' I; apply H; right; exact I.
Qed.

(* every trigger contributes what it contributes alone, wherever it stands in the list *)
Theorem acts_independent ts1 t ts2 gate e :
  acts (ts1 ++ t :: ts2) gate e = acts ts1 gate e ++ acts [t] gate e ++ acts ts2 gate e.
Proof.
  unfold acts. change (t :: ts2) with ([t] ++ ts2). rewrite !actions_for_app, !filter_app. reflexivity.
Qed.

(* merging the triggers of one location keeps every action, each at its own location *)
Lemma loc_eqb_eq a b : loc_eqb a b = true -> a = b.
Proof.
  destruct a as [p n|p f], b as [q m|q g]; simpl; try discriminate; rewrite andb_true_iff; intros [A B].
  - apply str_eqb_eq in A. apply Z.eqb_eq in B. congruence.
  - apply str_eqb_eq in A. destruct f as [f|], g as [g|]; simpl in B; try discriminate; [apply str_eqb_eq in B|]; congruence.
Qed.

Lemma actions_for_one u e : actions_for [u] e = if at_loc (t_loc u) e then t_actions u else [].
Proof. unfold actions_for. simpl. apply app_nil_r. Qed.

Lemma merge_into_perm t acc e :
  Permutation (actions_for (merge_into t acc) e) (actions_for acc e ++ actions_for [t] e).
Proof.
  induction acc as [|x r IH].
  - reflexivity.
  - cbn [merge_into]. destruct (loc_eqb (t_loc x) (t_loc t)) eqn:E.
    + apply loc_eqb_eq in E.
      change (x :: r) with ([x] ++ r).
      match goal with |- Permutation (actions_for (?m :: r) e) _ => change (m :: r) with ([m] ++ r) end.
      rewrite !actions_for_app, !actions_for_one. cbn [t_loc t_actions]. rewrite <- E.
      destruct (at_loc (t_loc x) e).
      * rewrite <- !app_assoc. apply Permutation_app_head. apply Permutation_app_comm.
      * simpl. rewrite app_nil_r. reflexivity.
    + change (x :: merge_into t r) with ([x] ++ merge_into t r). change (x :: r) with ([x] ++ r).
      rewrite !actions_for_app. rewrite <- app_assoc. apply Permutation_app_head. exact IH.
Qed.

Lemma fold_merge_perm ts e : forall acc,
  Permutation (actions_for (fold_left (fun a t => merge_into t a) ts acc) e) (actions_for acc e ++ actions_for ts e).
Proof.
  induction ts as [|t r IH]; intros acc; cbn [fold_left].
  - change (actions_for [] e) with (@nil nat). rewrite app_nil_r. reflexivity.
  - etransitivity; [apply IH|]. change (t :: r) with ([t] ++ r). rewrite actions_for_app, app_assoc.
    apply Permutation_app_tail. apply merge_into_perm.
Qed.

Theorem merge_keeps_actions ts e : Permutation (actions_for (merge ts) e) (actions_for ts e).
Proof. unfold merge. apply (fold_merge_perm ts e []). Qed.
