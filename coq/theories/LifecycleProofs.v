From Deep Require Import Base Lifecycle.

Theorem start_twice_does_nothing c l : started l = true -> do_start c l = l.
Proof. intros E. unfold do_start. rewrite E. reflexivity. Qed.

(* tracing disabled: no operation of the agent ever writes a hook *)
Lemma notrace_step g c l o :
  no_trace c = true -> hooks_installed l = false ->
  hooks_installed (step g c l o) = false /\
  (match o with HostSetsHooks _ _ => True | _ => sys_hook (step g c l o) = sys_hook l /\ thr_hook (step g c l o) = thr_hook l end).
Proof.
  intros N H. destruct o as [| |f|s t]; simpl.
  - unfold do_start. destruct (started l); [auto|]. rewrite N. simpl. auto.
  - unfold do_failed_start, do_start. destruct (started l); [auto|]. rewrite N. simpl. auto.
  - unfold do_shutdown. destruct (started l); simpl; [|auto]. rewrite H.
    destruct (f_flush f && negb g); simpl; [auto|]. destruct (f_poll f && negb g); simpl; [auto|].
    destruct (plugin_steps g f 0 (nplugins c)) as [ps ok]. simpl. auto.
  - auto.
Qed.

Definition agent_ops_only (ops : list op) : Prop := forall o, In o ops -> match o with HostSetsHooks _ _ => False | _ => True end.

Theorem notrace_never_touches_hooks g c ops : forall l,
  no_trace c = true -> hooks_installed l = false -> agent_ops_only ops ->
  sys_hook (run g c l ops) = sys_hook l /\ thr_hook (run g c l ops) = thr_hook l.
Proof.
  unfold run. induction ops as [|o r IH]; intros l N H A; simpl; [auto|].
  destruct (notrace_step g c l o N H) as [H1 H2].
  assert (Ao : match o with HostSetsHooks _ _ => False | _ => True end) by (apply A; left; reflexivity).
  destruct (IH (step g c l o) N H1 (fun o' I => A o' (or_intror I))) as [E1 E2].
  destruct o; try contradiction; destruct H2 as [E3 E4]; rewrite E1, E2; auto.
Qed.

(* shutdown puts back exactly the hooks that were present before the matching start, whatever fails *)
Theorem shutdown_restores c l f :
  started l = false ->
  let l' := do_shutdown true c f (do_start c l) in
  sys_hook l' = sys_hook l /\ thr_hook l' = thr_hook l /\ started l' = false /\ inert l' = true /\ polling l' = false.
Proof.
  intros S. unfold do_start. rewrite S. destruct (no_trace c); unfold do_shutdown; simpl;
    rewrite !andb_false_r; destruct (plugin_steps true f 0 (nplugins c)) as [ps ok] eqn:P; simpl;
    assert (ok = true) by (clear -P; revert P; generalize 0%nat at 1; generalize (nplugins c); intros n; revert ps ok;
      induction n as [|k IH]; intros ps ok i P; simpl in P; [inversion P; reflexivity|];
      rewrite andb_false_r in P; destruct (plugin_steps true f (S i) k) as [r ok'] eqn:Q; inversion P; subst; eapply IH; eauto);
    subst ok; auto.
Qed.

(* every step of shutdown is attempted, in order, for every fault oracle *)
Fixpoint all_plugins (i n : nat) : list stepname := match n with O => [] | S k => SPlugin i :: all_plugins (S i) k end.
Lemma plugin_steps_guarded f : forall n i, plugin_steps true f i n = (all_plugins i n, true).
Proof.
  induction n as [|k IH]; intros i; simpl; [reflexivity|]. rewrite andb_false_r. rewrite IH. reflexivity.
Qed.

Theorem shutdown_attempts_everything c l f :
  started l = true ->
  attempted (do_shutdown true c f l) = [SHooks; SFlush; SPoll] ++ all_plugins 0 (nplugins c) /\
  started (do_shutdown true c f l) = false /\ inert (do_shutdown true c f l) = true.
Proof.
  intros S. unfold do_shutdown. rewrite S. simpl. rewrite !andb_false_r. rewrite plugin_steps_guarded. simpl. auto.
Qed.

Theorem inert_after_shutdown c l f w : started l = true -> handler_acts (do_shutdown true c f l) w = [].
Proof. intros S. unfold handler_acts. destruct (shutdown_attempts_everything c l f S) as (_ & _ & ->). reflexivity. Qed.

(* a later start makes the handler act again *)
Theorem start_clears_inert c l w : started l = false -> handler_acts (do_start c l) w = w.
Proof. intros S. unfold handler_acts, do_start. rewrite S. destruct (no_trace c); reflexivity. Qed.

(* unguarded shutdown: a failing plugin leaves the agent marked started and the later plugins untouched *)
Definition unguarded_witness : life :=
  do_shutdown false {| no_trace := false; nplugins := 2 |}
              {| f_flush := false; f_poll := false; f_plugin := fun i => Nat.eqb i 0 |}
              (do_start {| no_trace := false; nplugins := 2 |} (life0 5 6)).
Theorem unguarded_refuted : started unguarded_witness = true /\ attempted unguarded_witness = [SHooks; SFlush; SPoll; SPlugin 0].
Proof. vm_compute. auto. Qed.

(* restoring the saved hooks unconditionally (the code before its repair) is refuted: with tracing disabled the
   host's own hooks 5 and 6 are overwritten by shutdown *)
Definition shutdown_always_restores (l : life) : life :=
  {| sys_hook := saved_sys l; thr_hook := saved_thr l; started := false; saved_sys := saved_sys l; saved_thr := saved_thr l;
     hooks_installed := false; inert := true; polling := false; attempted := [SHooks; SFlush; SPoll] |}.
Definition notrace_clobber_witness : life :=
  shutdown_always_restores (do_start {| no_trace := true; nplugins := 0 |} (life0 5 6)).
Theorem notrace_clobber_refuted : sys_hook notrace_clobber_witness = 0%nat /\ thr_hook notrace_clobber_witness = 0%nat.
Proof. vm_compute. auto. Qed.

(* a start that fails leaves the process's hooks as they were, nothing started and nothing for a shutdown to do ... *)
Theorem failed_start_leaves_no_hooks c l :
  started l = false ->
  let l' := do_failed_start true c l in
  sys_hook l' = sys_hook l /\ thr_hook l' = thr_hook l /\ started l' = false /\ hooks_installed l' = false /\ inert l' = true.
Proof. intros S. unfold do_failed_start, do_start. rewrite S. destruct (no_trace c); simpl; auto. Qed.

(* ... and a later start / shutdown of the same agent still restores exactly the hooks of before *)
Theorem failed_start_then_cycle c l f :
  started l = false ->
  let l' := do_shutdown true c f (do_start c (do_failed_start true c l)) in
  sys_hook l' = sys_hook l /\ thr_hook l' = thr_hook l /\ started l' = false.
Proof.
  intros S. destruct (failed_start_leaves_no_hooks c l S) as (E1 & E2 & E3 & _).
  destruct (shutdown_restores c (do_failed_start true c l) f E3) as (A & B & C & _).
  cbv zeta. rewrite A, B, C, E1, E2. auto.
Qed.

(* without the clean-up (the code before its repair) the agent's hook stays for good: the failed start installs it, the agent is not
   marked started, so the shutdown that follows does nothing *)
Definition failed_start_witness : life :=
  do_shutdown true {| no_trace := false; nplugins := 0 |} {| f_flush := false; f_poll := false; f_plugin := fun _ => false |}
              (do_failed_start false {| no_trace := false; nplugins := 0 |} (life0 5 6)).
Theorem failed_start_without_cleanup_refuted : sys_hook failed_start_witness = AGENT /\ thr_hook failed_start_witness = AGENT.
Proof. vm_compute. auto. Qed.
