From Deep Require Import Base Config.
From Coq Require Import DecimalNat DecimalFacts.

(* ---------- precedence ---------- *)
Definition present (o : option cv) : option cv :=
  match o with Some v => if is_none v then None else Some v | None => None end.

Theorem resolve_precedence own custom dflt env :
  resolve own custom dflt env =
  match own, present custom, dflt, env with
  | Some v, _, _, _ => v                       (* a real attribute of the service *)
  | None, Some v, _, _ => call v               (* given in code: wins, functions are called *)
  | None, None, Some d, _ => call d            (* environment-backed default of deep.config *)
  | None, None, None, Some s => VText s        (* DEEP_<KEY> for a key deep.config does not know *)
  | None, None, None, None => VNoneV           (* absent *)
  end.
Proof.
  unfold resolve, present. destruct own as [v|]; [reflexivity|].
  destruct custom as [v|]; [destruct (is_none v)|]; destruct dflt, env; reflexivity.
Qed.

Theorem resolve_ignores_env_for_known_keys custom d env env' :
  resolve None custom (Some d) env = resolve None custom (Some d) env'.
Proof. unfold resolve. destruct custom as [v|]; [destruct (is_none v)|]; reflexivity. Qed.

(* ---------- same either way ---------- *)
Lemma parse_print_uint d : parse_uint (print_uint d) = Some d.
Proof. induction d; simpl; try reflexivity; rewrite IHd; reflexivity. Qed.

Lemma to_uint_nonnil n : Nat.to_uint n <> Decimal.Nil.
Proof.
  pose proof (Unsigned.to_of (Nat.to_uint n)) as H. rewrite Unsigned.of_to in H.
  rewrite H. apply unorm_nonnil.
Qed.

Lemma print_uint_nonempty d : d <> Decimal.Nil -> print_uint d <> [].
Proof. destruct d; simpl; intros H; try discriminate. contradiction. Qed.

Theorem parse_print_nat n : parse_nat (print_nat n) = Some n.
Proof.
  unfold parse_nat, print_nat.
  pose proof (print_uint_nonempty _ (to_uint_nonnil n)) as H.
  destruct (print_uint (Nat.to_uint n)) eqn:E; [contradiction|].
  rewrite <- E. rewrite parse_print_uint. simpl. rewrite Unsigned.of_to. reflexivity.
Qed.

Theorem interval_same_either_way n : as_interval (VText (print_nat n)) = as_interval (VNum n).
Proof. simpl. apply parse_print_nat. Qed.

Theorem bool_same_either_way (b : bool) :
  as_bool (VText (if b then TRUE_S else FALSE_S)) = as_bool (VBool b) /\ as_bool (VBool b) = Some b.
Proof. destruct b; split; reflexivity. Qed.

Definition comma_free (s : str) : Prop := ~ In 44 s.

Lemma split_comma_aux_nocomma s : forall cur, comma_free s -> split_comma_aux s cur = [rev cur ++ s].
Proof.
  induction s as [|c r IH]; intros cur H; simpl.
  - rewrite List.app_nil_r. reflexivity.
  - destruct (c =? 44) eqn:E.
    + apply Z.eqb_eq in E. exfalso. apply H. left. exact E.
    + rewrite IH; [|intros F; apply H; right; exact F]. simpl. rewrite <- List.app_assoc. reflexivity.
Qed.

Lemma split_comma_aux_app x : forall cur rest, comma_free x ->
  split_comma_aux (x ++ 44 :: rest) cur = (rev cur ++ x) :: split_comma_aux rest [].
Proof.
  induction x as [|c r IH]; intros cur rest H; simpl.
  - rewrite List.app_nil_r. reflexivity.
  - destruct (c =? 44) eqn:E.
    + apply Z.eqb_eq in E. exfalso. apply H. left. exact E.
    + rewrite IH; [|intros F; apply H; right; exact F]. simpl. rewrite <- List.app_assoc. reflexivity.
Qed.

Theorem split_join l : l <> [] -> Forall comma_free l -> split_comma (join_comma l) = l.
Proof.
  unfold split_comma. induction l as [|x r IH]; intros Hne Hf; [congruence|].
  inversion Hf as [|y ys Hx Hr]; subst. destruct r as [|x2 r'].
  - simpl. rewrite split_comma_aux_nocomma by exact Hx. reflexivity.
  - change (join_comma (x :: x2 :: r')) with (x ++ 44 :: join_comma (x2 :: r')).
    rewrite split_comma_aux_app by exact Hx. simpl rev. simpl app at 1.
    f_equal. apply IH; [discriminate | exact Hr].
Qed.

Theorem prefixes_same_either_way l :
  l <> [] -> Forall comma_free l -> as_prefixes (VText (join_comma l)) = as_prefixes (VList l).
Proof. intros Hne Hf. simpl. rewrite split_join by assumption. reflexivity. Qed.

(* an unset / empty setting contributes no prefix (in particular not the empty prefix, which
   would match every file) *)
Theorem prefixes_never_blank v : Forall (fun p => p <> []) (as_prefixes v).
Proof.
  assert (G : forall l, Forall (fun p : str => p <> []) (filter nonempty l)).
  { induction l as [|x r IH]; simpl; [constructor|]. destruct x; simpl; [exact IH|]. constructor; [discriminate | exact IH]. }
  destruct v; simpl; try constructor; apply G.
Qed.

(* ---------- application frames ---------- *)
Lemma first_prefix_none l f : first_prefix l f = None <-> forall p, In p l -> prefixb p f = false.
Proof.
  induction l as [|x r IH]; simpl; split; intros H.
  - intros p [].
  - reflexivity.
  - destruct (prefixb x f) eqn:E; [discriminate|]. intros p [<-|I]; [exact E | apply IH; assumption].
  - rewrite (H x (or_introl eq_refl)). apply IH. intros p I. apply H. right; exact I.
Qed.

Lemma first_prefix_some l f p : first_prefix l f = Some p -> In p l /\ prefixb p f = true.
Proof.
  induction l as [|x r IH]; simpl; [discriminate|]. destruct (prefixb x f) eqn:E.
  - intros H; inversion H; subst. split; [left; reflexivity | exact E].
  - intros H. destruct (IH H). split; [right; assumption | assumption].
Qed.

Theorem app_frame_iff excl incl root f :
  fst (is_app_frame excl incl root f) = true <->
  (forall p, In p excl -> prefixb p f = false) /\
  ((exists p, In p incl /\ prefixb p f = true) \/ prefixb root f = true).
Proof.
  unfold is_app_frame. destruct (first_prefix excl f) as [pe|] eqn:Ee.
  - simpl. split; [discriminate|]. intros [H _]. apply first_prefix_some in Ee as [I P].
    rewrite (H _ I) in P. discriminate.
  - pose proof (proj1 (first_prefix_none excl f) Ee) as Ee2. clear Ee. rename Ee2 into Ee. destruct (first_prefix incl f) as [pi|] eqn:Ei.
    + simpl. split; [|reflexivity]. intros _. split; [exact Ee|]. left. exists pi. apply first_prefix_some; exact Ei.
    + destruct (prefixb root f) eqn:Er; simpl.
      * split; [|reflexivity]. intros _. split; [exact Ee | right; reflexivity].
      * split; [discriminate|]. intros [_ [[p [I P]]|F]]; [|discriminate].
        rewrite (proj1 (first_prefix_none incl f) Ei p I) in P. discriminate.
Qed.

(* the reported match is a real prefix of the file name and the short path is the rest *)
Theorem short_path_spec excl incl root f m :
  snd (is_app_frame excl incl root f) = Some m -> f = m ++ short_path (Some m) f.
Proof.
  unfold is_app_frame. intros H.
  assert (P : prefixb m f = true).
  { destruct (first_prefix excl f) as [pe|] eqn:Ee.
    - simpl in H; inversion H; subst. apply first_prefix_some in Ee; tauto.
    - destruct (first_prefix incl f) as [pi|] eqn:Ei.
      + simpl in H; inversion H; subst. apply first_prefix_some in Ei; tauto.
      + destruct (prefixb root f) eqn:Er; simpl in H; inversion H; subst. exact Er. }
  apply prefixb_spec in P as [r ->]. simpl. f_equal.
  rewrite skipn_app, skipn_all, Nat.sub_diag. reflexivity.
Qed.

Theorem no_match_full_path excl incl root f :
  snd (is_app_frame excl incl root f) = None ->
  fst (is_app_frame excl incl root f) = false /\ short_path None f = f.
Proof.
  unfold is_app_frame. destruct (first_prefix excl f); [discriminate|].
  destruct (first_prefix incl f); [discriminate|]. destruct (prefixb root f); [discriminate|]. auto.
Qed.

(* files under the interpreter's own prefix are never application frames *)
Theorem exec_prefix_never_app ep excl incl root f :
  prefixb ep f = true -> fst (is_app_frame (with_exec_prefix ep excl) incl root f) = false.
Proof.
  intros P. destruct (fst (is_app_frame (with_exec_prefix ep excl) incl root f)) eqn:E; [|reflexivity].
  apply app_frame_iff in E as [H _]. exfalso.
  assert (I : In ep (with_exec_prefix ep excl)).
  { unfold with_exec_prefix. destruct (existsb (str_eqb ep) excl) eqn:X.
    - apply existsb_exists in X as [x [Ix Ex]]. apply str_eqb_eq in Ex. subst x. exact Ix.
    - apply in_or_app. right. left. reflexivity. }
  rewrite (H ep I) in P. discriminate.
Qed.
