From Deep Require Import Base Wire.

Lemma nodupb_NoDup l : nodupb l = true -> NoDup l.
Proof.
  induction l as [|x r IH]; simpl; intros H; [constructor|]. apply andb_true_iff in H as [H1 H2].
  constructor; [|apply IH; exact H2]. intros I. apply negb_true_iff in H1.
  assert (existsb (str_eqb x) r = true); [|congruence]. apply existsb_exists. exists x. split; [exact I|apply str_eqb_refl].
Qed.

Lemma dst_of_in m f d : dst_of m f = Some d -> In (d, f) m.
Proof.
  induction m as [|[d' f'] r IH]; simpl; [discriminate|]. destruct (str_eqb f' f) eqn:E.
  - intros H; inversion H; subst. apply str_eqb_eq in E; subst. left; reflexivity.
  - intros H; right; apply IH; exact H.
Qed.
Lemma dst_of_some m f : In f (map snd m) -> exists d, dst_of m f = Some d.
Proof.
  induction m as [|[d' f'] r IH]; simpl; [intros []|]. destruct (str_eqb f' f) eqn:E; [eauto|].
  intros [H|H]; [apply str_eqb_neq in E; contradiction|apply IH; exact H].
Qed.
Lemma alookup_in_nodup {V} (m : list (str * V)) d v : NoDup (map fst m) -> In (d, v) m -> alookup d m = Some v.
Proof.
  induction m as [|[d' v'] r IH]; simpl; intros N I; [destruct I|]. inversion N as [|x xs Hn Hd]; subst.
  destruct I as [E|I].
  - inversion E; subst. rewrite str_eqb_refl. reflexivity.
  - destruct (str_eqb d' d) eqn:E; [|apply IH; assumption]. apply str_eqb_eq in E; subst. exfalso. apply Hn.
    apply in_map_iff. exists (d, v). auto.
Qed.

(* the general law: a table that is lossless for a field list loses nothing, for every record *)
Theorem lossless_roundtrip {V} (dflt : V) m fields :
  lossless m fields = true ->
  forall (s : record V) f, In f fields -> unconvert V dflt m (convert V dflt m s) f = s f.
Proof.
  unfold lossless. intros H s f I. apply andb_true_iff in H as [H H4]. apply andb_true_iff in H as [H H3].
  apply andb_true_iff in H as [H1 H2]. rewrite forallb_forall in H3. specialize (H3 f I).
  apply existsb_exists in H3 as (f' & If & E). apply str_eqb_eq in E. subst f'.
  destruct (dst_of_some m f If) as [d D]. unfold unconvert, convert. rewrite D.
  rewrite (alookup_in_nodup m d f); [reflexivity|apply nodupb_NoDup; exact H1|apply dst_of_in; exact D].
Qed.

(* and nothing is invented: every message field that is written reads a field of the record *)
Theorem lossless_no_extra m fields d f :
  lossless m fields = true -> In (d, f) m -> In f fields.
Proof.
  unfold lossless. intros H I. apply andb_true_iff in H as [_ H4]. rewrite forallb_forall in H4.
  assert (J : In f (map snd m)) by (apply in_map_iff; exists (d, f); auto). specialize (H4 f J).
  apply existsb_exists in H4 as (x & Ix & E). apply str_eqb_eq in E. subst. exact Ix.
Qed.

Lemma same_table_in a b p : same_table a b = true -> In p a -> In p b.
Proof.
  unfold same_table. intros H I. apply andb_true_iff in H as [_ H]. rewrite forallb_forall in H. specialize (H p I).
  apply existsb_exists in H as (q & Iq & E). apply andb_true_iff in E as [E1 E2]. apply str_eqb_eq in E1, E2.
  destruct p, q; simpl in *; subst. exact Iq.
Qed.

(* attribute values survive conversion *)
Lemma unconv_conv v : unconv_value (conv_value v) = v.
Proof.
  revert v. fix IH 1. intros [b|s|z|f|l]; simpl; try reflexivity. f_equal. rewrite map_map.
  induction l as [|x r IHl]; simpl; [reflexivity|]. rewrite IH, IHl. reflexivity.
Qed.
Theorem conv_value_injective a b : conv_value a = conv_value b -> a = b.
Proof. intros E. rewrite <- (unconv_conv a), <- (unconv_conv b), E. reflexivity. Qed.

(* text: valid text is carried unchanged; whatever the text, what is sent is valid *)
Theorem sanitize_valid_unchanged s : valid_text s = true -> sanitize s = s.
Proof. unfold sanitize. intros ->. reflexivity. Qed.

Lemma hexd_small n : 0 <= n < 16 -> is_surr (hexd n) = false.
Proof. intros H. unfold hexd, is_surr. destruct (n <? 10) eqn:E; apply andb_false_iff; left; apply Z.leb_gt; lia. Qed.

Lemma esc_surr_valid c : 0 <= c < 65536 -> existsb is_surr (esc_surr c) = false.
Proof.
  intros H. unfold esc_surr. cbn [existsb].
  assert (A : 0 <= c / 4096 < 16) by (split; [apply Z.div_pos; lia|apply Z.div_lt_upper_bound; lia]).
  rewrite (hexd_small _ A), (hexd_small ((c / 256) mod 16)), (hexd_small ((c / 16) mod 16)), (hexd_small (c mod 16));
    try (apply Z.mod_pos_bound; lia). reflexivity.
Qed.

Theorem sanitize_always_valid s : valid_text (sanitize s) = true.
Proof.
  unfold sanitize. destruct (valid_text s) eqn:V; [exact V|]. unfold valid_text. apply negb_true_iff.
  clear V. induction s as [|c r IH]; [reflexivity|]. cbn [flat_map]. rewrite existsb_app, IH, orb_false_r.
  destruct (is_surr c) eqn:S.
  - apply esc_surr_valid. unfold is_surr in S. apply andb_true_iff in S as [A B]. apply Z.leb_le in A, B. lia.
  - cbn [existsb]. rewrite S. reflexivity.
Qed.
