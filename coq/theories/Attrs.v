(* Attrs.v -- executable model of deep.api.attributes (BoundedAttributes, _clean_attribute)
   and deep.api.resource (Resource.merge / Resource.create chain).  Model only; proofs are in
   AttrsProofs.v so that the model still evaluates when a proof breaks. *)
From Deep Require Import Base.

(* ---------- values as the cleaner can observe them ---------- *)
Inductive prim :=
| PBool (b : bool)
| PStr (s : str)
| PInt (z : Z)
| PFloat (f : Z)                 (* floats are opaque: index of the float in the case's table *)
| PBytes (dec : option str).     (* bytes: result of .decode(), None = UnicodeDecodeError *)
Inductive elem := EPrim (p : prim) | ENone | EBad.          (* element of a sequence value *)
Inductive val := VPrim (p : prim) | VSeq (l : list elem) | VOther.   (* VOther: None, dict, object *)
Inductive key := KStr (s : str) | KBad.                     (* KBad: not a str *)

(* cleaned (stored) values *)
Inductive cprim := CBool (b : bool) | CStr (s : str) | CInt (z : Z) | CFloat (f : Z).
Inductive cval := CP (p : cprim) | CSeq (l : list (option cprim)).
Inductive ctag := TBool | TStr | TInt | TFloat.
Definition tag_of (c : cprim) : ctag :=
  match c with CBool _ => TBool | CStr _ => TStr | CInt _ => TInt | CFloat _ => TFloat end.
Definition ctag_eqb (a b : ctag) : bool :=
  match a, b with TBool, TBool | TStr, TStr | TInt, TInt | TFloat, TFloat => true | _, _ => false end.

Definition cut (limit : option nat) (s : str) : str :=
  match limit with None => s | Some n => firstn n s end.

(* _clean_attribute_value on a value of a valid primitive type *)
Definition clean_prim (limit : option nat) (p : prim) : option cprim :=
  match p with
  | PBool b => Some (CBool b)
  | PStr s => Some (CStr (cut limit s))
  | PInt z => Some (CInt z)
  | PFloat f => Some (CFloat f)
  | PBytes None => None
  | PBytes (Some s) => Some (CStr (cut limit s))
  end.

(* the sequence loop of _clean_attribute: None = whole attribute rejected *)
Fixpoint clean_seq (limit : option nat) (first : option ctag) (l : list elem) : option (list (option cprim)) :=
  match l with
  | [] => Some []
  | ENone :: r => option_map (cons None) (clean_seq limit first r)
  | EBad :: _ => None
  | EPrim p :: r =>
      match clean_prim limit p with
      | None => option_map (cons None) (clean_seq limit first r)   (* undecodable bytes -> None element *)
      | Some c =>
          match first with
          | None => option_map (cons (Some c)) (clean_seq limit (Some (tag_of c)) r)
          | Some t => if ctag_eqb t (tag_of c)
                      then option_map (cons (Some c)) (clean_seq limit first r)
                      else None
          end
      end
  end.

Definition key_ok (k : key) : option str :=
  match k with KStr [] => None | KStr s => Some s | KBad => None end.

Definition clean (limit : option nat) (k : key) (v : val) : option cval :=
  match key_ok k with
  | None => None
  | Some _ =>
      match v with
      | VPrim p => option_map CP (clean_prim limit p)
      | VSeq l => option_map CSeq (clean_seq limit None l)
      | VOther => None
      end
  end.

(* ---------- the bounded store ---------- *)
Record store := { cap : option nat; vlimit : option nat; items : list (str * cval);
                  dropped : nat; immutable : bool }.
Inductive outcome := ROk | RTypeError | RKeyError.

Definition with_items (s : store) (it : list (str * cval)) (d : nat) : store :=
  {| cap := cap s; vlimit := vlimit s; items := it; dropped := d; immutable := immutable s |}.

Definition is_cap (c : option nat) (n : nat) : bool :=
  match c with Some m => Nat.eqb m n | None => false end.

Definition inb (k : str) (it : list (str * cval)) : bool :=
  match alookup k it with Some _ => true | None => false end.

Definition set_item (s : store) (k : key) (v : val) : store * outcome :=
  if immutable s then (s, RTypeError) else
  if is_cap (cap s) 0 then (with_items s (items s) (S (dropped s)), ROk) else
  match key_ok k, clean (vlimit s) k v with
  | Some ks, Some c =>
      if inb ks (items s) then (with_items s (aremove ks (items s) ++ [(ks, c)]) (dropped s), ROk)
      else if is_cap (cap s) (length (items s))
           then (with_items s (tl (items s) ++ [(ks, c)]) (S (dropped s)), ROk)
           else (with_items s (items s ++ [(ks, c)]) (dropped s), ROk)
  | _, _ => (s, ROk)
  end.

Definition del_item (s : store) (k : str) : store * outcome :=
  if immutable s then (s, RTypeError) else
  if inb k (items s) then (with_items s (aremove k (items s)) (dropped s), ROk)
  else (s, RKeyError).

Inductive op := OSet (k : key) (v : val) | ODel (k : str) | OMerge (l : list (key * val)).

(* merge_in stops at the first failing set (TypeError propagates) *)
Fixpoint merge_in (s : store) (l : list (key * val)) : store * outcome :=
  match l with
  | [] => (s, ROk)
  | (k, v) :: r => match set_item s k v with
                   | (s', ROk) => merge_in s' r
                   | (s', e) => (s', e)
                   end
  end.

Definition step (s : store) (o : op) : store * outcome :=
  match o with
  | OSet k v => set_item s k v
  | ODel k => del_item s k
  | OMerge l => merge_in s l
  end.

Fixpoint run (s : store) (ops : list op) : store * list outcome :=
  match ops with
  | [] => (s, [])
  | o :: r => let '(s1, out) := step s o in let '(s2, outs) := run s1 r in (s2, out :: outs)
  end.

(* constructor: attributes are set while the store is still mutable, then the flag is set *)
Definition make (c : option nat) (vl : option nat) (attrs : list (key * val)) (imm : bool) : store :=
  let s0 := {| cap := c; vlimit := vl; items := []; dropped := 0; immutable := false |} in
  let s1 := fst (merge_in s0 attrs) in
  {| cap := c; vlimit := vl; items := items s1; dropped := dropped s1; immutable := imm |}.

(* ---------- resources ---------- *)
Definition inj_prim (c : cprim) : prim :=
  match c with CBool b => PBool b | CStr s => PStr s | CInt z => PInt z | CFloat f => PFloat f end.
Definition inj_elem (e : option cprim) : elem := match e with Some c => EPrim (inj_prim c) | None => ENone end.
Definition inj (c : cval) : val := match c with CP p => VPrim (inj_prim p) | CSeq l => VSeq (map inj_elem l) end.

Record resource := { r_attrs : list (str * cval); r_schema : str }.

(* Resource(attributes, schema): an unbounded, value-unlimited, immutable store *)
Definition mk_resource (attrs : list (key * val)) (schema : str) : resource :=
  {| r_attrs := items (make None None attrs true); r_schema := schema |}.

(* dict.copy().update(other): existing keys keep their position, new keys are appended *)
Fixpoint aupdate (a : list (str * cval)) (k : str) (v : cval) : list (str * cval) :=
  match a with
  | [] => [(k, v)]
  | (k', v') :: r => if str_eqb k' k then (k', v) :: r else (k', v') :: aupdate r k v
  end.
Definition dict_update (a b : list (str * cval)) : list (str * cval) :=
  fold_left (fun acc kv => aupdate acc (fst kv) (snd kv)) b a.

Definition as_input (a : list (str * cval)) : list (key * val) :=
  map (fun kv => (KStr (fst kv), inj (snd kv))) a.

Definition is_empty (s : str) : bool := match s with [] => true | _ => false end.

Definition merge (a b : resource) : resource :=
  let merged := dict_update (r_attrs a) (r_attrs b) in
  if is_empty (r_schema a) then mk_resource (as_input merged) (r_schema b)
  else if is_empty (r_schema b) then mk_resource (as_input merged) (r_schema a)
  else if str_eqb (r_schema a) (r_schema b) then mk_resource (as_input merged) (r_schema b)
  else a.

Definition merge_all (base : resource) (l : list resource) : resource := fold_left merge l base.

(* Resource.create(attributes, schema) given the default resource, the environment resource and
   the textual names of the two keys it inspects; Deep.start then merges the plugin resources *)
Definition SERVICE_NAME : str := [115;101;114;118;105;99;101;46;110;97;109;101].
Definition PROCESS_EXE : str :=
  [112;114;111;99;101;115;115;46;101;120;101;99;117;116;97;98;108;101;46;110;97;109;101].
Definition UNKNOWN_SERVICE : str := [117;110;107;110;111;119;110;95;115;101;114;118;105;99;101].
Definition PYTHON : str := [112;121;116;104;111;110].

Definition truthy (v : option cval) : bool :=
  match v with
  | None => false
  | Some (CP (CBool b)) => b
  | Some (CP (CStr s)) => negb (is_empty s)
  | Some (CP (CInt z)) => negb (Z.eqb z 0)
  | Some (CP (CFloat _)) => true        (* the harness never generates float 0.0 / nan here *)
  | Some (CSeq l) => match l with [] => false | _ => true end
  end.

Definition create (dflt env : resource) (attrs : list (key * val)) (schema : str) : resource :=
  let r := merge (merge dflt env) (mk_resource attrs schema) in
  if truthy (alookup SERVICE_NAME (r_attrs r)) then r
  else
    let suffix := match alookup PROCESS_EXE (r_attrs r) with
                  | Some (CP (CStr s)) => if is_empty s then PYTHON else s
                  | _ => PYTHON
                  end in
    merge r (mk_resource [(KStr SERVICE_NAME, VPrim (PStr (UNKNOWN_SERVICE ++ [58] ++ suffix)))] schema).

(* ---------- boolean equality used by the correspondence check ---------- *)
Definition cprim_eqb (a b : cprim) : bool :=
  match a, b with
  | CBool x, CBool y => Bool.eqb x y
  | CStr x, CStr y => str_eqb x y
  | CInt x, CInt y => Z.eqb x y
  | CFloat x, CFloat y => Z.eqb x y
  | _, _ => false
  end.
Definition cval_eqb (a b : cval) : bool :=
  match a, b with
  | CP x, CP y => cprim_eqb x y
  | CSeq x, CSeq y => list_eqb (option_eqb cprim_eqb) x y
  | _, _ => false
  end.
Definition item_eqb (a b : str * cval) : bool := str_eqb (fst a) (fst b) && cval_eqb (snd a) (snd b).
Definition outcome_eqb (a b : outcome) : bool :=
  match a, b with ROk, ROk | RTypeError, RTypeError | RKeyError, RKeyError => true | _, _ => false end.

(* one correspondence case for the store: constructor arguments, operations, and what the
   implementation showed: per-op outcome, final items, final dropped *)
Record store_case := { sc_cap : option nat; sc_vlimit : option nat; sc_init : list (key * val);
                       sc_imm : bool; sc_ops : list op;
                       sc_outs : list outcome; sc_items : list (str * cval); sc_dropped : nat }.
Definition check_store_case (c : store_case) : bool :=
  let '(s, outs) := run (make (sc_cap c) (sc_vlimit c) (sc_init c) (sc_imm c)) (sc_ops c) in
  list_eqb outcome_eqb outs (sc_outs c) && list_eqb item_eqb (items s) (sc_items c)
  && Nat.eqb (dropped s) (sc_dropped c).

(* resource chain case: Resource.create(attrs, schema) with a given env resource, then plugin
   resources merged in order; observed: final attributes and schema *)
Record res_case := { rc_dflt : list (key * val); rc_env : list (key * val);
                     rc_attrs : list (key * val); rc_schema : str;
                     rc_plugins : list (list (key * val) * str);
                     rc_items : list (str * cval); rc_out_schema : str }.
Definition run_res_case (c : res_case) : resource :=
  merge_all (create (mk_resource (rc_dflt c) []) (mk_resource (rc_env c) []) (rc_attrs c) (rc_schema c))
            (map (fun p => mk_resource (fst p) (snd p)) (rc_plugins c)).
Definition check_res_case (c : res_case) : bool :=
  let r := run_res_case c in
  list_eqb item_eqb (r_attrs r) (rc_items c) && str_eqb (r_schema r) (rc_out_schema c).
