(* TieLine.v -- TracePointConfig.line_no as it is in /repo/src NOW (gen/PLine.v): what goes into the UNSIGNED line_number field of the
   wire message is never negative - a method tracepoint (the agent holds -1 for it) reports 0 - and a real line is reported as it is. *)
From Deep Require Import Base PureSupport.
From DeepGen Require Import PLine.
From Coq Require Import Lia.
Local Open Scope Z_scope.

Lemma code_line_fits_the_wire n : 0 <= gen_line_no n.
Proof. unfold gen_line_no. destruct (Z.ltb_spec n 0); lia. Qed.

Lemma code_line_kept n : 0 <= n -> gen_line_no n = n.
Proof. intros H. unfold gen_line_no. destruct (Z.ltb_spec n 0); [lia|reflexivity]. Qed.
