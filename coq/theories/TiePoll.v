(* TiePoll.v -- LongPoll.poll as translated from /repo/src on every run (gen/PPoll.v): one poll sends the service's current hash
   and, by the kind of the answer, performs exactly one step of ConfigSvc.step: PollNoChange with the answer's time, or
   PollUpdate with the answer's time, hash and (converted) tracepoints.  What raising does (transport error, an answer that
   cannot be converted: PollFailed) is the exception-flow skeleton's subject, not this file's. *)
From Deep Require Import Base ConfigSvc PureSupport.
From DeepGen Require Import PService PPoll.
Local Open Scope Z_scope.

Definition svc_view (s : svc) : cfg * option nat * Z * list task := (polled s, hash s, last_update s, pending s).

(* the answer as the model's operation *)
Definition op_of_answer (no_change : Z) (r : (Z * Z) * (nat * cfg)) : op :=
  if fst (fst r) =? no_change then PollNoChange (snd (fst r)) else PollUpdate (snd (fst r)) (fst (snd r)) (snd (snd r)).

Lemma tie_poll s now nc answer :
  gen_poll (polled s) (hash s) (last_update s) (pending s) now nc answer =
  svc_view (step true s (op_of_answer nc (answer (hash s)))).
Proof.
  unfold gen_poll, op_of_answer, svc_view. cbv zeta beta.
  destruct (fst (fst (answer (hash s))) =? nc); reflexivity.
Qed.

(* the request carries the CURRENT hash and nothing else of the state: two services that agree on what they answer to that hash
   are indistinguishable to the poll *)
Lemma poll_sends_current_hash polled hash last_update pending now nc a1 a2 :
  a1 hash = a2 hash ->
  gen_poll polled hash last_update pending now nc a1 = gen_poll polled hash last_update pending now nc a2.
Proof. intros E. unfold gen_poll. cbv zeta beta. rewrite E. reflexivity. Qed.

(* a poll never touches the registrations or what is installed: only a task does (C12_converges) *)
Lemma poll_no_change_keeps s now nc answer :
  fst (fst (answer (hash s))) = nc ->
  gen_poll (polled s) (hash s) (last_update s) (pending s) now nc answer =
  (polled s, hash s, snd (fst (answer (hash s))), pending s).
Proof.
  intros E. rewrite tie_poll. unfold op_of_answer. rewrite E, Z.eqb_refl. reflexivity.
Qed.
