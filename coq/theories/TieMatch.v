(* TieMatch.v -- functions of the agent as translated from /repo/src on every run (gen/P*.v, harness/translate/pure.py)
   ARE the functions the hand-written model uses; statements about the translated code follow from that. *)
From Deep Require Import Base Match PureSupport.
From DeepGen Require Import PMatch.
From Coq Require Import Lia.
Local Open Scope Z_scope.

(* ---------- trigger placement: api/tracepoint/trigger.py ---------- *)
Definition kind_name (k : ekind) : str :=
  match k with
  | KCall => [99; 97; 108; 108] | KLine => [108; 105; 110; 101]
  | KReturn => [114; 101; 116; 117; 114; 110] | KException => [101; 120; 99; 101; 112; 116; 105; 111; 110]
  end.

Lemma tie_line_at_location p n e :
  gen_line_at_location p n (kind_name (e_kind e)) (e_file e) (e_line e) (e_func e) = at_loc (LLine p n) e.
Proof.
  unfold gen_line_at_location, at_loc.
  destruct (e_kind e); simpl;
    repeat match goal with |- context [if ?b then true else false] => destruct b end; reflexivity.
Qed.

Lemma tie_func_at_location p f e :
  gen_func_at_location p f (kind_name (e_kind e)) (e_file e) (e_line e) (e_func e) = at_loc (LFunc p (Some f)) e.
Proof.
  unfold gen_func_at_location, at_loc.
  destruct (str_eqb (e_file e) p); simpl; [|reflexivity].
  destruct (e_kind e); simpl; try reflexivity.
  destruct (str_eqb (e_func e) f); reflexivity.
Qed.


Lemma code_line_match p n ev f ln fn :
  gen_line_at_location p n ev f ln fn = true <-> ev = [108; 105; 110; 101] /\ f = p /\ ln = n.
Proof.
  unfold gen_line_at_location. split.
  - destruct (str_eqb ev [108; 105; 110; 101]) eqn:A; destruct (str_eqb f p) eqn:B; destruct (ln =? n) eqn:C; simpl; try discriminate.
    intros _. apply str_eqb_eq in A, B. apply Z.eqb_eq in C. auto.
  - intros (-> & -> & ->). rewrite !str_eqb_refl, Z.eqb_refl. reflexivity.
Qed.

Lemma code_func_match p fname ev f ln fn :
  gen_func_at_location p fname ev f ln fn = true <-> ev = [99; 97; 108; 108] /\ f = p /\ fn = fname.
Proof.
  unfold gen_func_at_location. split.
  - destruct (str_eqb f p) eqn:B; simpl; [|discriminate].
    destruct (str_eqb ev [99; 97; 108; 108]) eqn:A; destruct (str_eqb fn fname) eqn:C; simpl; try discriminate.
    intros _. apply str_eqb_eq in A, B, C. auto.
  - intros (-> & -> & ->). rewrite !str_eqb_refl. reflexivity.
Qed.

(* ---------- TriggerHandler.__actions_for_location: every installed trigger that is at the location contributes its actions,
   in order (Match.actions_for) ---------- *)
Lemma kind_of_kind_name k : kind_of_name (kind_name k) = Some k.
Proof. destruct k; reflexivity. Qed.

Lemma tie_actions_for_location ts e :
  gen_actions_for_location ts (kind_name (e_kind e)) (e_file e) (e_line e) (e_func e) = actions_for ts e.
Proof.
  unfold gen_actions_for_location, actions_for, trigger_at_location. cbv zeta. rewrite kind_of_kind_name. simpl app.
  destruct e as [k f l fn]. reflexivity.
Qed.
