(* TieTraverse.v -- the traversal as it is in /repo/src NOW: bfs.breadth_first_search (one iteration of its work-list loop,
   gen_bfs_iter) driven by VariableSetProcessor.search_function (gen_search_function), both translated statement by statement
   on every run (gen/PCollect.v), compute exactly what the hand-written model's `run` computes.  The parts of the collector
   the two translated functions CALL (process_variable, the parent's add_child, process_child_nodes, Node.add_children) are
   instantiated with the model's pieces (m_process, m_attach, m_child_nodes, m_add_children: tied by correspondence). *)
From Deep Require Import Base Config Collector CollectorProofs PureSupport TieCollect.
From DeepGen Require Import PCollect.
From Coq Require Import Lia Sorted.
Local Open Scope nat_scope.

(* a node of the real work list: the value-less node process_variable starts from (its one child is the root value), or
   a node with a value *)
Inductive wnode := WWrap (initial : node) | WNode (n : node).
Definition w_value (w : wnode) : option node := match w with WWrap _ => None | WNode n => Some n end.
Definition w_children (w : wnode) : list wnode := match w with WWrap i => [WNode i] | WNode _ => [] end.
Definition w_depth (w : wnode) : nat := match w with WWrap _ => 0 | WNode n => n_depth n end.
Definition unwrap (l : list wnode) : list node := flat_map (fun w => match w with WNode n => [n] | WWrap _ => [] end) l.

(* the collector's state without the work list *)
Record core := { k_cache : list nat; k_table : list (nat * var); k_roots : list vref; k_log : list (nat * nat) }.
Definition mk_st (k : core) (q : list node) (b : bool) : st :=
  {| cache := k_cache k; table := k_table k; roots := k_roots k; queue := q; stopped := b; log := k_log k |}.
Definition core_of (s : st) : core := {| k_cache := cache s; k_table := table s; k_roots := roots s; k_log := log s |}.

Section Traverse.
Variables (c : cfg) (h : heap).

Definition m_budget_ok (k : core) : bool :=
  gen_check_var_count (Z.of_nat (length (k_cache k))) (Z.of_nat (max_vars c)).       (* the translated budget test *)
Definition m_ref (n : node) (v : nat) : vref := {| r_vid := v; r_name := n_name n; r_orig := n_orig n |}.
Definition m_process (n : node) (k : core) : (vref * bool) * core :=
  match lookup_cache (k_cache k) (n_oid n) with
  | Some v => ((m_ref n v, false), k)
  | None => let v := S (length (k_cache k)) in
            ((m_ref n v, true),
             {| k_cache := k_cache k ++ [n_oid n]; k_table := k_table k ++ [(v, record_var c h (n_oid n))];
                k_roots := k_roots k; k_log := k_log k ++ [(v, n_depth n)] |})
  end.
Definition m_attach (w : wnode) (r : vref) (k : core) : core :=
  match w with
  | WWrap _ => k
  | WNode n => let '(t, rs) := attach (k_table k) (k_roots k) (n_par n) r in
               {| k_cache := k_cache k; k_table := t; k_roots := rs; k_log := k_log k |}
  end.
Definition m_child_nodes (r : vref) (n : node) (d : nat) : list wnode := map WNode (children_of c h (n_oid n) d (r_vid r)).
(* Node.add_children as translated: a new child is put one level below its parent (the model's child nodes carry that depth
   already: CollectorProofs.children_parent) *)
Definition w_set_depth (w : wnode) (z : Z) : wnode :=
  match w with
  | WNode n => WNode {| n_name := n_name n; n_orig := n_orig n; n_oid := n_oid n; n_par := n_par n; n_depth := Z.to_nat z |}
  | WWrap i => WWrap i
  end.
Definition m_add_children (ch : list wnode) (d : nat) (new : list wnode) : list wnode :=
  gen_add_children w_set_depth (Z.of_nat d) ch new.

(* process_variable as translated, on the model's cache (object ids in recording order: the id of the i-th is i+1), table
   and heap; the ghost log records (id, depth) of every NEW variable *)
Definition m_mk_ref (v : nat) (name : str) (_ : unit) (orig : option str) : vref := {| r_vid := v; r_name := name; r_orig := orig |}.
Definition m_mk_variable (ty val : str) (oid : nat) (tr : bool) : var :=
  {| v_ty := ty; v_val := val; v_trunc := tr; v_oid := oid; v_children := [] |}.
Definition code_process (n : node) (k : core) : (vref * bool) * core :=
  let '((c', t'), (r, b)) :=
    gen_process_variable n_name n_orig n_oid (fun o => o) (fun o => o_ty (hget h o)) (fun t => t) (fun _ o => otext (hget h o))
      (fun _ => tt) lookup_cache (fun cs o => (S (length cs), cs ++ [o])) m_mk_ref m_mk_variable
      (fun tb v x => tb ++ [(v, x)]) (Z.of_nat (max_str c)) (k_cache k) (k_table k) n in
  ((r, b), {| k_cache := c'; k_table := t'; k_roots := k_roots k;
              k_log := if b then k_log k ++ [(r_vid r, n_depth n)] else k_log k |}).

Lemma tie_process n k : code_process n k = m_process n k.
Proof.
  unfold code_process, gen_process_variable, m_process.
  destruct (lookup_cache (k_cache k) (n_oid n)) as [v|].
  - destruct k; reflexivity.
  - rewrite tie_truncate_string. reflexivity.
Qed.

(* identity first: an object already recorded keeps its id - no new entry, no children again ... *)
Lemma code_process_known n k v :
  lookup_cache (k_cache k) (n_oid n) = Some v -> code_process n k = ((m_ref n v, false), k).
Proof. intros L. rewrite tie_process. unfold m_process. rewrite L. reflexivity. Qed.

(* ... and an object seen for the first time gets the NEXT id (ids are 1, 2, 3, ... in recording order), exactly one new
   table entry that carries its identity, and its children are processed *)
Lemma code_process_new n k :
  lookup_cache (k_cache k) (n_oid n) = None ->
  let '((r, b), k') := code_process n k in
  r = m_ref n (S (length (k_cache k))) /\ b = true /\ k_cache k' = k_cache k ++ [n_oid n] /\
  k_table k' = k_table k ++ [(S (length (k_cache k)), record_var c h (n_oid n))] /\ k_roots k' = k_roots k.
Proof. intros L. rewrite tie_process. unfold m_process. rewrite L. cbn. repeat split. Qed.

Definition code_consumer : wnode -> list wnode -> core -> (list wnode * core) * bool :=
  gen_search_function m_budget_ok w_value w_depth code_process m_attach m_child_nodes m_add_children.
Definition code_iter : list wnode -> core -> wl_result wnode core := gen_bfs_iter code_consumer w_children.
(* VariableSetProcessor.process_variable: breadth_first_search(Node(None, [Node(NodeValue(name, value))]), search_function) *)
Definition code_traverse (fuel : nat) (root : node) (k : core) : core * bool :=
  wl_run code_iter fuel (gen_bfs_iter_start (WWrap root)) k.

Lemma tie_add_children {N} (set_depth : N -> Z -> N) d new : forall ex,
  gen_add_children set_depth d ex new = ex ++ map (fun ch => set_depth ch (d + 1)%Z) new.
Proof.
  unfold gen_add_children. induction new as [|x r IH]; intros ex; cbn [fold_left map]; [rewrite app_nil_r; reflexivity|].
  rewrite IH, <- app_assoc. reflexivity.
Qed.

Lemma add_model_children ch o d v :
  m_add_children ch d (map WNode (children_of c h o d v)) = ch ++ map WNode (children_of c h o d v).
Proof.
  unfold m_add_children. rewrite tie_add_children. f_equal. rewrite map_map. apply map_ext_in. intros n I.
  destruct (children_parent c h o d v n I) as (_ & D & _). unfold w_set_depth.
  replace (Z.to_nat (Z.of_nat d + 1)) with (S d) by lia. rewrite <- D. destruct n; reflexivity.
Qed.

Lemma unwrap_map q : unwrap (map WNode q) = q.
Proof. unfold unwrap. induction q as [|x r IH]; cbn [map flat_map app]; [reflexivity|]. rewrite IH. reflexivity. Qed.

Lemma budget_ok_model k : m_budget_ok k = negb (max_vars c <? length (k_cache k)).
Proof. unfold m_budget_ok. apply tie_check_var_count. Qed.

(* one iteration of the translated loop is one step of the model *)
Lemma tie_step k q :
  match code_iter (map WNode q) k with
  | WEnd k' => step true c h (mk_st k q false) = mk_st k' [] (match q with [] => false | _ => true end)
  | WGo q' k' => exists q2, q' = map WNode q2 /\ step true c h (mk_st k q false) = mk_st k' q2 false
  end.
Proof.
  destruct q as [|n r].
  - reflexivity.
  - unfold code_iter, gen_bfs_iter, code_consumer, gen_search_function.
    cbn [map length Nat.eqb negb py_pop_first w_children w_value w_depth].
    rewrite budget_ok_model. unfold step. cbn [stopped mk_st queue pop cache table roots log].
    destruct (max_vars c <? length (k_cache k)) eqn:B; cbn [negb].
    + reflexivity.
    + rewrite tie_process. unfold m_process. destruct (lookup_cache (k_cache k) (n_oid n)) as [v|] eqn:L; cbn [fst snd].
      * unfold m_attach. fold (m_ref n v).
        destruct (attach (k_table k) (k_roots k) (n_par n) (m_ref n v)) as [t rs] eqn:A.
        exists r. rewrite app_nil_r. split; reflexivity.
      * unfold m_child_nodes. cbn [r_vid m_ref]. rewrite add_model_children. unfold m_attach. cbn [k_table k_roots k_cache k_log r_vid m_ref app].
        fold (m_ref n (S (length (k_cache k)))).
        destruct (attach (k_table k ++ [(S (length (k_cache k)), record_var c h (n_oid n))]) (k_roots k) (n_par n)
                         (m_ref n (S (length (k_cache k))))) as [t rs] eqn:A.
        exists (r ++ children_of c h (n_oid n) (n_depth n) (S (length (k_cache k)))).
        rewrite map_app. split; reflexivity.
Qed.

Lemma run_fixed fuel : forall s, finished s = true -> run fuel true c h s = s.
Proof.
  induction fuel as [|f IH]; intros s F; [reflexivity|]. simpl. rewrite (finished_stable c h true s F). apply IH. exact F.
Qed.

(* ... hence the translated loop is the model's run, for every fuel, state and work list *)
Lemma tie_run fuel : forall k q,
  wl_run code_iter fuel (map WNode q) k =
  (core_of (run fuel true c h (mk_st k q false)), finished (run fuel true c h (mk_st k q false))).
Proof.
  induction fuel as [|f IH]; intros k q.
  - destruct k; destruct q; reflexivity.
  - cbn [wl_run run]. pose proof (tie_step k q) as T. destruct (code_iter (map WNode q) k) as [k'|q' k'].
    + rewrite T. rewrite run_fixed by (unfold finished; cbn [mk_st stopped queue]; apply Bool.orb_true_r).
      destruct k'. unfold finished. cbn [mk_st stopped queue core_of cache table roots log]. rewrite Bool.orb_true_r. reflexivity.
    + destruct T as (q2 & -> & ->). apply IH.
Qed.

(* process_variable's traversal (from the value-less start node) is the model's traversal from the root value *)
Theorem tie_traverse fuel root k :
  code_traverse (S (S fuel)) root k =
  (core_of (run (S fuel) true c h (mk_st k [root] false)), finished (run (S fuel) true c h (mk_st k [root] false))).
Proof.
  unfold code_traverse, gen_bfs_iter_start. cbn [wl_run].
  unfold code_iter at 1, gen_bfs_iter, code_consumer, gen_search_function.
  cbn [length Nat.eqb negb py_pop_first w_children w_value].
  rewrite budget_ok_model.
  destruct (max_vars c <? length (k_cache k)) eqn:B; cbn [negb].
  - (* the budget is already used up: nothing is recorded, by the code and by the model *)
    assert (E : step true c h (mk_st k [root] false) = mk_st k [] true).
    { unfold step. cbn [stopped mk_st queue pop cache]. rewrite B. reflexivity. }
    cbn [run]. rewrite E. rewrite run_fixed by reflexivity. destruct k; reflexivity.
  - cbn [app]. change [WNode root] with (map WNode [root]). exact (tie_run (S fuel) k [root]).
Qed.

Definition core_init (cs : list nat) (tbl : list (nat * var)) : core := {| k_cache := cs; k_table := tbl; k_roots := []; k_log := [] |}.
Lemma mk_st_init cs tbl name o : mk_st (core_init cs tbl) [root_node name o] false = init cs tbl name o.
Proof. reflexivity. Qed.

(* ---------- what the model's theorems say about the translated traversal ---------- *)

(* breadth first: the translated loop records in non-decreasing depth, also when the budget cuts it short *)
Theorem code_bfs fuel cs tbl name o :
  StronglySorted le (map snd (k_log (fst (code_traverse (S (S fuel)) (root_node name o) (core_init cs tbl))))).
Proof.
  rewrite tie_traverse, mk_st_init. cbn [fst core_of k_log].
  destruct (run_layered c h (S fuel) _ (init_layered cs tbl name o)) as (d & A & B & _ & _ & _ & _ & S). exact S.
Qed.

(* budget: it never hands out more than max_variables + 1 ids *)
Theorem code_budget fuel cs tbl name o B :
  S (max_vars c) <= B -> length cs <= B ->
  length (k_cache (fst (code_traverse (S (S fuel)) (root_node name o) (core_init cs tbl)))) <= B.
Proof.
  intros HB Hc. rewrite tie_traverse, mk_st_init. cbn [fst core_of k_cache].
  apply run_count; assumption.
Qed.

(* it ends: with fuel mu it reports that it finished (returned or emptied its list) *)
Theorem code_terminates fuel cs tbl name o :
  mu c h (init cs tbl name o) <= S fuel ->
  snd (code_traverse (S (S fuel)) (root_node name o) (core_init cs tbl)) = true.
Proof.
  intros L. rewrite tie_traverse, mk_st_init. cbn [snd]. apply run_terminates. exact L.
Qed.
End Traverse.
