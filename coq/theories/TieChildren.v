(* TieChildren.v -- child discovery as it is in /repo/src NOW (gen/PChildren.v, translated on every run):
   process_child_nodes (the no-child types and the depth gate) with process_list_breadth_first and correct_names (TieNames.v)
   are the corresponding parts of Collector.children_of. *)
From Deep Require Import Base Config Collector PureSupport TieNames.
From DeepGen Require Import PChildren.
From Coq Require Import Lia.
Local Open Scope Z_scope.

(* ---------- process_child_nodes ---------- *)
(* NO_CHILD_TYPES as every reader of the module sees it (the ten names plus the four iterator names added below it):
   str, int, float, bool, type, module, unicode, long, NoneType, traceback, list_iterator, listiterator, list_reverseiterator, listreverseiterator *)
Definition NO_CHILD_NAMES : list str := [[115; 116; 114]; [105; 110; 116]; [102; 108; 111; 97; 116]; [98; 111; 111; 108]; [116; 121; 112; 101]; [109; 111; 100; 117; 108; 101]; [117; 110; 105; 99; 111; 100; 101]; [108; 111; 110; 103]; [78; 111; 110; 101; 84; 121; 112; 101]; [116; 114; 97; 99; 101; 98; 97; 99; 107]; [108; 105; 115; 116; 95; 105; 116; 101; 114; 97; 116; 111; 114]; [108; 105; 115; 116; 105; 116; 101; 114; 97; 116; 111; 114]; [108; 105; 115; 116; 95; 114; 101; 118; 101; 114; 115; 101; 105; 116; 101; 114; 97; 116; 111; 114]; [108; 105; 115; 116; 114; 101; 118; 101; 114; 115; 101; 105; 116; 101; 114; 97; 116; 111; 114]].

Lemma tie_process_child_nodes {N V T : Type} (type_of : V -> T) (type_name : T -> str) (find : V -> T -> list N) (maxd d : nat) (v : V) :
  gen_process_child_nodes type_of type_name find (Z.of_nat maxd) v (Z.of_nat d) =
  if existsb (str_eqb (type_name (type_of v))) NO_CHILD_NAMES then []
  else if (maxd <=? d + 1)%nat then [] else find v (type_of v).
Proof.
  unfold gen_process_child_nodes. change (_ ++ _) with NO_CHILD_NAMES.
  destruct (existsb (str_eqb (type_name (type_of v))) NO_CHILD_NAMES); [reflexivity|].
  destruct (Nat.leb_spec maxd (d + 1)) as [L|L].
  - assert (Z.of_nat d + 1 >=? Z.of_nat maxd = true) as -> by (apply Z.geb_le; lia). reflexivity.
  - destruct (Z.geb_spec (Z.of_nat d + 1) (Z.of_nat maxd)) as [G|G]; [lia|reflexivity].
Qed.

(* ---------- the three together are Collector.children_of ---------- *)
Section Children.
Variables (c : cfg) (h : heap).

(* find_children_for_parent on a heap object: dict entries / sequence elements (the translated cap) / attributes (the
   translated name correction); the dispatch on the kind of object is the model's (tied by correspondence) *)
Definition code_find (v d : nat) (o : nat) (ty : str) : list node :=
  match o_kind (hget h o) with
  | KLeaf => []
  | KDict ch => map (fun x => mk_node v d (c_name x) None (c_oid x)) ch
  | KSeq el => gen_process_list (fun name e (_ : unit) => mk_node v d name None e) (Z.of_nat (max_coll c)) tt el
  | KObj attrs => map (fun x => let n := gen_correct_names ty (c_name x) in
                                mk_node v d n (if str_eqb n (c_name x) then None else Some (c_name x)) (c_oid x)) attrs
  end.
Definition code_children (o d v : nat) : list node :=
  gen_process_child_nodes (fun o => o_ty (hget h o)) (fun t => t) (code_find v d) (Z.of_nat (max_depth c)) o (Z.of_nat d).

(* how the harness reader classifies: an object whose type name is a no-child name is a leaf *)
Definition reader_convention (ob : obj) : Prop := existsb (str_eqb (o_ty ob)) NO_CHILD_NAMES = true -> o_kind ob = KLeaf.

Theorem tie_children o d v : reader_convention (hget h o) -> code_children o d v = children_of c h o d v.
Proof.
  intros R. unfold code_children. rewrite tie_process_child_nodes. unfold children_of.
  destruct (existsb (str_eqb (o_ty (hget h o))) NO_CHILD_NAMES) eqn:E.
  - rewrite (R E). destruct (max_depth c <=? d + 1)%nat; reflexivity.
  - destruct (max_depth c <=? d + 1)%nat; [reflexivity|]. unfold code_find.
    destruct (o_kind (hget h o)) as [|ch|el|attrs]; [reflexivity|reflexivity| |].
    + apply tie_process_list.
    + apply map_ext. intros x. rewrite tie_correct_names. reflexivity.
Qed.

(* depth: nothing is discovered below the last level that may be recorded *)
Theorem code_depth_gate o d v : (max_depth c <= d + 1)%nat -> code_children o d v = [].
Proof.
  intros L. unfold code_children. rewrite tie_process_child_nodes.
  destruct (existsb _ _); [reflexivity|]. apply Nat.leb_le in L. rewrite L. reflexivity.
Qed.
End Children.
