(* TieLimits.v -- functions of the agent as translated from /repo/src on every run (gen/P*.v, harness/translate/pure.py)
   ARE the functions the hand-written model uses; statements about the translated code follow from that. *)
From Deep Require Import Base Config Limiter PureSupport.
From DeepGen Require Import PLimits.
From Coq Require Import Lia.
Local Open Scope Z_scope.

(* ---------- rate limiting: api/tracepoint/trigger.py, tracepoint_config.py ---------- *)
Lemma tie_in_window l ts : gen_in_window (ws l) (we l) ts = in_window l ts.
Proof.
  unfold gen_in_window, in_window. rewrite !Z.gtb_ltb. reflexivity.
Qed.

Lemma tie_fire s ts : gen_fire (cnt s) (lastf s) ts = (cnt (fire s ts), lastf (fire s ts)).
Proof. reflexivity. Qed.

Lemma tie_can_trigger l s ts :
  gen_can_trigger (fc l) (fp l) (ws l) (we l) (cnt s) (lastf s) ts = can_trigger l s ts.
Proof.
  unfold gen_can_trigger, can_trigger, gen_stats_fire_count, gen_stats_last_fire, gen_fire_period_ns.
  rewrite tie_in_window. cbv zeta.
  destruct (negb (fc l =? -1) && (fc l <=? cnt s)); [reflexivity|].
  destruct (negb (in_window l ts)); [reflexivity|].
  destruct (negb (lastf s =? 0)); simpl; [|reflexivity].
  rewrite Z.gtb_ltb. reflexivity.
Qed.

(* try_trigger (one atomic step under the action's lock) is the locked model's acquire step *)
Lemma tie_try_trigger l s ts :
  gen_try_trigger (fc l) (fp l) (ws l) (we l) (cnt s) (lastf s) ts =
  if can_trigger l s ts then ((cnt (fire s ts), lastf (fire s ts)), true) else ((cnt s, lastf s), false).
Proof.
  unfold gen_try_trigger. rewrite tie_can_trigger. destruct (can_trigger l s ts); reflexivity.
Qed.


(* ====================================================================================================
   Statements about THE CODE (the translated functions), obtained from the ties and the model theorems
   ==================================================================================================== *)
Lemma code_can_trigger_sound fc fp ws we cnt lastf ts :
  gen_can_trigger fc fp ws we cnt lastf ts = true ->
  (fc = -1 \/ cnt < fc) /\ gen_in_window ws we ts = true /\ (lastf = 0 \/ fp * 1000000 <= 0 \/ fp * 1000000 <= ts - lastf).
Proof.
  unfold gen_can_trigger, gen_stats_fire_count, gen_stats_last_fire, gen_fire_period_ns. cbv zeta.
  destruct (fc =? -1) eqn:A; destruct (fc <=? cnt) eqn:B; simpl; try discriminate;
    (destruct (gen_in_window ws we ts); simpl; [|discriminate]);
    (destruct (lastf =? 0) eqn:C; simpl;
      [intros _ | destruct (fp * 1000000 >? 0) eqn:E; destruct (ts - lastf <? fp * 1000000) eqn:D; simpl; try discriminate; intros _]);
    rewrite ?Z.gtb_ltb in *;
    rewrite ?Z.eqb_eq, ?Z.eqb_neq, ?Z.leb_le, ?Z.leb_gt, ?Z.ltb_lt, ?Z.ltb_ge in *;
    repeat split; try reflexivity; try (left; lia); try (right; left; lia); try (right; right; lia); try (right; lia).
Qed.

Lemma code_try_trigger fc fp ws we cnt lastf ts :
  gen_try_trigger fc fp ws we cnt lastf ts =
  if gen_can_trigger fc fp ws we cnt lastf ts then ((cnt + 1, ts), true) else ((cnt, lastf), false).
Proof. unfold gen_try_trigger, gen_fire. destruct (gen_can_trigger fc fp ws we cnt lastf ts); reflexivity. Qed.

(* ---------- the settings of an action: LocationAction.__get_int, fire_count, fire_period ---------- *)
Lemma tie_get_int c k d : gen_get_int c k d = get_int (alookup k c) d.
Proof.
  unfold gen_get_int, get_int, cfg_get, py_int. destruct (alookup k c) as [[s|z]|]; [|reflexivity|reflexivity].
  destruct (parse_int s); reflexivity.
Qed.

Lemma tie_settings c a b :
  gen_fire_count c = fc (mk_lim (alookup [102;105;114;101;95;99;111;117;110;116] c) (alookup [102;105;114;101;95;112;101;114;105;111;100] c) a b) /\
  gen_fire_period c = fp (mk_lim (alookup [102;105;114;101;95;99;111;117;110;116] c) (alookup [102;105;114;101;95;112;101;114;105;111;100] c) a b).
Proof. unfold gen_fire_count, gen_fire_period, mk_lim. simpl. rewrite !tie_get_int. split; reflexivity. Qed.

(* stated over the code: a setting that is absent or is not a decimal integer falls back to 1 fire / 1000 ms *)
Lemma code_defaults c :
  (alookup [102;105;114;101;95;99;111;117;110;116] c = None \/
   (exists s, alookup [102;105;114;101;95;99;111;117;110;116] c = Some (AText s) /\ parse_int s = None) -> gen_fire_count c = 1) /\
  (alookup [102;105;114;101;95;112;101;114;105;111;100] c = None \/
   (exists s, alookup [102;105;114;101;95;112;101;114;105;111;100] c = Some (AText s) /\ parse_int s = None) -> gen_fire_period c = 1000).
Proof.
  unfold gen_fire_count, gen_fire_period. rewrite !tie_get_int. unfold get_int.
  split; intros [E|(s & E & P)]; rewrite E; try rewrite P; reflexivity.
Qed.
