(* TieHit.v -- one hit of an action as the handler codes it, `if ctx.can_trigger() and ctx.acquire(): ctx.process()`, put together
   from the translated ActionContext.can_trigger (gen/PGate.v), ActionContext.acquire and LocationAction.try_trigger
   (gen/PLimits.v): it is Limiter.step on the hit whose condition outcome is Cond.gate. *)
From Deep Require Import Base Config Limiter Cond PureSupport TieLimits TieGate.
From DeepGen Require Import PLimits PTruth PGate.
Local Open Scope Z_scope.

Definition code_hit (l : lim) (s : stats) (ts : Z) (cond : option str) (ev : str -> eres) : (Z * Z) * bool :=
  if gen_action_can_trigger (gen_can_trigger (fc l) (fp l) (ws l) (we l) (cnt s) (lastf s)) cond ts ev
  then gen_acquire (fc l) (fp l) (ws l) (we l) (cnt s) (lastf s) ts
  else ((cnt s, lastf s), false).

Lemma code_hit_is_model_step l s ts cond ev :
  code_hit l s ts cond ev =
  let '(s', b) := step l s {| h_ts := ts; h_cond := gate cond ev |} in ((cnt s', lastf s'), b).
Proof.
  unfold code_hit, gen_acquire, step. rewrite tie_action_can_trigger, tie_can_trigger, tie_try_trigger. simpl h_ts. simpl h_cond.
  destruct (can_trigger l s ts); simpl; [|reflexivity].
  destruct (gate cond ev); reflexivity.
Qed.
