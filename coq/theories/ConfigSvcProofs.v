From Deep Require Import Base ConfigSvc.

(* ---------- C12: convergence ---------- *)
Definition Conv (s : svc) : Prop := pending s = [] -> installed s = latest s.

Lemma submit_nonempty s : submit s <> [].
Proof. unfold submit. destruct (pending s); discriminate. Qed.

Lemma step_conv s o : Conv s -> Conv (step true s o).
Proof.
  intros C. destruct o as [ts h c|ts| |tp| |h|k]; unfold Conv in *; simpl.
  - intros E. exfalso. eapply submit_nonempty; exact E.
  - exact C.
  - exact C.
  - intros E. exfalso. eapply submit_nonempty; exact E.
  - exact C.
  - destruct (has_handle h (custom s)); [|exact C]. simpl. intros E. exfalso. eapply submit_nonempty; exact E.
  - destruct (k <? 2)%nat; [|exact C]. destruct (nth_error (pending s) k); [|exact C]. simpl. intros _. reflexivity.
Qed.

Theorem converges ops : Conv (run true svc0 ops).
Proof.
  unfold run. assert (G : forall s, Conv s -> Conv (fold_left (step true) ops s)).
  { induction ops as [|o r IH]; intros s C; simpl; [exact C|]. apply IH. apply step_conv. exact C. }
  apply G. intros _. reflexivity.
Qed.

(* the hash the next poll reports is the hash of the latest polled configuration *)
Definition HashOf (s : svc) (last : option (nat * cfg)) : Prop :=
  match last with Some (h, c) => hash s = Some h /\ polled s = c | None => hash s = None /\ polled s = [] end.
Definition last_update_of (ops : list op) : option (nat * cfg) :=
  fold_left (fun acc o => match o with PollUpdate _ h c => Some (h, c) | _ => acc end) ops None.

Lemma step_hash s o last : HashOf s last ->
  HashOf (step true s o) (match o with PollUpdate _ h c => Some (h, c) | _ => last end).
Proof.
  intros H. destruct o as [ts h c|ts| |tp| |h|k]; simpl.
  - split; reflexivity.
  - destruct last as [[h' c']|]; exact H.
  - exact H.
  - destruct last as [[h' c']|]; exact H.
  - exact H.
  - destruct (has_handle h (custom s)); destruct last as [[h' c']|]; exact H.
  - destruct (k <? 2)%nat; [destruct (nth_error (pending s) k)|]; destruct last as [[h' c']|]; exact H.
Qed.

Theorem reported_hash ops : HashOf (run true svc0 ops) (last_update_of ops).
Proof.
  unfold run, last_update_of.
  assert (G : forall s last, HashOf s last ->
            HashOf (fold_left (step true) ops s)
                   (fold_left (fun acc o => match o with PollUpdate _ h c => Some (h, c) | _ => acc end) ops last)).
  { induction ops as [|o r IH]; intros s last H; simpl; [exact H|]. apply IH. apply step_hash. exact H. }
  apply G. split; reflexivity.
Qed.

Theorem no_change_alters_nothing s ts :
  let s' := step true s (PollNoChange ts) in
  polled s' = polled s /\ hash s' = hash s /\ custom s' = custom s /\ installed s' = installed s /\ pending s' = pending s.
Proof. simpl. auto. Qed.

Theorem failed_poll_alters_nothing fresh s : step fresh s PollFailed = s.
Proof. reflexivity. Qed.

(* tasks installing the configuration captured at submit: an older configuration stays in force *)
Definition captured_witness : svc :=
  run false svc0 [PollUpdate 1 1%nat [1%nat]; PollUpdate 2 2%nat [2%nat]; RunTask 1%nat; RunTask 0%nat].
Theorem captured_refuted : pending captured_witness = [] /\ installed captured_witness = [1%nat] /\ latest captured_witness = [2%nat].
Proof. vm_compute. auto. Qed.

(* ---------- C13: handles ---------- *)
Definition handles (s : svc) : list nat := map fst (custom s).
Record HInv (s : svc) : Prop := { h_nodup : NoDup (handles s); h_fresh : forall h, In h (handles s) -> (h < next_handle s)%nat }.

Lemma remove_handle_subset h l x : In x (remove_handle h l) -> In x l.
Proof.
  induction l as [|[h' t] r IH]; simpl; [auto|]. destruct (Nat.eqb h' h); [auto|]. intros [E|I]; auto.
Qed.
Lemma remove_handle_nodup h l : NoDup (map fst l) -> NoDup (map fst (remove_handle h l)).
Proof.
  induction l as [|[h' t] r IH]; simpl; intros N; [constructor|]. inversion N as [|x xs Hn Hd]; subst.
  destruct (Nat.eqb h' h); [exact Hd|]. simpl. constructor; [|apply IH; exact Hd].
  intros I. apply Hn. apply in_map_iff in I as ([a b] & E & I). simpl in E. subst a.
  apply in_map_iff. exists (h', b). split; [reflexivity|]. eapply remove_handle_subset; eauto.
Qed.

Lemma NoDup_snoc {A} (l : list A) x : NoDup l -> ~ In x l -> NoDup (l ++ [x]).
Proof.
  induction l as [|y r IH]; simpl; intros N I; [constructor; [intros []|constructor]|].
  inversion N as [|z zs Hn Hd]; subst. constructor.
  - intros J. apply in_app_or in J as [J|[J|[]]]; [contradiction|]. apply I. left. symmetry. exact J.
  - apply IH; [exact Hd|]. intros J. apply I. right. exact J.
Qed.

Lemma step_hinv s o : HInv s -> HInv (step true s o).
Proof.
  intros [N F]. destruct o as [ts h c|ts| |tp| |h|k]; simpl; try (constructor; assumption).
  - constructor; unfold handles; simpl.
    + rewrite map_app. simpl. apply NoDup_snoc; [exact N|]. intros I. apply F in I. lia.
    + intros h I. rewrite map_app in I. simpl in I. apply in_app_or in I as [I|[<-|[]]]; [apply F in I; lia|lia].
  - destruct (has_handle h (custom s)); [|constructor; assumption]. constructor; unfold handles; simpl.
    + apply remove_handle_nodup. exact N.
    + intros h' I. apply F. apply in_map_iff in I as (p & <- & I). apply in_map. eapply remove_handle_subset; eauto.
  - destruct (k <? 2)%nat; [|constructor; assumption]. destruct (nth_error (pending s) k); constructor; assumption.
Qed.

Theorem hinv_reachable ops : HInv (run true svc0 ops).
Proof.
  unfold run. assert (G : forall s, HInv s -> HInv (fold_left (step true) ops s)).
  { induction ops as [|o r IH]; intros s C; simpl; [exact C|]. apply IH. apply step_hinv. exact C. }
  apply G. constructor; simpl; [constructor|intros h []].
Qed.

(* a registration is added alongside what is there, under a handle no other registration has *)
Theorem register_adds s tp :
  HInv s ->
  let s' := step true s (Register tp) in
  custom s' = custom s ++ [(next_handle s, tp)] /\ polled s' = polled s /\ ~ In (next_handle s) (handles s).
Proof. intros [N F]. simpl. repeat split. intros I. apply F in I. lia. Qed.

Lemma in_remove_handle h l x : NoDup (map fst l) -> (In x (remove_handle h l) <-> In x l /\ fst x <> h).
Proof.
  induction l as [|[h' t] r IH]; simpl; intros N; [tauto|]. inversion N as [|z zs Hn Hd]; subst.
  destruct (Nat.eqb_spec h' h) as [->|Ne].
  - split.
    + intros I. split; [right; exact I|]. intros E. apply Hn. rewrite <- E. apply in_map. exact I.
    + intros [[E|I] Nx]; [subst x; simpl in Nx; contradiction|exact I].
  - simpl. rewrite IH by exact Hd. split.
    + intros [E|[I Nx]]; [subst x; simpl; auto|auto].
    + intros [[E|I] Nx]; [left; exact E|right; auto].
Qed.

(* unregistering a handle removes the registration that returned it and no other *)
Theorem unregister_exact s h x :
  HInv s -> (In x (custom (step true s (Unregister h))) <-> In x (custom s) /\ fst x <> h).
Proof.
  intros [N F]. simpl. destruct (has_handle h (custom s)) eqn:E; simpl.
  - apply in_remove_handle. exact N.
  - split; [|tauto]. intros I. split; [exact I|]. intros Eh. unfold has_handle in E.
    assert (existsb (fun p => Nat.eqb (fst p) h) (custom s) = true); [|congruence].
    apply existsb_exists. exists x. split; [exact I|]. apply Nat.eqb_eq. exact Eh.
Qed.

(* doing it twice is harmless *)
Theorem unregister_twice s h :
  HInv s -> step true (step true s (Unregister h)) (Unregister h) = step true s (Unregister h).
Proof.
  intros [N F]. simpl. destruct (has_handle h (custom s)) eqn:E; simpl; [|rewrite E; reflexivity].
  assert (G : has_handle h (remove_handle h (custom s)) = false).
  { unfold has_handle. destruct (existsb _ _) eqn:X; [|reflexivity]. apply existsb_exists in X as (x & I & Ex).
    apply Nat.eqb_eq in Ex. apply in_remove_handle in I; [|exact N]. tauto. }
  rewrite G. reflexivity.
Qed.

(* service updates and registrations do not disturb one another *)
Theorem update_keeps_registrations s ts h c :
  custom (step true s (PollUpdate ts h c)) = custom s /\ polled (step true s (PollUpdate ts h c)) = c.
Proof. simpl. auto. Qed.

(* with the LOCATION as handle, two registrations on one line share the handle: unregistering the second
   removes the first *)
Definition loc_handle_witness : svc :=
  fold_left (step_loc (fun _ => 7%nat)) [Register 1%nat; Register 2%nat; Unregister 7%nat] svc0.
Theorem location_handle_refuted : map snd (custom loc_handle_witness) = [2%nat].
Proof. vm_compute. reflexivity. Qed.
