(* CallbacksProofs.v -- the pending store of a thread is grouped by live invocation (top first);
   every context is completed at most once, after it was opened, while its owner is still running,
   and everything an invocation opened is completed when it returns. *)
From Deep Require Import Base Callbacks.
From Coq Require Import Permutation.

Lemma lab_eqb_eq a b : lab_eqb a b = true <-> a = b.
Proof.
  destruct a as [a1 a2], b as [b1 b2]. unfold lab_eqb; simpl. rewrite andb_true_iff, !str_eqb_eq.
  split; [intros [-> ->]; reflexivity | intros E; inversion E; auto].
Qed.
Lemma lab_eqb_refl a : lab_eqb a a = true.
Proof. apply lab_eqb_eq; reflexivity. Qed.

(* per owner: nothing, one context, or a line context on top of a call context *)
Definition own_ok (f : fr) (g : list ctx) : Prop :=
  (forall c, In c g -> c_owner c = f_inv f /\ c_lab c = f_lab f) /\
  (g = [] \/ (exists a, g = [a]) \/ (exists a b, g = [a; b] /\ c_kind a = LineCb /\ c_kind b = CallCb)).
Inductive grouped : list fr -> list ctx -> Prop :=
| G_nil : grouped [] []
| G_cons f fs g p : own_ok f g -> grouped fs p -> grouped (f :: fs) (g ++ p).

Lemma own_ok_nil f : own_ok f [].
Proof. split; [intros c []|left; reflexivity]. Qed.

Lemma grouped_skip f fs p : grouped fs p -> grouped (f :: fs) p.
Proof. intros G. change p with ([] ++ p). constructor; [apply own_ok_nil|exact G]. Qed.

Lemma grouped_owner fs p : grouped fs p -> forall c, In c p ->
  exists f, In f fs /\ c_owner c = f_inv f /\ c_lab c = f_lab f.
Proof.
  induction 1 as [|f fs g p [Ho _] G IH]; intros c I; [destruct I|].
  apply in_app_or in I as [I|I].
  - exists f; split; [left; reflexivity|apply Ho; exact I].
  - destruct (IH c I) as (f' & I' & E). exists f'; split; [right; exact I'|exact E].
Qed.

Lemma grouped_nil_stack p : grouped [] p -> p = [].
Proof. intros G; inversion G; reflexivity. Qed.

Lemma complete_split isl lab p d r : complete isl lab p = (d, r) -> p = d ++ r.
Proof.
  unfold complete. destruct p as [|c p]; intros E; [inversion E; reflexivity|].
  destruct (negb (matches lab c)); [inversion E; reflexivity|].
  destruct (is_line (c_kind c)).
  - destruct p as [|c2 r2]; [inversion E; reflexivity|].
    destruct (matches lab c2 && negb (is_line (c_kind c2)) && negb isl); inversion E; reflexivity.
  - destruct isl; inversion E; reflexivity.
Qed.

Lemma complete_labels isl lab p d r : complete isl lab p = (d, r) -> forall c, In c d -> c_lab c = lab.
Proof.
  unfold complete. destruct p as [|c p]; intros E x I.
  - injection E as Ed Er. subst d. destruct I.
  - destruct (negb (matches lab c)) eqn:N; [injection E as Ed Er; subst d; destruct I|].
    apply negb_false_iff in N. apply lab_eqb_eq in N.
    destruct (is_line (c_kind c)).
    + destruct p as [|c2 r2].
      * injection E as Ed Er. subst d. destruct I as [Ex|[]]. subst x. exact N.
      * destruct (matches lab c2 && negb (is_line (c_kind c2)) && negb isl) eqn:M; injection E as Ed Er; subst d.
        -- apply andb_true_iff in M as [M _]. apply andb_true_iff in M as [M _]. apply lab_eqb_eq in M.
           destruct I as [Ex|[Ex|[]]]; subst x; assumption.
        -- destruct I as [Ex|[]]. subst x. exact N.
    + destruct isl; injection E as Ed Er; subst d; [destruct I|]. destruct I as [Ex|[]]. subst x. exact N.
Qed.

(* a group keeps a legal shape when contexts are taken from its top *)
Lemma own_ok_tail f a g : own_ok f (a :: g) -> own_ok f g.
Proof.
  intros [Hown Hshape]. split; [intros c I; apply Hown; right; exact I|].
  destruct Hshape as [E|[[x E]|(x & y & E & Kx & Ky)]]; try discriminate.
  - inversion E; subst. left; reflexivity.
  - inversion E; subst. right; left; eauto.
Qed.

Lemma grouped_drop1 fs c p : grouped fs (c :: p) -> grouped fs p.
Proof.
  revert c p. induction fs as [|f fs IH]; intros c p G; inversion G as [|f0 fs0 g p0 Ho G0 E1 E2]; subst.
  destruct g as [|a g].
  - simpl in E2. subst p0. apply grouped_skip. eapply IH; exact G0.
  - simpl in E2. inversion E2; subst. constructor; [eapply own_ok_tail; exact Ho|exact G0].
Qed.

(* removing a completed prefix leaves the store grouped *)
Lemma complete_grouped isl lab fs p : grouped fs p -> forall d r, complete isl lab p = (d, r) -> grouped fs r.
Proof.
  intros G d r E. unfold complete in E. destruct p as [|c p]; [injection E as _ <-; exact G|].
  destruct (negb (matches lab c)); [injection E as _ <-; exact G|].
  destruct (is_line (c_kind c)).
  - destruct p as [|c2 r2]; [injection E as _ <-; apply grouped_drop1 in G; exact G|].
    destruct (matches lab c2 && negb (is_line (c_kind c2)) && negb isl); injection E as _ <-.
    + apply grouped_drop1 in G. apply grouped_drop1 in G. exact G.
    + apply grouped_drop1 in G. exact G.
  - destruct isl; injection E as _ <-; [exact G|apply grouped_drop1 in G; exact G].
Qed.

(* at a return or exception event of the running invocation, everything it owns is completed *)
Lemma complete_top_consumed f fs p d r :
  grouped (f :: fs) p -> complete false (f_lab f) p = (d, r) -> grouped fs r.
Proof.
  intros G E. inversion G as [|f0 fs0 g p0 [Hown Hshape] G0]; subst.
  destruct Hshape as [->|[[a ->]|(a & b & -> & Ka & Kb)]].
  - simpl app in E. eapply complete_grouped; eauto.
  - assert (La : c_lab a = f_lab f) by (apply Hown; left; reflexivity).
    simpl app in E. unfold complete in E. unfold matches in E at 1. rewrite La, lab_eqb_refl in E. simpl negb in E. cbn iota in E.
    destruct (is_line (c_kind a)).
    + destruct p0 as [|c2 r2]; [inversion E; subst; exact G0|].
      match type of E with (if ?b then _ else _) = _ => destruct b end; inversion E; subst.
      * apply grouped_drop1 in G0. exact G0.
      * exact G0.
    + inversion E; subst. exact G0.
  - assert (La : c_lab a = f_lab f) by (apply Hown; left; reflexivity).
    assert (Lb : c_lab b = f_lab f) by (apply Hown; right; left; reflexivity).
    simpl app in E. unfold complete in E. unfold matches in E. rewrite La, Lb, lab_eqb_refl, Ka, Kb in E. simpl in E.
    inversion E; subst. exact G0.
Qed.

(* at a line event of the running invocation: its own line context is completed, its call context stays *)
Lemma complete_line_top f fs p d r :
  grouped (f :: fs) p -> complete true (f_lab f) p = (d, r) ->
  exists g' r0, r = g' ++ r0 /\ grouped fs r0 /\
    (g' = [] \/ exists c, g' = [c] /\ c_kind c = CallCb /\ c_owner c = f_inv f /\ c_lab c = f_lab f).
Proof.
  intros G E. inversion G as [|f0 fs0 g p0 [Hown Hshape] G0]; subst.
  destruct Hshape as [->|[[a ->]|(a & b & -> & Ka & Kb)]].
  - simpl app in E. exists [], r. split; [reflexivity|]. split; [eapply complete_grouped; eauto|left; reflexivity].
  - assert (Oa : c_owner a = f_inv f /\ c_lab a = f_lab f) by (apply Hown; left; reflexivity).
    destruct Oa as [Oa La]. simpl app in E. unfold complete in E. unfold matches in E at 1. rewrite La, lab_eqb_refl in E.
    simpl negb in E. cbn iota in E. destruct (c_kind a) eqn:Ka; simpl is_line in E; cbn iota in E.
    + destruct p0 as [|c2 r2]; [inversion E; subst; exists [], []; split; [reflexivity|]; split; [exact G0|left; reflexivity]|].
      rewrite andb_false_r in E. inversion E; subst.
      exists [], (c2 :: r2). split; [reflexivity|]. split; [exact G0|left; reflexivity].
    + inversion E; subst. exists [a], p0. split; [reflexivity|]. split; [exact G0|]. right. exists a. auto.
  - assert (La : c_lab a = f_lab f) by (apply Hown; left; reflexivity).
    assert (Ob : c_owner b = f_inv f /\ c_lab b = f_lab f) by (apply Hown; right; left; reflexivity).
    destruct Ob as [Ob Lb].
    simpl app in E. unfold complete in E. unfold matches in E. rewrite La, Lb, lab_eqb_refl, Ka, Kb in E. simpl in E.
    inversion E; subst. exists [b], p0. split; [reflexivity|]. split; [exact G0|]. right. exists b. auto.
Qed.

(* ---------- the invariant ---------- *)
Definition allids (s : st) : list nat := map c_id (pending s) ++ map d_id (log s).
Record Inv (s : st) : Prop := {
  I_grp : grouped (stack s) (pending s);
  I_nodup : NoDup (allids s);
  I_lt : forall i, In i (allids s) -> (i < nid s)%nat;
  I_all : forall i, (i < nid s)%nat -> In i (allids s);
  I_inv : forall f, In f (stack s) -> (f_inv f < ninv s)%nat;
  I_stk : NoDup (map f_inv (stack s))
}.

Lemma Inv_init : Inv init.
Proof. constructor; simpl; try constructor; try (intros; lia); intros ? []. Qed.

Lemma ids_move (p d r : list ctx) (lg : list done) top :
  p = d ++ r ->
  Permutation (map c_id p ++ map d_id lg) (map c_id r ++ map d_id (lg ++ map (mk_done top) d)).
Proof.
  intros ->. rewrite !map_app, map_map. simpl.
  replace (map (fun x => d_id (mk_done top x)) d) with (map c_id d) by (apply map_ext; reflexivity).
  rewrite <- app_assoc. etransitivity; [apply Permutation_app_comm|]. rewrite <- !app_assoc. reflexivity.
Qed.

Lemma Inv_perm s s' :
  Permutation (allids s) (allids s') -> nid s' = nid s ->
  NoDup (allids s) -> (forall i, In i (allids s) -> (i < nid s)%nat) -> (forall i, (i < nid s)%nat -> In i (allids s)) ->
  NoDup (allids s') /\ (forall i, In i (allids s') -> (i < nid s')%nat) /\ (forall i, (i < nid s')%nat -> In i (allids s')).
Proof.
  intros P E N L A. rewrite E. repeat split.
  - eapply Permutation_NoDup; eauto.
  - intros i I. apply L. eapply Permutation_in; [apply Permutation_sym; exact P|exact I].
  - intros i I. eapply Permutation_in; [exact P|]. apply A; exact I.
Qed.

Lemma Inv_fresh ids n :
  NoDup ids -> (forall i, In i ids -> (i < n)%nat) -> (forall i, (i < n)%nat -> In i ids) ->
  NoDup (n :: ids) /\ (forall i, In i (n :: ids) -> (i < S n)%nat) /\ (forall i, (i < S n)%nat -> In i (n :: ids)).
Proof.
  intros N L A. repeat split.
  - constructor; [intros I; apply L in I; lia|exact N].
  - intros i [<-|I]; [lia|]. apply L in I. lia.
  - intros i I. destruct (Nat.eq_dec i n) as [->|Ne]; [left; reflexivity|right; apply A; lia].
Qed.

Lemma step_inv s e s' : Inv s -> step s e = Some s' -> Inv s'.
Proof.
  intros [G N L A V K] E. destruct e as [lab o| o | |]; simpl in E.
  - (* Call *)
    inversion E; subst; clear E.
    assert (Kn : NoDup (map f_inv ({| f_inv := ninv s; f_lab := lab |} :: stack s))).
    { simpl. constructor; [|exact K]. intros I. apply in_map_iff in I as (f & Ef & If). apply V in If. lia. }
    assert (Vn : forall f, In f ({| f_inv := ninv s; f_lab := lab |} :: stack s) -> (f_inv f < S (ninv s))%nat).
    { intros f [<-|I]; [simpl; lia|]. apply V in I. lia. }
    destruct o.
    + destruct (Inv_fresh _ _ N L A) as (N' & L' & A').
      constructor; simpl; [|exact N'|exact L'|exact A'|exact Vn|exact Kn].
      set (c := {| c_kind := CallCb; c_lab := lab; c_owner := ninv s; c_id := nid s |}).
      change (c :: pending s) with ([c] ++ pending s). constructor; [|exact G].
      split; [intros x [<-|[]]; simpl; auto | right; left; eauto].
    + constructor; simpl; [|exact N|exact L|exact A|exact Vn|exact Kn]. apply grouped_skip; exact G.
  - (* Line *)
    destruct (stack s) as [|f fs] eqn:S; [discriminate|].
    destruct (complete true (f_lab f) (pending s)) as [d p] eqn:C. inversion E; subst; clear E.
    pose proof (complete_split _ _ _ _ _ C) as Sp.
    destruct (complete_line_top _ _ _ _ _ G C) as (g' & r0 & -> & G0 & Hg').
    pose proof (ids_move _ _ _ (log s) (f_inv f) Sp) as P.
    destruct o.
    + set (s1 := {| stack := f :: fs; pending := g' ++ r0; ninv := ninv s; nid := nid s; log := log s ++ map (mk_done (f_inv f)) d |}).
      destruct (Inv_perm s s1 P eq_refl N L A) as (N1 & L1 & A1).
      destruct (Inv_fresh _ _ N1 L1 A1) as (N' & L' & A').
      constructor; simpl; [|exact N'|exact L'|exact A'|exact V|exact K].
      set (c := {| c_kind := LineCb; c_lab := f_lab f; c_owner := f_inv f; c_id := nid s |}).
      change (c :: g' ++ r0) with ((c :: g') ++ r0). constructor; [|exact G0].
      destruct Hg' as [->|(b & -> & Kb & Ob & Lb)].
      * split; [intros x [<-|[]]; simpl; auto | right; left; eauto].
      * split; [intros x [<-|[<-|[]]]; simpl; auto | right; right; exists c, b; auto].
    + set (s1 := {| stack := f :: fs; pending := g' ++ r0; ninv := ninv s; nid := nid s; log := log s ++ map (mk_done (f_inv f)) d |}).
      destruct (Inv_perm s s1 P eq_refl N L A) as (N1 & L1 & A1).
      constructor; simpl; [|exact N1|exact L1|exact A1|exact V|exact K].
      constructor; [|exact G0].
      destruct Hg' as [->|(b & -> & Kb & Ob & Lb)]; [apply own_ok_nil|].
      split; [intros x [<-|[]]; auto | right; left; eauto].
  - (* Exc *)
    destruct (stack s) as [|f fs] eqn:S; [discriminate|].
    destruct (complete false (f_lab f) (pending s)) as [d p] eqn:C. inversion E; subst; clear E.
    pose proof (complete_split _ _ _ _ _ C) as Sp.
    pose proof (ids_move _ _ _ (log s) (f_inv f) Sp) as P.
    set (s1 := {| stack := f :: fs; pending := p; ninv := ninv s; nid := nid s; log := log s ++ map (mk_done (f_inv f)) d |}).
    destruct (Inv_perm s s1 P eq_refl N L A) as (N1 & L1 & A1).
    constructor; simpl; [|exact N1|exact L1|exact A1|exact V|exact K].
    apply grouped_skip. eapply complete_top_consumed; eauto.
  - (* Ret *)
    destruct (stack s) as [|f fs] eqn:S; [discriminate|].
    destruct (complete false (f_lab f) (pending s)) as [d p] eqn:C. inversion E; subst; clear E.
    pose proof (complete_split _ _ _ _ _ C) as Sp.
    pose proof (ids_move _ _ _ (log s) (f_inv f) Sp) as P.
    set (s1 := {| stack := fs; pending := p; ninv := ninv s; nid := nid s; log := log s ++ map (mk_done (f_inv f)) d |}).
    destruct (Inv_perm s s1 P eq_refl N L A) as (N1 & L1 & A1).
    constructor; simpl; [|exact N1|exact L1|exact A1| |].
    + eapply complete_top_consumed; eauto.
    + intros f' I. apply V. right; exact I.
    + simpl in K. inversion K; assumption.
Qed.

Lemma run_inv es : forall s s', Inv s -> run s es = Some s' -> Inv s'.
Proof.
  induction es as [|e r IH]; intros s s' I E; simpl in E; [inversion E; subst; exact I|].
  destruct (step s e) as [s1|] eqn:S; [|discriminate]. eapply IH; [eapply step_inv; eauto|exact E].
Qed.

(* ---------- consequences ---------- *)
Lemma NoDup_app_r {A} (a b : list A) : NoDup (a ++ b) -> NoDup b.
Proof. induction a as [|x a IH]; simpl; intros N; [exact N|]. inversion N; auto. Qed.

(* every pending context belongs to an invocation that is still running (so none outlives its opener) *)
Theorem pending_owner_live es s c :
  run init es = Some s -> In c (pending s) -> exists f, In f (stack s) /\ c_owner c = f_inv f /\ c_lab c = f_lab f.
Proof. intros R I. eapply grouped_owner; [apply (I_grp _ (run_inv _ _ _ Inv_init R))|exact I]. Qed.

(* each context is completed at most once, and each opened context is pending or completed *)
Theorem completed_at_most_once es s :
  run init es = Some s -> NoDup (map d_id (log s)) /\
  (forall i, (i < nid s)%nat -> In i (map c_id (pending s)) \/ In i (map d_id (log s))) /\
  (forall i, In i (map c_id (pending s)) -> ~ In i (map d_id (log s))).
Proof.
  intros R. pose proof (run_inv _ _ _ Inv_init R) as [G N L A V K]. unfold allids in *. repeat split.
  - apply NoDup_app_r in N. exact N.
  - intros i I. apply in_app_or. apply A. exact I.
  - intros i I J. revert N I J. generalize (map c_id (pending s)) (map d_id (log s)). intros a b N I J.
    induction a as [|x a IH]; [destruct I|]. simpl in N. inversion N as [|y ys Hn Hd]; subst.
    destruct I as [<-|I]; [apply Hn; apply in_or_app; right; exact J|auto].
Qed.

(* when the thread's outermost invocation has returned nothing is pending, and every context that
   was ever opened has been completed exactly once *)
Theorem drained es s :
  run init es = Some s -> stack s = [] ->
  pending s = [] /\ NoDup (map d_id (log s)) /\ (forall i, (i < nid s)%nat -> In i (map d_id (log s))).
Proof.
  intros R E. pose proof (run_inv _ _ _ Inv_init R) as [G N L A V K]. rewrite E in G.
  apply grouped_nil_stack in G. unfold allids in *. rewrite G in *. simpl in *. auto.
Qed.

(* the return of an invocation completes everything it opened *)
Theorem return_completes_own s f rest s' :
  Inv s -> stack s = f :: rest -> step s Ret = Some s' ->
  stack s' = rest /\ forall c, In c (pending s') -> c_owner c <> f_inv f.
Proof.
  intros I S E. pose proof (step_inv _ _ _ I E) as I'. simpl in E. rewrite S in E.
  destruct (complete false (f_lab f) (pending s)) as [d p] eqn:C. inversion E; subst; clear E. simpl.
  split; [reflexivity|]. intros c Ic Eo.
  destruct (grouped_owner _ _ (I_grp _ I') c Ic) as (f' & If & Ef & _). simpl in If.
  pose proof (I_stk _ I) as K. rewrite S in K. simpl in K. inversion K as [|x xs Hn _]; subst.
  apply Hn. rewrite <- Eo, Ef. apply in_map. exact If.
Qed.

(* a completion happens at an event of an invocation with the owner's file and function name, while the
   owner is still running, and strictly after the event that opened the context *)
Theorem completion_in_extent s e s' x :
  Inv s -> step s e = Some s' -> In x (skipn (length (log s)) (log s')) ->
  (d_id x < nid s)%nat /\
  exists top fo, hd_error (stack s) = Some top /\ d_top x = f_inv top /\
                 In fo (stack s) /\ d_owner x = f_inv fo /\ f_lab fo = f_lab top.
Proof.
  intros I E Ix.
  assert (Gen : forall f fs isl d p, stack s = f :: fs -> complete isl (f_lab f) (pending s) = (d, p) ->
                In x (map (mk_done (f_inv f)) d) ->
                (d_id x < nid s)%nat /\ exists top fo, hd_error (stack s) = Some top /\ d_top x = f_inv top /\
                 In fo (stack s) /\ d_owner x = f_inv fo /\ f_lab fo = f_lab top).
  { intros f fs isl d p S C J. apply in_map_iff in J as (c & <- & Ic). simpl.
    pose proof (complete_split _ _ _ _ _ C) as Sp.
    assert (Ip : In c (pending s)) by (rewrite Sp; apply in_or_app; left; exact Ic).
    split.
    - apply (I_lt _ I). unfold allids. apply in_or_app; left. apply in_map. exact Ip.
    - destruct (grouped_owner _ _ (I_grp _ I) c Ip) as (fo & Ifo & Eo & El).
      exists f, fo. split; [rewrite S; reflexivity|]. split; [reflexivity|]. split; [exact Ifo|]. split; [exact Eo|].
      rewrite <- El. eapply complete_labels; eauto. }
  destruct e as [lab o| o | |]; simpl in E.
  - inversion E; subst; simpl in Ix. rewrite skipn_all in Ix. destruct Ix.
  - destruct (stack s) as [|f fs] eqn:S; [discriminate|].
    destruct (complete true (f_lab f) (pending s)) as [d p] eqn:C. inversion E; subst; simpl in Ix.
    rewrite skipn_app, skipn_all, Nat.sub_diag in Ix. simpl in Ix. eapply Gen; eauto.
  - destruct (stack s) as [|f fs] eqn:S; [discriminate|].
    destruct (complete false (f_lab f) (pending s)) as [d p] eqn:C. inversion E; subst; simpl in Ix.
    rewrite skipn_app, skipn_all, Nat.sub_diag in Ix. simpl in Ix. eapply Gen; eauto.
  - destruct (stack s) as [|f fs] eqn:S; [discriminate|].
    destruct (complete false (f_lab f) (pending s)) as [d p] eqn:C. inversion E; subst; simpl in Ix.
    rewrite skipn_app, skipn_all, Nat.sub_diag in Ix. simpl in Ix. eapply Gen; eauto.
Qed.

(* the discipline that examines only the top context is refuted: method span + line span on the last line *)
Definition step_top (s : st) (e : ev) : option st :=
  match e, stack s with
  | Ret, f :: rest =>
      let '(d, p) := complete_top false (f_lab f) (pending s) in
      Some {| stack := rest; pending := p; ninv := ninv s; nid := nid s; log := log s ++ map (mk_done (f_inv f)) d |}
  | _, _ => step s e
  end.
Definition top_only_witness : option st :=
  match step init (Call ([102], [103]) true) with
  | Some s1 => match step s1 (Line true) with Some s2 => step_top s2 Ret | None => None end
  | None => None
  end.
Theorem top_only_refuted : exists s, top_only_witness = Some s /\ stack s = [] /\ pending s <> [].
Proof. eexists. split; [vm_compute; reflexivity|]. split; [reflexivity|discriminate]. Qed.

(* ---------- threads ---------- *)
(* an event of thread t leaves every other thread's store untouched, and what a thread's store holds after
   any interleaving is what its own events alone produce *)
Lemma mstep_other m te m' t' : mstep m te = Some m' -> t' <> fst te -> m' t' = m t'.
Proof.
  unfold mstep. destruct (step (m (fst te)) (snd te)); intros E N; [|discriminate]. inversion E; subst.
  unfold mset. destruct (Nat.eqb_spec t' (fst te)); [contradiction|reflexivity].
Qed.

Theorem threads_independent tes : forall m m' t,
  mrun m tes = Some m' -> run (m t) (events_of t tes) = Some (m' t).
Proof.
  induction tes as [|[t0 e] r IH]; intros m m' t E; simpl in *.
  - inversion E; reflexivity.
  - unfold mstep in E. simpl in E. destruct (step (m t0) e) as [s1|] eqn:S; [|discriminate].
    unfold events_of. simpl. destruct (Nat.eqb_spec t0 t) as [->|N].
    + simpl. rewrite S. specialize (IH _ _ t E). unfold mset in IH at 1. rewrite Nat.eqb_refl in IH. exact IH.
    + specialize (IH _ _ t E). unfold mset in IH at 1.
      destruct (Nat.eqb_spec t t0) as [->|_]; [contradiction|]. exact IH.
Qed.
