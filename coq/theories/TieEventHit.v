(* TieEventHit.v -- library lemma (imported by no property file): one action's turn in the translated _trace_call, with the
   translated gate (gen/PGate.v) and the translated acquire / try_trigger (gen/PLimits.v), is the model's step on that action's
   own statistics - the assumption `turn_is_step` of TieEvent.tie_event - hence the translated handler is Handler.handle. *)
From Deep Require Import Base Config Limiter Cond Match Handler PureSupport TieLimits TieGate TieHit TieMatch TieEvent.
From DeepGen Require Import PLimits PTruth PGate PMatch PEvent.
Local Open Scope Z_scope.

Section Hit.
Variables (act : nat -> haction) (e : hevent).
Hypothesis act_id : forall a, ha_id (act a) = a.

Definition m_can (a : nat) (st : hs) : bool :=
  let l := ha_lim (act a) in let s := fst st a in
  gen_action_can_trigger (gen_can_trigger (fc l) (fp l) (ws l) (we l) (cnt s) (lastf s)) (ha_cond (act a)) (he_ts e) (env_of (he_env e)).
Definition m_acquire (a : nat) (st : hs) : bool * hs :=
  let l := ha_lim (act a) in let s := fst st a in
  let '((c, lf), ok) := gen_acquire (fc l) (fp l) (ws l) (we l) (cnt s) (lastf s) (he_ts e) in
  (ok, (upd (fst st) a {| cnt := c; lastf := lf |}, snd st)).
Definition m_process (a : nat) (st : hs) : hs := (fst st, snd st ++ [a]).

Lemma upd_same (st : hstate) a : forall x, upd st a (st a) x = st x.
Proof. intros x. unfold upd. destruct (Nat.eqb_spec x a) as [->|]; reflexivity. Qed.

(* one action's turn in the translated code is the model's step on that action's own statistics *)
Lemma hit_step_model : turn_is_step act e m_can m_acquire m_process.
Proof.
  intros acc a l M. unfold hit_step, handle1, m_can, m_acquire, m_process. cbn [fst snd]. rewrite M, act_id.
  pose proof (code_hit_is_model_step (ha_lim (act a)) (fst acc a) (he_ts e) (ha_cond (act a)) (env_of (he_env e))) as H.
  unfold code_hit in H. unfold hit_for, hit_of.
  destruct (gen_action_can_trigger _ _ _ _).
  - destruct (gen_acquire _ _ _ _ _ _ _) as [[c lf] ok]. 
    destruct (step (ha_lim (act a)) (fst acc a) _) as [s' b]. inversion H; subst. cbn [fst snd].
    destruct s' as [c' lf']. cbn [cnt lastf]. destruct b; split; intros; reflexivity.
  - destruct (step (ha_lim (act a)) (fst acc a) _) as [s' b]. inversion H; subst. cbn [fst snd].
    destruct s' as [c' lf']. cbn [cnt lastf] in *. split; [|reflexivity].
    intros x. unfold upd. destruct (Nat.eqb_spec x a) as [->|]; [|reflexivity].
    destruct (fst acc a) as [c0 l0]. cbn [cnt lastf] in *. subst. reflexivity.
Qed.


Theorem tie_event_with_the_translated_limits (trs : list trigger) (st : hstate) :
  hs_eq (fst (code_event e m_can m_acquire m_process trs st)) (handle (flatten act trs) st e).
Proof. apply (tie_event act e m_can m_acquire m_process hit_step_model). Qed.
End Hit.
