From Deep Require Import Base Match MatchProofs TriggerTable.
From Coq Require Import Permutation.

Definition actions_of (t : tp) : list adesc :=
  match build t with Some x => snd x | None => [] end.
Definition kinds (l : list adesc) : list akind := map ad_kind l.

Lemma build_actions t l acts : build t = Some (l, acts) ->
  acts = snapshot_action (tp_id t) (tp_args t) (tp_watches t) ++ log_action (tp_id t) (tp_args t)
         ++ metric_action (tp_id t) (tp_args t) (tp_nmetrics t) ++ span_action (tp_id t) (tp_args t).
Proof. unfold build. destruct (location_of _ _ _); intros E; inversion E; reflexivity. Qed.

Lemma in_snapshot x tp a w : In x (snapshot_action tp a w) -> ad_kind x = ASnapshot /\ collects a = true.
Proof. unfold snapshot_action. destruct (collects a); intros I; [destruct I as [<-|[]]; auto|destruct I]. Qed.
Lemma in_log x tp a : In x (log_action tp a) -> ad_kind x = ALog /\ collects a = false /\ ad_log x = alookup s_log_msg a /\ ad_log x <> None.
Proof.
  unfold log_action. destruct (alookup s_log_msg a) eqn:E; [|intros []]. destruct (collects a); [intros []|].
  intros [<-|[]]; simpl. repeat split; auto. discriminate.
Qed.
Lemma in_metric x tp a n : In x (metric_action tp a n) -> ad_kind x = AMetric /\ ad_nmetrics x = n /\ n <> O.
Proof. unfold metric_action. destruct n; [intros []|]. intros [<-|[]]; simpl; repeat split; auto. Qed.
Lemma in_span x tp a : In x (span_action tp a) -> ad_kind x = ASpan /\ ad_span x = alookup s_span a /\ ad_span x <> None.
Proof. unfold span_action. destruct (alookup s_span a) eqn:E; [|intros []]. intros [<-|[]]; simpl; repeat split; auto; discriminate. Qed.

Lemma in_acts t l acts x : build t = Some (l, acts) -> In x acts ->
  (ad_kind x = ASnapshot /\ In x (snapshot_action (tp_id t) (tp_args t) (tp_watches t))) \/
  (ad_kind x = ALog /\ In x (log_action (tp_id t) (tp_args t))) \/
  (ad_kind x = AMetric /\ In x (metric_action (tp_id t) (tp_args t) (tp_nmetrics t))) \/
  (ad_kind x = ASpan /\ In x (span_action (tp_id t) (tp_args t))).
Proof.
  intros B I. apply build_actions in B. subst acts.
  apply in_app_or in I as [I|I]; [left; split; [apply in_snapshot in I; tauto|exact I]|].
  apply in_app_or in I as [I|I]; [right; left; split; [apply in_log in I; tauto|exact I]|].
  apply in_app_or in I as [I|I]; [right; right; left; split; [apply in_metric in I; tauto|exact I]|].
  right; right; right; split; [apply in_span in I; tauto|exact I].
Qed.

Lemma kind_cases t l acts x k : build t = Some (l, acts) -> In x acts -> ad_kind x = k ->
  match k with
  | ASnapshot => In x (snapshot_action (tp_id t) (tp_args t) (tp_watches t))
  | ALog => In x (log_action (tp_id t) (tp_args t))
  | AMetric => In x (metric_action (tp_id t) (tp_args t) (tp_nmetrics t))
  | ASpan => In x (span_action (tp_id t) (tp_args t))
  end.
Proof.
  intros B I K. destruct (in_acts _ _ _ _ B I) as [[K' J]|[[K' J]|[[K' J]|[K' J]]]]; rewrite K' in K; subst k; exact J.
Qed.

Lemma acts_intro t l acts : build t = Some (l, acts) ->
  (forall x, In x (snapshot_action (tp_id t) (tp_args t) (tp_watches t)) -> In x acts) /\
  (forall x, In x (log_action (tp_id t) (tp_args t)) -> In x acts) /\
  (forall x, In x (metric_action (tp_id t) (tp_args t) (tp_nmetrics t)) -> In x acts) /\
  (forall x, In x (span_action (tp_id t) (tp_args t)) -> In x acts).
Proof.
  intros B. apply build_actions in B. subst acts. repeat split; intros x I.
  - apply in_or_app; left; exact I.
  - apply in_or_app; right; apply in_or_app; left; exact I.
  - apply in_or_app; right; apply in_or_app; right; apply in_or_app; left; exact I.
  - apply in_or_app; right; apply in_or_app; right; apply in_or_app; right; exact I.
Qed.

(* a snapshot unless collection is switched off; it carries the log message and the watches *)
Theorem table_snapshot t l acts : build t = Some (l, acts) ->
  ((exists x, In x acts /\ ad_kind x = ASnapshot) <-> collects (tp_args t) = true) /\
  (forall x, In x acts -> ad_kind x = ASnapshot ->
     ad_log x = alookup s_log_msg (tp_args t) /\ ad_watches x = tp_watches t /\
     ad_frame x = Some (get_or (tp_args t) s_frame_type s_single_frame) /\
     ad_stack x = Some (get_or (tp_args t) s_stack_type s_stack)).
Proof.
  intros B. split; [split|].
  - intros (x & I & K). pose proof (kind_cases _ _ _ _ _ B I K) as J. apply in_snapshot in J. tauto.
  - intros C. destruct (acts_intro _ _ _ B) as (A & _). unfold snapshot_action in A. rewrite C in A.
    eexists. split; [apply A; left; reflexivity|reflexivity].
  - intros x I K. pose proof (kind_cases _ _ _ _ _ B I K) as J. unfold snapshot_action in J.
    destruct (collects (tp_args t)); [|destruct J]. destruct J as [<-|[]]. simpl. auto.
Qed.

(* a log line when a log message is given: by a log action when not collecting (by the snapshot action otherwise) *)
Theorem table_log t l acts : build t = Some (l, acts) ->
  ((exists x, In x acts /\ ad_kind x = ALog) <-> (collects (tp_args t) = false /\ alookup s_log_msg (tp_args t) <> None)) /\
  (forall x, In x acts -> ad_kind x = ALog -> ad_log x = alookup s_log_msg (tp_args t)).
Proof.
  intros B. split; [split|].
  - intros (x & I & K). pose proof (kind_cases _ _ _ _ _ B I K) as J. apply in_log in J as (_ & C & E & N).
    split; [exact C|]. rewrite <- E. exact N.
  - intros [C N]. destruct (acts_intro _ _ _ B) as (_ & A & _). unfold log_action in A.
    destruct (alookup s_log_msg (tp_args t)) as [m|]; [|contradiction]. rewrite C in A.
    eexists. split; [apply A; left; reflexivity|reflexivity].
  - intros x I K. pose proof (kind_cases _ _ _ _ _ B I K) as J. apply in_log in J. tauto.
Qed.

(* one metric action carrying every definition iff there is any *)
Theorem table_metric t l acts : build t = Some (l, acts) ->
  ((exists x, In x acts /\ ad_kind x = AMetric) <-> tp_nmetrics t <> O) /\
  (forall x, In x acts -> ad_kind x = AMetric -> ad_nmetrics x = tp_nmetrics t).
Proof.
  intros B. split; [split|].
  - intros (x & I & K). pose proof (kind_cases _ _ _ _ _ B I K) as J. apply in_metric in J. tauto.
  - intros N. destruct (acts_intro _ _ _ B) as (_ & _ & A & _). unfold metric_action in A.
    destruct (tp_nmetrics t); [contradiction|]. eexists. split; [apply A; left; reflexivity|reflexivity].
  - intros x I K. pose proof (kind_cases _ _ _ _ _ B I K) as J. apply in_metric in J. tauto.
Qed.

(* a span action iff a span is requested *)
Theorem table_span t l acts : build t = Some (l, acts) ->
  ((exists x, In x acts /\ ad_kind x = ASpan) <-> alookup s_span (tp_args t) <> None) /\
  (forall x, In x acts -> ad_kind x = ASpan -> ad_span x = alookup s_span (tp_args t)).
Proof.
  intros B. split; [split|].
  - intros (x & I & K). pose proof (kind_cases _ _ _ _ _ B I K) as J. apply in_span in J as (_ & E & N). rewrite <- E. exact N.
  - intros N. destruct (acts_intro _ _ _ B) as (_ & _ & _ & A). unfold span_action in A.
    destruct (alookup s_span (tp_args t)); [|contradiction]. eexists. split; [apply A; left; reflexivity|reflexivity].
  - intros x I K. pose proof (kind_cases _ _ _ _ _ B I K) as J. apply in_span in J. tauto.
Qed.

(* every action carries the tracepoint's own id, condition, fire count and fire period *)
Theorem table_common t l acts x : build t = Some (l, acts) -> In x acts ->
  ad_tp x = tp_id t /\ ad_cond x = alookup s_condition (tp_args t) /\
  ad_count x = get_or (tp_args t) s_fire_count s_one /\ ad_period x = get_or (tp_args t) s_fire_period s_thousand.
Proof.
  intros B I. destruct (in_acts _ _ _ _ B I) as [[_ J]|[[_ J]|[[_ J]|[_ J]]]].
  - unfold snapshot_action in J. destruct (collects (tp_args t)); [|destruct J]. destruct J as [<-|[]]. simpl. auto.
  - unfold log_action in J. destruct (alookup s_log_msg (tp_args t)); [|destruct J].
    destruct (collects (tp_args t)); [destruct J|]. destruct J as [<-|[]]. simpl. auto.
  - unfold metric_action in J. destruct (tp_nmetrics t); [destruct J|]. destruct J as [<-|[]]. simpl. auto.
  - unfold span_action in J. destruct (alookup s_span (tp_args t)); [|destruct J]. destruct J as [<-|[]]. simpl. auto.
Qed.

(* at most one action of each kind *)
Theorem table_one_per_kind t l acts : build t = Some (l, acts) -> NoDup (kinds acts).
Proof.
  intros B. apply build_actions in B. subst acts. unfold snapshot_action, log_action, metric_action, span_action.
  destruct (collects (tp_args t)); destruct (alookup s_log_msg (tp_args t)); destruct (tp_nmetrics t);
    destruct (alookup s_span (tp_args t)); simpl; repeat constructor; simpl; intuition discriminate.
Qed.

(* placement *)
Theorem placement t l acts :
  build t = Some (l, acts) ->
  let a := tp_args t in let st := stage_of a in
  (is_line_stage st = true -> l = LLine (tp_path t) (tp_line t)) /\
  (is_line_stage st = false -> is_method_stage st = true -> l = LFunc (tp_path t) (alookup s_method_name a)).
Proof.
  unfold build, location_of. intros B. simpl. destruct (is_line_stage (stage_of (tp_args t))).
  - inversion B; subst. split; [reflexivity|discriminate].
  - destruct (is_method_stage (stage_of (tp_args t))); inversion B; subst. split; [discriminate|reflexivity].
Qed.
Theorem stage_default a :
  alookup s_stage a = None ->
  stage_of a = if has a s_method_name then s_method_start
               else match alookup s_span a with Some v => if str_eqb v s_method then s_method_start else s_line_start
                                          | None => s_line_start end.
Proof. unfold stage_of. intros ->. reflexivity. Qed.
Theorem uninterpretable t :
  build t = None <-> (is_line_stage (stage_of (tp_args t)) = false /\ is_method_stage (stage_of (tp_args t)) = false).
Proof.
  unfold build, location_of. destruct (is_line_stage _); [split; [discriminate|intros [? _]; discriminate]|].
  destruct (is_method_stage _); [split; [discriminate|intros [_ ?]; discriminate]|]. tauto.
Qed.

(* a response: an uninterpretable tracepoint contributes nothing and changes nothing else *)
Lemma convert_fold resp : forall acc,
  fold_left (fun acc t => match build t with Some x => merge_in x acc | None => acc end) resp acc
  = fold_left (fun acc x => merge_in x acc) (flat_map (fun t => match build t with Some x => [x] | None => [] end) resp) acc.
Proof.
  induction resp as [|t r IH]; intros acc; simpl; [reflexivity|].
  destruct (build t) as [x|]; simpl; apply IH.
Qed.

Theorem bad_tracepoint_affects_only_itself l1 bad l2 :
  build bad = None -> convert (l1 ++ bad :: l2) = convert (l1 ++ l2).
Proof.
  intros B. unfold convert. rewrite !convert_fold. f_equal. rewrite !flat_map_app. simpl. rewrite B. reflexivity.
Qed.

(* every action of every interpretable tracepoint is installed, at the tracepoint's own location *)
Definition all_at (inst : installed) (l : loc) : list adesc :=
  flat_map (fun e => if loc_eqb (fst e) l then snd e else []) inst.

Lemma loc_eqb_refl l : loc_eqb l l = true.
Proof. destruct l as [p n|p [f|]]; simpl; rewrite ?str_eqb_refl, ?Z.eqb_refl; reflexivity. Qed.
Lemma loc_eqb_sym a b : loc_eqb a b = loc_eqb b a.
Proof.
  destruct (loc_eqb a b) eqn:E.
  - apply loc_eqb_eq in E. subst. symmetry. apply loc_eqb_refl.
  - destruct (loc_eqb b a) eqn:F; [|reflexivity]. apply loc_eqb_eq in F. subst. rewrite loc_eqb_refl in E. discriminate.
Qed.

Lemma merge_in_all_at x acc l :
  Permutation (all_at (merge_in x acc) l) (all_at acc l ++ (if loc_eqb (fst x) l then snd x else [])).
Proof.
  induction acc as [|y r IH].
  - unfold all_at. simpl. rewrite app_nil_r. reflexivity.
  - cbn [merge_in]. destruct (loc_eqb (fst y) (fst x)) eqn:E.
    + apply loc_eqb_eq in E. unfold all_at. cbn [flat_map fst snd]. rewrite <- E. destruct (loc_eqb (fst y) l).
      * rewrite <- !app_assoc. apply Permutation_app_head. apply Permutation_app_comm.
      * rewrite app_nil_r. reflexivity.
    + unfold all_at in *. cbn [flat_map]. rewrite <- app_assoc. apply Permutation_app_head. exact IH.
Qed.

Definition contributes (t : tp) (l : loc) : list adesc :=
  match build t with Some x => if loc_eqb (fst x) l then snd x else [] | None => [] end.

Lemma fold_merge_all_at xs l : forall acc,
  Permutation (all_at (fold_left (fun acc x => merge_in x acc) xs acc) l)
              (all_at acc l ++ flat_map (fun x : loc * list adesc => if loc_eqb (fst x) l then snd x else []) xs).
Proof.
  induction xs as [|x r IH]; intros acc; cbn [fold_left flat_map].
  - rewrite app_nil_r. reflexivity.
  - etransitivity; [apply IH|]. rewrite app_assoc. apply Permutation_app_tail. apply merge_in_all_at.
Qed.

(* tracepoints on the same location keep all of their actions; every interpretable tracepoint of a response
   is installed with exactly its own actions, at its own location *)
Theorem convert_keeps_all resp l :
  Permutation (all_at (convert resp) l) (flat_map (fun t => contributes t l) resp).
Proof.
  unfold convert. rewrite convert_fold. etransitivity; [apply fold_merge_all_at|].
  unfold all_at at 1. cbn [flat_map app].
  induction resp as [|t r IH]; cbn [flat_map]; [reflexivity|].
  unfold contributes at 1. destruct (build t) as [x|]; cbn [flat_map app].
  - rewrite ?app_nil_r. apply Permutation_app_head. exact IH.
  - exact IH.
Qed.
