(* TriggerTable.v -- interpretation of one tracepoint's arguments and of a poll response:
     api/tracepoint/trigger.py  build_trigger, build_snapshot_action, build_log_action,
                                build_metric_action, build_span_action
     grpc/__init__.py           convert_response
     config/tracepoint_config.py  TracepointConfigService.add_custom *)
From Deep Require Import Base Match.

Definition args := list (str * str).
Definition s_stage : str := [115;116;97;103;101].
Definition s_method_name : str := [109;101;116;104;111;100;95;110;97;109;101].
Definition s_span : str := [115;112;97;110].
Definition s_method : str := [109;101;116;104;111;100].
Definition s_snapshot : str := [115;110;97;112;115;104;111;116].
Definition s_no_collect : str := [110;111;95;99;111;108;108;101;99;116].
Definition s_log_msg : str := [108;111;103;95;109;115;103].
Definition s_condition : str := [99;111;110;100;105;116;105;111;110].
Definition s_fire_count : str := [102;105;114;101;95;99;111;117;110;116].
Definition s_fire_period : str := [102;105;114;101;95;112;101;114;105;111;100].
Definition s_frame_type : str := [102;114;97;109;101;95;116;121;112;101].
Definition s_stack_type : str := [115;116;97;99;107;95;116;121;112;101].
Definition s_single_frame : str := [115;105;110;103;108;101;95;102;114;97;109;101].
Definition s_stack : str := [115;116;97;99;107].
Definition s_line_start : str := [108;105;110;101;95;115;116;97;114;116].
Definition s_line_end : str := [108;105;110;101;95;101;110;100].
Definition s_line_capture : str := [108;105;110;101;95;99;97;112;116;117;114;101].
Definition s_method_start : str := [109;101;116;104;111;100;95;115;116;97;114;116].
Definition s_method_end : str := [109;101;116;104;111;100;95;101;110;100].
Definition s_method_capture : str := [109;101;116;104;111;100;95;99;97;112;116;117;114;101].
Definition s_one : str := [49].
Definition s_thousand : str := [49;48;48;48].

Definition has (a : args) (k : str) : bool := match alookup k a with Some _ => true | None => false end.
Definition get_or (a : args) (k d : str) : str := match alookup k a with Some v => v | None => d end.
Definition is_line_stage (s : str) : bool := str_eqb s s_line_capture || str_eqb s s_line_start || str_eqb s s_line_end.
Definition is_method_stage (s : str) : bool := str_eqb s s_method_start || str_eqb s s_method_capture || str_eqb s s_method_end.

Definition stage_of (a : args) : str :=
  match alookup s_stage a with
  | Some s => s
  | None => if has a s_method_name then s_method_start
            else match alookup s_span a with
                 | Some v => if str_eqb v s_method then s_method_start else s_line_start
                 | None => s_line_start
                 end
  end.

Definition location_of (path : str) (line : Z) (a : args) : option loc :=
  let st := stage_of a in
  if is_line_stage st then Some (LLine path line)
  else if is_method_stage st then Some (LFunc path (alookup s_method_name a))
  else None.

Inductive akind := ASnapshot | ALog | AMetric | ASpan.
Record adesc := { ad_kind : akind; ad_tp : str; ad_cond : option str; ad_count : str; ad_period : str;
                  ad_log : option str; ad_watches : list str; ad_frame : option str; ad_stack : option str;
                  ad_nmetrics : nat; ad_span : option str }.

Definition collects (a : args) : bool :=
  match alookup s_snapshot a with Some v => negb (str_eqb v s_no_collect) | None => true end.

Definition base (k : akind) (tp : str) (a : args) : adesc :=
  {| ad_kind := k; ad_tp := tp; ad_cond := alookup s_condition a; ad_count := get_or a s_fire_count s_one;
     ad_period := get_or a s_fire_period s_thousand; ad_log := None; ad_watches := []; ad_frame := None; ad_stack := None;
     ad_nmetrics := 0; ad_span := None |}.
Definition snapshot_action (tp : str) (a : args) (watches : list str) : list adesc :=
  if collects a then
    let b := base ASnapshot tp a in
    [{| ad_kind := ASnapshot; ad_tp := tp; ad_cond := ad_cond b; ad_count := ad_count b; ad_period := ad_period b;
        ad_log := alookup s_log_msg a; ad_watches := watches; ad_frame := Some (get_or a s_frame_type s_single_frame);
        ad_stack := Some (get_or a s_stack_type s_stack); ad_nmetrics := 0; ad_span := None |}]
  else [].
Definition log_action (tp : str) (a : args) : list adesc :=
  match alookup s_log_msg a with
  | None => []
  | Some m => if collects a then [] else
      let b := base ALog tp a in
      [{| ad_kind := ALog; ad_tp := tp; ad_cond := ad_cond b; ad_count := ad_count b; ad_period := ad_period b;
          ad_log := Some m; ad_watches := []; ad_frame := None; ad_stack := None; ad_nmetrics := 0; ad_span := None |}]
  end.
Definition metric_action (tp : str) (a : args) (nmetrics : nat) : list adesc :=
  match nmetrics with
  | O => []
  | _ => let b := base AMetric tp a in
      [{| ad_kind := AMetric; ad_tp := tp; ad_cond := ad_cond b; ad_count := ad_count b; ad_period := ad_period b;
          ad_log := None; ad_watches := []; ad_frame := None; ad_stack := None; ad_nmetrics := nmetrics; ad_span := None |}]
  end.
Definition span_action (tp : str) (a : args) : list adesc :=
  match alookup s_span a with
  | None => []
  | Some v => let b := base ASpan tp a in
      [{| ad_kind := ASpan; ad_tp := tp; ad_cond := ad_cond b; ad_count := ad_count b; ad_period := ad_period b;
          ad_log := None; ad_watches := []; ad_frame := None; ad_stack := None; ad_nmetrics := 0; ad_span := Some v |}]
  end.

Record tp := { tp_id : str; tp_path : str; tp_line : Z; tp_args : args; tp_watches : list str; tp_nmetrics : nat }.
Definition build (t : tp) : option (loc * list adesc) :=
  match location_of (tp_path t) (tp_line t) (tp_args t) with
  | None => None
  | Some l => Some (l, snapshot_action (tp_id t) (tp_args t) (tp_watches t) ++ log_action (tp_id t) (tp_args t)
                       ++ metric_action (tp_id t) (tp_args t) (tp_nmetrics t) ++ span_action (tp_id t) (tp_args t))
  end.

(* a poll response: interpretable tracepoints, merged by location in order of first appearance *)
Definition installed := list (loc * list adesc).
Fixpoint merge_in (x : loc * list adesc) (acc : installed) : installed :=
  match acc with
  | [] => [x]
  | y :: r => if loc_eqb (fst y) (fst x) then (fst y, snd y ++ snd x) :: r else y :: merge_in x r
  end.
Definition convert (resp : list tp) : installed :=
  fold_left (fun acc t => match build t with Some x => merge_in x acc | None => acc end) resp [].

(* ---------- correspondence ---------- *)
Definition akind_eqb (a b : akind) : bool :=
  match a, b with ASnapshot, ASnapshot | ALog, ALog | AMetric, AMetric | ASpan, ASpan => true | _, _ => false end.
Definition adesc_eqb (a b : adesc) : bool :=
  akind_eqb (ad_kind a) (ad_kind b) && str_eqb (ad_tp a) (ad_tp b) && option_eqb str_eqb (ad_cond a) (ad_cond b)
  && str_eqb (ad_count a) (ad_count b) && str_eqb (ad_period a) (ad_period b) && option_eqb str_eqb (ad_log a) (ad_log b)
  && list_eqb str_eqb (ad_watches a) (ad_watches b) && option_eqb str_eqb (ad_frame a) (ad_frame b)
  && option_eqb str_eqb (ad_stack a) (ad_stack b) && Nat.eqb (ad_nmetrics a) (ad_nmetrics b)
  && option_eqb str_eqb (ad_span a) (ad_span b).
Definition entry_eqb (a b : loc * list adesc) : bool := loc_eqb (fst a) (fst b) && list_eqb adesc_eqb (snd a) (snd b).
Record table_case := { tb_tp : tp; tb_obs : option (loc * list adesc) }.
Definition check_table_case (c : table_case) : bool := option_eqb entry_eqb (build (tb_tp c)) (tb_obs c).
Record resp_case := { rs_resp : list tp; rs_obs : installed }.
Definition check_resp_case (c : resp_case) : bool := list_eqb entry_eqb (convert (rs_resp c)) (rs_obs c).
