(* Wire.v -- records as finite maps from field names to values; a converter is a table
   (message field, source field).  push/__init__.py convert_snapshot and its helpers,
   grpc/__init__.py convert_value.  The tables and field lists are REGENERATED from the source
   (coq/gen/WireMap.v). *)
From Deep Require Import Base.

Section Conv.
  Variable V : Type.
  Variable dflt : V.
  Definition record := str -> V.
  Definition table := list (str * str).              (* message field, source field *)

  Definition convert (m : table) (s : record) : record :=
    fun d => match alookup d m with Some f => s f | None => dflt end.
  (* the message field that carries source field f *)
  Fixpoint dst_of (m : table) (f : str) : option str :=
    match m with [] => None | (d, f') :: r => if str_eqb f' f then Some d else dst_of r f end.
  Definition unconvert (m : table) (msg : record) : record :=
    fun f => match dst_of m f with Some d => msg d | None => dflt end.
End Conv.

(* every source field is the source of some message field, every message field is assigned once, and no
   two message fields read the same source field *)
Fixpoint nodupb (l : list str) : bool :=
  match l with [] => true | x :: r => negb (existsb (str_eqb x) r) && nodupb r end.
Definition lossless (m : list (str * str)) (fields : list str) : bool :=
  nodupb (map fst m) && nodupb (map snd m) && forallb (fun f => existsb (str_eqb f) (map snd m)) fields
  && forallb (fun f => existsb (str_eqb f) fields) (map snd m).

(* the pairing the protocol intends (message field, source field): written from the .proto documentation *)
Definition same_table (a b : list (str * str)) : bool :=
  Nat.eqb (length a) (length b) &&
  forallb (fun p => existsb (fun q => str_eqb (fst p) (fst q) && str_eqb (snd p) (snd q)) b) a.

(* ---------- attribute values (grpc convert_value) ---------- *)
Inductive aval := AvBool (b : bool) | AvStr (s : str) | AvInt (z : Z) | AvFloat (bits : Z) | AvSeq (l : list aval).
Inductive wire := WBool (b : bool) | WStr (s : str) | WInt (z : Z) | WDouble (bits : Z) | WArray (l : list wire).
Fixpoint conv_value (v : aval) : wire :=
  match v with
  | AvBool b => WBool b | AvStr s => WStr s | AvInt z => WInt z | AvFloat f => WDouble f
  | AvSeq l => WArray (map conv_value l)
  end.
Fixpoint unconv_value (w : wire) : aval :=
  match w with
  | WBool b => AvBool b | WStr s => AvStr s | WInt z => AvInt z | WDouble f => AvFloat f
  | WArray l => AvSeq (map unconv_value l)
  end.

(* ---------- text (push/__init__.py __text): protobuf strings carry valid unicode only ---------- *)
Definition is_surr (c : Z) : bool := (55296 <=? c) && (c <=? 57343).
Definition hexd (n : Z) : Z := if n <? 10 then 48 + n else 87 + n.
Definition esc_surr (c : Z) : str := [92; 117; hexd (c / 4096); hexd ((c / 256) mod 16); hexd ((c / 16) mod 16); hexd (c mod 16)].
Definition valid_text (s : str) : bool := negb (existsb is_surr s).
Definition sanitize (s : str) : str :=
  if valid_text s then s else flat_map (fun c => if is_surr c then esc_surr c else [c]) s.
Record text_case := { tx_in : str; tx_obs : str }.
Definition check_text_case (c : text_case) : bool := str_eqb (sanitize (tx_in c)) (tx_obs c).
