(* TieStore.v -- BoundedAttributes.__setitem__ / __delitem__ as translated from /repo/src on every run (gen/PStore.v)
   are the model's set_item / del_item (Attrs.v) for every store, key text and value. *)
From Deep Require Import Base Attrs PureSupport.
From DeepGen Require Import PStore.
From Coq Require Import Lia.
Local Open Scope Z_scope.

Lemma inb_aremove_same k it : inb k (aremove k it) = false.
Proof. unfold inb. rewrite alookup_aremove_same. reflexivity. Qed.

Lemma inb_tl_false k (it : list (str * cval)) : inb k it = false -> inb k (tl it) = false.
Proof.
  unfold inb. destruct it as [|[k' v] r]; simpl; [reflexivity|].
  destruct (str_eqb k' k); [discriminate|]. exact (fun H => H).
Qed.

Lemma optmap_to_of (o : option nat) : option_map Z.to_nat (option_map Z.of_nat o) = o.
Proof. destruct o; simpl; [rewrite Nat2Z.id|]; reflexivity. Qed.

Lemma tie_setitem s k v :
  gen_setitem (option_map Z.of_nat (cap s)) (option_map Z.of_nat (vlimit s)) (immutable s) (items s) (Z.of_nat (dropped s)) k v =
  let '(s', o) := set_item s (KStr k) v in ((items s', Z.of_nat (dropped s')), o).
Proof.
  unfold gen_setitem, set_item, clean_attribute. rewrite optmap_to_of.
  destruct (immutable s); [reflexivity|].
  destruct (cap s) as [c|] eqn:C; simpl option_map; cbv iota beta.
  - unfold is_cap at 1. destruct c as [|c'].
    + simpl. replace (Z.of_nat (dropped s) + 1) with (Z.of_nat (S (dropped s))) by lia. reflexivity.
    + assert (Z.of_nat (S c') =? 0 = false) as -> by (apply Z.eqb_neq; lia).
      assert (Nat.eqb (S c') 0 = false) as -> by reflexivity.
      unfold clean at 1 2. destruct (key_ok (KStr k)) as [ks|] eqn:K; [|reflexivity].
      assert (ks = k) as -> by (destruct k; simpl in K; [discriminate|injection K as <-; reflexivity]).
      set (cv := match v with VPrim p => option_map CP (clean_prim (vlimit s) p)
                 | VSeq l => option_map CSeq (clean_seq (vlimit s) None l) | VOther => None end).
      destruct cv as [cvv|]; [|reflexivity].
      destruct (inb k (items s)) eqn:I.
      * unfold od_set. rewrite inb_aremove_same. reflexivity.
      * unfold is_cap.
        destruct (Nat.eqb (S c') (length (items s))) eqn:L.
        -- apply Nat.eqb_eq in L.
           assert (Z.of_nat (length (items s)) =? Z.of_nat (S c') = true) as -> by (apply Z.eqb_eq; lia).
           destruct (items s) as [|x r] eqn:IT; [simpl in L; discriminate|].
           unfold od_set. assert (inb k r = false) as -> by (apply (inb_tl_false k (x :: r)); exact I).
           simpl tl. simpl. replace (Z.of_nat (dropped s) + 1) with (Z.of_nat (S (dropped s))) by lia. reflexivity.
        -- apply Nat.eqb_neq in L.
           assert (Z.of_nat (length (items s)) =? Z.of_nat (S c') = false) as -> by (apply Z.eqb_neq; lia).
           unfold od_set. rewrite I. reflexivity.
  - unfold is_cap.
    unfold clean at 1 2. destruct (key_ok (KStr k)) as [ks|] eqn:K; [|reflexivity].
    assert (ks = k) as -> by (destruct k; simpl in K; [discriminate|injection K as <-; reflexivity]).
    set (cv := match v with VPrim p => option_map CP (clean_prim (vlimit s) p)
               | VSeq l => option_map CSeq (clean_seq (vlimit s) None l) | VOther => None end).
    destruct cv as [cvv|]; [|reflexivity].
    destruct (inb k (items s)) eqn:I.
    + unfold od_set. rewrite inb_aremove_same. reflexivity.
    + unfold od_set. rewrite I. reflexivity.
Qed.

Lemma tie_delitem s k :
  gen_delitem (immutable s) (items s) k = let '(s', o) := del_item s k in (items s', o).
Proof.
  unfold gen_delitem, del_item. destruct (immutable s); [reflexivity|].
  destruct (inb k (items s)); reflexivity.
Qed.

(* statements about the code: the capacity is never exceeded by a set, and a set never leaves two entries for one key *)
Lemma code_setitem_capacity (c : nat) vl it d k v it' d' o :
  (length it <= c)%nat ->
  gen_setitem (Some (Z.of_nat c)) vl false it d k v = ((it', d'), o) -> (length it' <= c)%nat.
Proof.
  unfold gen_setitem. intros Hlen.
  destruct (Z.of_nat c =? 0) eqn:C0; [intros E; injection E as <- _ _; exact Hlen|].
  destruct (clean_attribute k v vl) as [cv|]; [|intros E; injection E as <- _ _; exact Hlen].
  destruct (inb k it) eqn:I.
  - intros E. injection E as <- _ _. unfold od_set. rewrite inb_aremove_same, app_length. simpl.
    assert (In k (akeys it)) as Hin.
    { unfold inb in I. destruct (alookup k it) eqn:A; [|discriminate].
      destruct (in_dec (list_eq_dec Z.eq_dec) k (akeys it)) as [H|H]; [exact H|].
      apply alookup_None_notin in H. rewrite H in A. discriminate. }
    pose proof (aremove_length k it) as H1.
    assert (length (aremove k it) < length it)%nat; [|lia].
    clear - Hin. induction it as [|[k' v'] r IH]; simpl in *; [contradiction|].
    destruct (str_eqb k' k) eqn:E.
    + pose proof (aremove_length k r). lia.
    + simpl. destruct Hin as [Hin|Hin]; [apply str_eqb_neq in E; contradiction|]. specialize (IH Hin). lia.
  - destruct (Z.of_nat (length it) =? Z.of_nat c) eqn:L.
    + destruct it as [|x r]; [intros E; injection E as <- _ _; simpl; lia|].
      intros E. injection E as <- _ _. unfold od_set.
      assert (inb k r = false) as -> by (apply (inb_tl_false k (x :: r)); exact I).
      rewrite app_length. simpl in *. lia.
    + intros E. injection E as <- _ _. unfold od_set. rewrite I, app_length. simpl.
      apply Z.eqb_neq in L. lia.
Qed.
