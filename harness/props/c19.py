"""C19 -- configuration resolution, 'same from code or environment', application frames.

Tie: correspondence.  ConfigService / GRPCService / LongPoll / Plugin.is_active / is_app_frame /
FrameCollector.parse_short_name of /repo/src are run under controlled os.environ (deep.config is
re-imported for every environment) and compared inside Coq with Config.resolve, as_bool,
as_interval, as_prefixes + is_app_frame."""
import importlib
import os
import sys
import threading
import time

from ..lib import coqlit as L

IMPORTS = ["Base", "Config"]
DOC_KEYS = ["SERVICE_URL", "SERVICE_SECURE", "LOGGING_CONF", "POLL_TIMER", "SERVICE_AUTH_PROVIDER",
            "IN_APP_INCLUDE", "IN_APP_EXCLUDE", "APP_ROOT", "PLUGINS"]
UNKNOWN_KEYS = ["SERVICE_USERNAME", "SERVICE_PASSWORD", "PLUGIN_PYTHONPLUGIN", "NO_TRACE", "SOMETHING_ELSE"]


class EnvCtl:
    """Set DEEP_* variables, re-import deep.config so that its module-level reads see them."""

    def __init__(self):
        self.saved = {k: v for k, v in os.environ.items() if k.startswith("DEEP_")}

    def apply(self, env):
        for k in [k for k in os.environ if k.startswith("DEEP_")]:
            del os.environ[k]
        for k, v in env.items():
            os.environ["DEEP_" + k] = v
        import deep.config
        importlib.reload(deep.config)

    def restore(self):
        for k in [k for k in os.environ if k.startswith("DEEP_")]:
            del os.environ[k]
        os.environ.update(self.saved)
        import deep.config
        importlib.reload(deep.config)


def enc_cv(v):
    if v is None:
        return "VNoneV"
    if type(v) is bool:
        return "(VBool %s)" % L.b(v)
    if isinstance(v, int) and 0 <= v <= 5000:
        return "(VNum %s)" % L.nat(v)
    if isinstance(v, str):
        return "(VText %s)" % L.s(v)
    if isinstance(v, (list, tuple)) and all(isinstance(x, str) for x in v):
        return "(VList %s)" % L.lst(L.s(x) for x in v)
    if isinstance(v, Fn):
        return "(VFun %s)" % enc_cv(v.r)
    if callable(v):
        return "(VFun %s)" % enc_cv(v())
    raise ValueError("cannot encode %r" % (v,))


class Fn:
    def __init__(self, r):
        self.r = r

    def __call__(self):
        return self.r

    def __repr__(self):
        return "Fn(%r)" % (self.r,)


def gen_setting(rng, key):
    r = rng.randrange(9)
    if r == 0:
        return None
    if r == 1:
        return rng.choice(["x", "True", "False", "10", "", "/app,/lib"])
    if r == 2:
        return rng.choice([0, 1, 10, 30])
    if r == 3:
        return rng.choice([True, False])
    if r == 4:
        return [rng.choice(["/a", "/b/c", "pkg"]) for _ in range(rng.randrange(3))]
    if r == 5:
        return Fn(gen_setting(rng, key) if rng.random() < 0.7 else None)
    return rng.choice(["deep:43315", "host:1", "yes", "5"])


def jv(v):
    return repr(v)


# ----------------------------------------------------------------------------- resolution
def resolve_cases(ctx, env_ctl, n):
    from deep.config.config_service import ConfigService
    from deep.config.tracepoint_config import TracepointConfigService
    lits, cj = [], []
    rng = ctx.rng
    for _ in range(n):
        key = rng.choice(DOC_KEYS + UNKNOWN_KEYS + ["resource", "plugins"])
        env = {}
        if rng.random() < 0.5:
            env[key] = rng.choice(["e", "True", "False", "7", "/x,/y", ""])
        custom = {}
        mode = rng.randrange(3)
        if mode > 0:
            custom[key] = gen_setting(rng, key)
        env_ctl.apply(env)
        import deep.config as dc
        cfg = ConfigService(dict(custom), tracepoints=TracepointConfigService())
        own = None
        if key in ("resource", "plugins"):
            own = getattr(cfg, key)
        try:
            obs = getattr(cfg, key)
        except Exception as e:
            ctx.fail("reading setting %s raised %r" % (key, e), dict(key=key, env=env, custom=jv(custom)), tag="resolve-raise")
            continue
        dflt = getattr(dc, key) if hasattr(dc, key) else "absent"
        j = dict(key=key, env=env, custom={k: jv(v) for k, v in custom.items()}, observed=jv(obs))
        ctx.case(j, nontrivial=bool(env or custom), bucket="resolve")
        # property oracle (text): code wins over env-backed default, which wins over DEEP_<KEY> for unknown keys
        cval = custom.get(key)
        if key not in ("resource", "plugins"):
            if cval is not None:
                exp = cval() if callable(cval) else cval
            elif dflt != "absent":
                exp = dflt() if callable(dflt) else dflt
            else:
                exp = env.get(key)
            if obs != exp:
                ctx.fail("setting %s resolved to %r, documented precedence gives %r" % (key, obs, exp), j, tag="precedence")
            # a setting that has no environment-backed default of its own (credentials of the auth provider, plugin switches, ...)
            # works from the environment: its DEEP_ variable IS its value when the code gives none - whatever deep.config declares
            if key in UNKNOWN_KEYS and cval is None and key in env and obs != env[key]:
                ctx.fail("setting %s is given as DEEP_%s=%r and not in code, and resolves to %r: it does not work from the environment" % (
                    key, key, env[key], obs), j, tag="environment-not-read")
        try:
            lit = "{| rv_own := %s; rv_custom := %s; rv_dflt := %s; rv_env := %s; rv_obs := %s |}" % (
                L.opt(enc_cv(own) if key in ("resource", "plugins") else None),
                L.opt(enc_cv(custom[key])) if key in custom else "None",
                L.opt(None if dflt == "absent" else enc_cv(dflt)),
                L.opt(L.s(env[key])) if key in env else "None", enc_cv(obs))
        except ValueError:
            continue
        lits.append(lit)
        cj.append(j)
    ctx.correspond("resolve", IMPORTS, "resolve_case", "check_resolve_case", lits, cj)


# ----------------------------------------------------------------------------- typed use
BOOL_TEXTS = ["True", "False", "true", "false", "YES", "no", "t", "T", "1", "0", "y", "N", "on", ""]


def bool_cases(ctx, env_ctl):
    import grpc
    from deep.config.config_service import ConfigService
    from deep.config.tracepoint_config import TracepointConfigService
    from deep.grpc.grpc_service import GRPCService
    from deep.api.plugin.python import PythonPlugin
    lits, cj = [], []
    calls = []
    real = (grpc.secure_channel, grpc.insecure_channel)
    grpc.secure_channel = lambda *a, **k: calls.append("secure")
    grpc.insecure_channel = lambda *a, **k: calls.append("insecure")
    try:
        values = [("code", v) for v in BOOL_TEXTS + [True, False, 1, 0]] + [("env", v) for v in BOOL_TEXTS if v != ""]
        for how, v in values:
            for target in ("SERVICE_SECURE", "PLUGIN_PYTHONPLUGIN"):
                env_ctl.apply({target: v} if how == "env" else {})
                cfg = ConfigService({target: v} if how == "code" else {}, tracepoints=TracepointConfigService())
                j = dict(setting=target, how=how, value=jv(v))
                ctx.case(j, bucket="bool")
                try:
                    if target == "SERVICE_SECURE":
                        del calls[:]
                        GRPCService(cfg).start()
                        obs = calls == ["secure"]
                    else:
                        obs = bool(PythonPlugin(config=cfg).is_active())
                except Exception as e:
                    ctx.fail("%s given %s as %r: %r" % (target, "in code" if how == "code" else "by environment", v, e),
                             j, tag="bool-raise")
                    continue
                # oracle: documented truth words, same either way (text of the value decides)
                exp = str(v).lower() in ("yes", "true", "t", "1", "y")
                if target == "PLUGIN_PYTHONPLUGIN" and v is None:
                    exp = True
                if obs != exp:
                    ctx.fail("%s=%r (%s) acts as %s, the same text acts as %s" % (target, v, how, obs, exp), j, tag="bool-differs")
                lits.append("{| bc_val := %s; bc_obs := %s |}" % (enc_cv(v), L.b(obs)))
                cj.append(j)
    finally:
        grpc.secure_channel, grpc.insecure_channel = real
    ctx.correspond("bool", IMPORTS, "bool_case", "check_bool_case", lits, cj)


def interval_cases(ctx, env_ctl, live):
    from deep.config.config_service import ConfigService
    from deep.config.tracepoint_config import TracepointConfigService
    from deep.poll.poll import LongPoll
    lits, cj = [], []
    for n in [1, 2, 5, 10, 30, 60, 600, 3600, 0.5, 2.5, 20.0]:
        for how in ("code", "env", "code-text"):
            v = n if how == "code" else ("%g" % n if isinstance(n, float) and how != "code" else str(n))
            if isinstance(n, float) and n == 20.0 and how != "code":
                v = "2e1"                      # any text float() accepts
            env_ctl.apply({"POLL_TIMER": v} if how == "env" else {})
            cfg = ConfigService({} if how == "env" else {"POLL_TIMER": v}, tracepoints=TracepointConfigService())
            lp = LongPoll(cfg, None)
            lp.poll = lambda: None
            import deep.poll.poll as pp
            started = []
            real_start = pp.RepeatedTimer.start
            pp.RepeatedTimer.start = lambda self: started.append(self)
            j = dict(setting="POLL_TIMER", how=how, value=jv(v))
            ctx.case(j, bucket="interval")
            try:
                lp.start()
            finally:
                pp.RepeatedTimer.start = real_start
            t = started[0]
            try:
                wait = t._time
                ok = 0 < wait <= n
            except Exception as e:
                ctx.fail("POLL_TIMER=%r (%s): the poll timer cannot compute its wait: %r" % (v, how, e), j, tag="interval-raise")
                continue
            if not ok:
                ctx.fail("POLL_TIMER=%r (%s): wait %r is not within (0, %s]" % (v, how, wait, n), j, tag="interval-wrong")
            if float(t.interval) != float(n):
                ctx.fail("POLL_TIMER=%r given through %s: the poll interval is %r seconds, the setting says %r (the same key given in code "
                         "as a number is honoured)" % (v, how, t.interval, n), j, tag="interval-differs-by-source")
            if isinstance(n, int):
                lits.append("{| ic_val := %s; ic_obs := %s |}" % (enc_cv(v), L.nat(int(t.interval))))
                cj.append(j)
    ctx.correspond("interval", IMPORTS, "interval_case", "check_interval_case", lits, cj)
    if live:
        # liveness of the real timer thread with the interval taken from the environment
        env_ctl.apply({"POLL_TIMER": "1"})
        cfg = ConfigService({}, tracepoints=TracepointConfigService())
        hits = []
        lp = LongPoll(cfg, None)
        lp.poll = lambda: hits.append(time.time())
        errs = []
        old_hook = threading.excepthook
        threading.excepthook = lambda a: errs.append(repr(a.exc_value))
        try:
            lp.start()
            t0 = time.time()
            while time.time() - t0 < 2.6 and len(hits) < 2:
                time.sleep(0.05)
            alive = lp.timer.thread.is_alive()
            lp.timer.event.set()
        finally:
            threading.excepthook = old_hook
        ctx.case(dict(live_timer="DEEP_POLL_TIMER=1", polls=len(hits), alive=alive), bucket="interval-live")
        if not alive or len(hits) < 2:
            ctx.fail("DEEP_POLL_TIMER=1: poll timer thread died or never polled again (%s)" % (errs[:1],),
                     dict(setting="POLL_TIMER", how="env", value="1"), tag="interval-raise")


def history_cases(ctx, env_ctl, n):
    """Resolution does not depend on what was asked before: one long-lived service is asked for keys while DEEP_<KEY> variables
    appear, change and disappear between the questions; every answer equals the answer of a fresh service under the same
    environment."""
    from deep.config.config_service import ConfigService
    from deep.config.tracepoint_config import TracepointConfigService
    rng = ctx.rng
    keys = ["SERVICE_USERNAME", "SERVICE_PASSWORD", "PLUGIN_MYPLUGIN", "SOME_FUTURE_KEY", "POLL_TIMER", "SERVICE_SECURE", "APP_ROOT"]
    for _ in range(n):
        code = {k: rng.choice(["from-code", 7]) for k in rng.sample(keys, rng.choice([0, 0, 1]))}
        env_ctl.apply({})
        old = ConfigService(dict(code), tracepoints=TracepointConfigService())
        env, steps = {}, []
        for _s in range(rng.choice([2, 3, 5, 8])):
            k = rng.choice(keys)
            r = rng.random()
            if r < 0.45:
                env[k] = rng.choice(["v1", "v2", "False", "5"])
            elif r < 0.6:
                env.pop(k, None)
            # (the documented defaults are read when deep.config is imported: only the DEEP_ variables themselves change here)
            for kk in [x for x in os.environ if x.startswith("DEEP_")]:
                del os.environ[kk]
            for kk, vv in env.items():
                os.environ["DEEP_" + kk] = vv
            ask = rng.choice(keys)
            got = getattr(old, ask)
            fresh = getattr(ConfigService(dict(code), tracepoints=TracepointConfigService()), ask)
            steps.append(dict(environment=dict(env), asked=ask, long_lived=repr(got), fresh=repr(fresh)))
            if repr(got) != repr(fresh):
                j = dict(code=code, history=steps)
                ctx.fail("after the history %s a long-lived service answers %r for %s, a fresh service under the same environment answers %r" % (
                    [(s_["asked"], sorted(s_["environment"])) for s_ in steps], got, ask, fresh), j, kind="history", tag="depends-on-history")
                break
        ctx.case(dict(code=code, history=[(s_["asked"], sorted(s_["environment"].items())) for s_ in steps]), nontrivial=len(steps) > 2, bucket="history")


# ----------------------------------------------------------------------------- frames
def gen_prefixes(rng):
    # folder prefixes, and prefixes that run past the last '/' (one file, or a family of names in a folder)
    # (also prefixes anchored at a directory boundary by a trailing '/', and spellings a path normaliser would alter)
    pool = ["/app", "/app/vendor", "/usr/lib", "/opt/x", "/srv", "/a", "lib", "/app/vendor/x", "/app/ma", "/srv/w", "/app/vendor/gen_",
            "/opt/x/y.py", "/app/", "/app/vendor/", "/opt/x/", "/srv/", "/a/", "/app//vendor", "/opt/./x"]
    return [rng.choice(pool) for _ in range(rng.choice([0, 1, 1, 2, 3]))]


def frame_cases(ctx, env_ctl, n):
    from deep.config.config_service import ConfigService
    from deep.config.tracepoint_config import TracepointConfigService
    from deep.processor.frame_collector import FrameCollector
    rng = ctx.rng
    lits, cj = [], []
    files = ["/app/main.py", "/app/other.py", "/app/vendor/gen_pb2.py", "/app/vendor/lib.py", "/usr/lib/python3/x.py", "/opt/x/y.py", "/opt/x/z.py",
             "/srv/w.py", "/srv/x.py", "/a", "/ab/c.py",
             "lib/m.py", sys.exec_prefix + "/lib/os.py", "/app/vendor/x/z.py", "<string>", "", "/app.py", "/application/main.py",
             "/app/vendored/v.py", "/opt/xy/q.py", "/srv.py"]

    class Src:
        def __init__(self, cfg):
            self.cfg = cfg

        def is_app_frame(self, f):
            return self.cfg.is_app_frame(f)
    for _ in range(n):
        incl, excl = gen_prefixes(rng), gen_prefixes(rng)
        how_i = rng.choice(["env", "code-list", "code-text", "absent"])
        how_e = rng.choice(["env", "code-list", "code-text", "absent"])
        if not incl:
            how_i = rng.choice(["absent", "code-list", "env-empty"])
        if not excl:
            how_e = rng.choice(["absent", "code-list", "env-empty"])
        root = rng.choice(["/app", "/srv", "/nowhere", "/a"])
        env, custom = {}, {"APP_ROOT": root}
        vals = {}
        for key, how, lst in (("IN_APP_INCLUDE", how_i, incl), ("IN_APP_EXCLUDE", how_e, excl)):
            if how == "env":
                env[key] = ",".join(lst)
                vals[key] = ",".join(lst)
            elif how == "env-empty":
                env[key] = ""
                vals[key] = ""
            elif how == "code-list":
                custom[key] = list(lst)
                vals[key] = list(lst)
            elif how == "code-text":
                custom[key] = ",".join(lst)
                vals[key] = ",".join(lst)
            else:
                vals[key] = None
        env_ctl.apply(env)
        cfg = ConfigService(dict(custom), tracepoints=TracepointConfigService())
        if rng.random() < 0.5:
            f = rng.choice(files)
        else:
            # composed names: a known prefix followed by segments that may repeat a prefix's own text
            pool = ["/app", "/app/vendor", "/usr/lib", "/opt/x", "/srv", "/a", "lib", "/app/vendor/x"]
            f = rng.choice(pool + [root, "", "/other"]) + "".join(
                rng.choice(pool + ["/main.py", "/pkg", "/x.py", root]) for _ in range(rng.choice([1, 2, 3])))
        # the SAME service is asked about siblings of f first (the answer for f must not depend on earlier questions)
        import posixpath
        folder = posixpath.dirname(f)
        for sib in rng.sample(["main.py", "other.py", "gen_a.py", "gen_pb2.py", "w.py", "x.py", "y.py", "lib.py"], rng.choice([0, 1, 2])):
            try:
                cfg.is_app_frame(folder + "/" + sib)
            except Exception:
                pass
        j = dict(include=jv(vals["IN_APP_INCLUDE"]), include_from=how_i, exclude=jv(vals["IN_APP_EXCLUDE"]),
                 exclude_from=how_e, app_root=root, file=f)
        ctx.case(j, nontrivial=bool(incl or excl), bucket="frame inc=%s exc=%s" % (how_i, how_e))
        try:
            app, match = cfg.is_app_frame(f)
            short, app2 = FrameCollector(Src(cfg), None).parse_short_name(f)
        except Exception as e:
            ctx.fail("is_app_frame raised %r" % (e,), j, tag="frame-raise:%s/%s" % (
                how_i if "IN_APP_INCLUDE" in repr(e) or True else "", how_e))
            continue
        # oracle from the text
        def eff(v):
            return [] if v is None else [p for p in (v.split(",") if isinstance(v, str) else v) if p]
        ex_all = eff(vals["IN_APP_EXCLUDE"]) + [sys.exec_prefix]
        excluded = any(f.startswith(p) for p in ex_all)
        included = any(f.startswith(p) for p in eff(vals["IN_APP_INCLUDE"])) or f.startswith(root)
        if bool(app) != (included and not excluded) or app2 != app:
            ctx.fail("file %r: app_frame=%s but include/app-root match=%s, exclude match=%s" % (f, app, included, excluded),
                     j, tag="frame-flag")
        if match is not None and not (f.startswith(match) and short == f[len(match):]):
            ctx.fail("file %r: short path %r is not the name minus the matched prefix %r" % (f, short, match), j, tag="frame-short")
        if match is None and short != f:
            ctx.fail("file %r: no prefix matched but short path is %r" % (f, short), j, tag="frame-short")
        lits.append("{| fc_excl := %s; fc_incl := %s; fc_exec_prefix := %s; fc_root := %s; fc_file := %s; fc_app := %s; "
                    "fc_match := %s; fc_short := %s |}" % (
                        enc_cv(vals["IN_APP_EXCLUDE"]), enc_cv(vals["IN_APP_INCLUDE"]), L.s(sys.exec_prefix), L.s(root), L.s(f),
                        L.b(app), L.opt(None if match is None else L.s(match)), L.s(short)))
        cj.append(j)
    ctx.correspond("frames", IMPORTS, "frame_case", "check_frame_case", lits, cj)


def app_root_cases(ctx, env_ctl):
    """DEEP_APP_ROOT versus APP_ROOT given in code, through deep.start()."""
    import deep
    import deep.logging
    real_start, real_init = deep.Deep.start, deep.logging.init
    deep.Deep.start = lambda self: None
    deep.logging.init = lambda cfg=None: None
    try:
        for root in ["/srv/app", "/x"]:
            env_ctl.apply({"APP_ROOT": root})
            d1 = deep.start({})
            env_ctl.apply({})
            d2 = deep.start({"APP_ROOT": root})
            for d in (d1, d2):
                d.task_handler._pool.shutdown(wait=False)
            j = dict(setting="APP_ROOT", value=root)
            ctx.case(j, bucket="app-root")
            if d1.config.APP_ROOT != root or d2.config.APP_ROOT != root:
                ctx.fail("APP_ROOT %r: environment gives %r, code gives %r" % (root, d1.config.APP_ROOT, d2.config.APP_ROOT),
                         j, tag="app-root")
    finally:
        deep.Deep.start, deep.logging.init = real_start, real_init


def run(ctx):
    import logging
    from ..lib.quiet import quiet_logging
    quiet_logging()
    ctx.rule = ("resolution: random key (9 documented, 5 undocumented, 2 real attributes) x code value {absent, None, text, "
                "number, bool, list, function} x DEEP_<KEY> {absent, text}, deep.config re-imported per environment; typed "
                "use: every truth word / bool / 0,1 for SERVICE_SECURE and a plugin switch from code and from environment "
                "(exhaustive list), POLL_TIMER in {1..3600} as number, code text, environment text (+ one live timer "
                "thread); frames: random include/exclude lists given as environment text, code text, code list or absent "
                "x app root x 12 file names. Non-trivial = some source set; distinct = distinct canonical JSON.")
    ctx.assumptions = [
        "settings hold None, text, small non-negative integers, booleans, lists of text, or functions returning those",
        "POLL_TIMER texts are decimal non-negative integers (the documented unit is whole seconds)",
        "str.lower on the generated ASCII truth words equals the model's ASCII lower-casing",
        "include/exclude entries contain no comma (the documented separator)",
    ]
    ctx.prove()
    env_ctl = EnvCtl()
    try:
        resolve_cases(ctx, env_ctl, 1500 if ctx.thorough else 400)
        bool_cases(ctx, env_ctl)
        interval_cases(ctx, env_ctl, live=True)
        history_cases(ctx, env_ctl, 300 if ctx.thorough else 60)
        frame_cases(ctx, env_ctl, 6000 if ctx.thorough else 900)
        app_root_cases(ctx, env_ctl)
    finally:
        env_ctl.restore()


def replay(ctx, data):
    ctx.fail("replay for C19 re-runs the seeded generation: VERIF_SEED=%s check.py C19" % data.get("seed"))
