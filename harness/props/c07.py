"""C07 -- snapshot variable table is closed and de-duplicated by object identity (engine E1)."""
from ..lib import e1, objgen
from .. import known


@known.matcher("locals-alias")
def _locals_alias(f):
    """A reachable object IS a collected frame's own locals mapping (a local bound to locals())."""
    return f.get("tag") == "dangling" and bool((f.get("case") or {}).get("locals_aliased"))


def all_refs(obs):
    for f in obs["frames"]:
        for v in f["vars"]:
            yield ("frame %s" % f["func"], v)
    for e in obs["table"]:
        for c in e["children"]:
            yield ("child of %d" % e["vid"], c)
    for w in obs["watches"]:
        if w["ref"] is not None:
            yield ("watch %s" % w["expr"], w["ref"])


def oracle(ctx, case, heap, obs, desc):
    tbl = {e["vid"]: e for e in obs["table"]}
    for where, r in all_refs(obs):
        if r["vid"] is None or r["vid"] not in tbl:
            ctx.fail("reference %r (%s) points to id %r which is not in the variable table" % (r["name"], where, r["vid"]),
                     desc, tag="dangling")
    # one object one id / different objects different ids
    seen = {}
    for e in obs["table"]:
        if e["hash"] in seen:
            ctx.fail("object %s recorded twice (ids %d and %d)" % (e["hash"], seen[e["hash"]], e["vid"]), desc, tag="dup-object")
        seen[e["hash"]] = e["vid"]
    if len(obs["table"]) > len(heap.objs):
        ctx.fail("%d entries for %d distinct reachable objects" % (len(obs["table"]), len(heap.objs)), desc, tag="repetition")
    # every reference denotes the object the program holds under that name
    def expect(e_oid, ref, where):
        ent = tbl.get(ref["vid"])
        if ent is not None and ent["oid"] != e_oid:
            ctx.fail("%s: reference %r resolves to object %s, the program holds object %s there" % (
                where, ref["name"], ent["oid"], e_oid), desc, tag="wrong-object")
    flags = e1.collect_flags(case)
    for f, fo, fl in zip(case["frames"], obs["frames"], flags):
        if not fl:
            continue
        for v in fo["vars"]:
            if v["name"] in f["locals"]:
                expect(heap.of(f["locals"][v["name"]]), v, "frame variable")
    for e in obs["table"]:
        rec = heap.objs[e["oid"]] if e["oid"] is not None else None
        if rec is None:
            continue
        if rec["kind"] == "seq":
            for c in e["children"]:
                if c["name"].isdigit() and int(c["name"]) < len(rec["children"]):
                    expect(heap.of(rec["children"][int(c["name"])][1]), c, "element")
        else:
            byname = {}
            for n, x in rec["children"]:
                byname.setdefault(n, x)
            for c in e["children"]:
                key = c["orig"] if c["orig"] is not None else c["name"]
                if key in byname:
                    expect(heap.of(byname[key]), c, "attribute/key")
    for (w, val), wo in zip(case["watches"], obs["watches"]):
        if wo["ref"] is not None:
            expect(heap.of(val), wo["ref"], "watch")


def gen(ctx, alias_p=0.04):
    rng = ctx.rng
    case = e1.gen_case(rng, hostile_p=0.03, max_nodes=rng.choice([10, 25, 50]),
                       limits=dict(max_vars=rng.choice([0, 1, 3, 6, 15, 1000, 1000]), max_coll=rng.choice([1, 3, 10]),
                                   max_depth=rng.choice([2, 3, 5, 8]), max_str=rng.choice([5, 64, 1024])))
    # more sharing: the same containers under several names, watches on values already in the frame
    top = case["frames"][0]["locals"]
    vals = list(top.values())
    for k in range(rng.choice([0, 1, 2, 3])):
        if vals:
            top["alias%d" % k] = rng.choice(vals)
    if rng.random() < 0.15:
        # a watch whose value holds an object the collector cannot look into (its attribute lookup raises) next to an ordinary one,
        # and a LATER watch on that ordinary object: whatever happens to the first watch, every reference of the second resolves
        shared = objgen.Person("w", 1)
        first = [shared, objgen.BadGetattr()] if rng.random() < 0.5 else {"s": shared, "x": objgen.BadGetattr(), "t": (shared,)}
        case["watches"] = list(case["watches"]) + [("holder()", first), ("held()", shared)]
        case["keep"].extend([shared, first])
        case["limits"]["max_vars"] = max(case["limits"]["max_vars"], 15)
        case["limits"]["max_depth"] = max(case["limits"]["max_depth"], 3)
    if rng.random() < 0.08:
        # a watch whose value reaches MANY objects never seen before, then a later watch on one of them
        shared = objgen.Person("held", 2)
        big = {"k%d" % i: (shared if i == 7 else [i, str(i)]) for i in range(60)}
        case["watches"] = list(case["watches"]) + [("settings()", big), ("one_of_them()", shared)]
        case["keep"].extend([shared, big])
        case["limits"]["max_vars"] = 1000
        case["limits"]["max_depth"] = max(case["limits"]["max_depth"], 4)
        case["limits"]["max_coll"] = max(case["limits"]["max_coll"], 3)
    aliased = False
    if rng.random() < alias_p:
        f = rng.choice(case["frames"])
        f["locals"]["me"] = f["locals"]          # a local bound to the frame's own locals()
        aliased = True
    return case, aliased


def deferred_temporaries(ctx, n):
    """Capture-stage snapshots: watches and log fields produce FRESH values (really evaluated), the frame moves on, and the
    value returned later is allocated afterwards.  Nothing the capture refers to may resolve to a watch's value."""
    from deep.api.tracepoint.trigger import LocationAction, Trigger, LineLocation, FunctionLocation, Location
    from ..lib import e2
    rng = ctx.rng
    for k in range(n):
        world = e2.World(logger=True, spans=0, metrics=0)
        world.clear_pending()
        nw = rng.choice([2, 4, 8])
        watches = ["base * %d.5" % i for i in range(1, nw + 1)]
        stage = rng.choice(["method_capture", "line_capture"])
        conf = {"fire_count": "-1", "fire_period": "0", "frame_type": "single_frame", "watches": watches, "stage": stage,
                "log_msg": rng.choice([None, "v={base * 7.25} {base * 9.75}", "v={base * 7.25} {base * 9.75} {base * 1.75} {base * 2.75} {base * 3.75}"])}
        action = LocationAction("tp-cap", None, conf, LocationAction.ActionType.Snapshot)
        loc = FunctionLocation("m.py", "f", Location.Position.CAPTURE) if stage == "method_capture" else LineLocation("m.py", 7, Location.Position.CAPTURE)
        world.install([Trigger(loc, [action])])
        fr = e2.mk_frame("/app/m.py", "f", 7, {"base": float(rng.randrange(3, 50)), "extra": ("x", 2, [3, 4]), "tag": "t" * 5})
        world.event(fr, "call" if stage == "method_capture" else "line")
        fr.f_lineno = 9
        base = fr.f_locals["base"]
        if rng.random() < 0.7:
            import gc
            gc.collect()       # the program runs on for a while: anything only held by finished agent contexts (cycles) is freed
        ret = [base * (j + 0.125) for j in range(nw + 4)]          # allocated AFTER the watches were evaluated
        world.event(fr, "return", ret)
        snaps = [p for w, _t, _i, p in world.log if w == "snapshot"]
        j = dict(deferred=True, stage=stage, watches=watches, log=conf["log_msg"])
        ctx.case(j, nontrivial=True, bucket="deferred-temporaries")
        if len(snaps) != 1:
            ctx.fail("%d snapshots for a %s tracepoint" % (len(snaps), stage), j, tag="snapshot-lost")
            continue
        s_ = snaps[0]
        cap = [w for w in s_.watches if w.source == "CAPTURE"]
        if not cap or cap[0].result is None:
            ctx.fail("no captured value on the deferred snapshot", j, tag="no-capture")
            continue
        root = s_.var_lookup.get(cap[0].result.vid)
        if root is None:
            ctx.fail("captured value refers to id %r which is not in the table" % cap[0].result.vid, j, tag="dangling")
            continue
        # what the snapshot recorded BEFORE the capture still says what it said: every frame variable and every watch result
        # resolves to the entry of its own object (the capture's entries are merged in, they must not take over existing ids)
        if s_.frames and conf["frame_type"] == "single_frame":
            for v in s_.frames[0].variables:
                ent = s_.var_lookup.get(v.vid)
                obj = fr.f_locals.get(v.name)
                if ent is None:
                    ctx.fail("frame variable %r of the deferred snapshot refers to the missing id %r" % (v.name, v.vid), j, tag="dangling")
                elif str(ent.hash) != str(id(obj)):
                    ctx.fail("frame variable %r of the deferred snapshot resolves to the entry of another object (%s %r) after the captured "
                             "value was merged in" % (v.name, ent.type, ent.value), j, tag="wrong-object")
        for w in s_.watches:
            if w.source == "WATCH" and w.result is not None:
                ent = s_.var_lookup.get(w.result.vid)
                want_text = str(eval(w.expression, {}, dict(fr.f_locals)))
                if ent is None:
                    ctx.fail("watch %r of the deferred snapshot refers to the missing id %r" % (w.expression, w.result.vid), j, tag="dangling")
                elif ent.value != want_text:
                    ctx.fail("watch %r of the deferred snapshot resolves to %s %r after the captured value was merged in; it evaluated to %r" % (
                        w.expression, ent.type, ent.value, want_text), j, tag="wrong-object")
        for child in root.children:
            ent = s_.var_lookup.get(child.vid)
            want = ret[int(child.name)]
            if ent is None:
                ctx.fail("element %s of the returned list refers to a missing id" % child.name, j, tag="dangling")
            elif ent.value != str(want) or str(ent.hash) != str(id(want)):
                ctx.fail("element %s of the returned list (%r) resolves to the entry of another object (%s %r): two objects share an id" % (
                    child.name, want, ent.type, ent.value), j, tag="wrong-object")
                break
        world.clear_pending()


def run(ctx):
    import logging
    from ..lib.quiet import quiet_logging
    quiet_logging()
    ctx.rule = ("as C05, weighted to sharing and cycles: containers tied back into themselves, the same value under several "
                "names, watches whose value is already in the frame / first seen by the watch, budgets from 0 to 1000, "
                "and (4%) a local bound to the frame's own locals() mapping. Non-trivial: at least one object is reached "
                "by two references; distinct: distinct heap/limits description.")
    ctx.assumptions = [
        "id() is injective on the objects alive during one trigger (all generated objects are kept alive)",
        "watch values are supplied by the harness in place of eval(); the time budget is not hit",
    ]
    ctx.prove()
    saved = e1.install_clock()
    lits, cj = [], []
    try:
        # corpus first: the witness of theorem C07_locals_alias_refuted, replayed on the implementation
        d = {}
        d["me"] = d
        wit = dict(frames=[dict(file="/app/src/main.py", func="f", line=3, locals=d)], watches=[],
                   limits=dict(max_vars=10, max_coll=10, max_depth=5, max_str=5), frame_type="single_frame", keep=[d])
        cases = [(wit, True)]
        n = 2500 if ctx.thorough else 400
        for i in range(n):
            cases.append(gen(ctx))
        for case, aliased in cases:
            heap = e1.read_heap(case)
            desc = e1.describe(case, heap)
            desc["locals_aliased"] = aliased or any(
                any(x is f["locals"] for _, x in r["children"]) for r in heap.objs for f in case["frames"]) or any(
                v is f["locals"] for _, v in case["watches"] for f in case["frames"])
            snaps, raised = e1.run_impl(case)
            multi = sum(1 for r in heap.objs for _ in r["children"]) + len(case["watches"]) > len(heap.objs)
            ctx.case(dict(limits=desc["limits"], aliased=desc["locals_aliased"],
                          heap=[(h["ty"], h["kind"], [c[1] for c in h["children"]]) for h in desc["heap"]]),
                     nontrivial=multi, bucket="aliased" if desc["locals_aliased"] else "max_vars=%s" % case["limits"]["max_vars"])
            if raised is not None or len(snaps) != 1:
                e1.no_snapshot(ctx, desc, raised)
                continue
            obs = e1.observe(snaps[0], heap)
            oracle(ctx, case, heap, obs, desc)
            try:
                lits.append(e1.snap_literal(case, heap, obs, e1.collect_flags(case)))
                cj.append(desc)
            except ValueError as ex:
                ctx.fail("snapshot cannot be related to the program's objects: %s" % ex, desc, tag="unrelated")
    finally:
        e1.restore_clock(saved)
    e1.too_many_skipped(ctx, ctx.evaluations)
    ctx.correspond("collector", e1.IMPORTS, "snap_case", "check_snap_case_identity", lits, cj, shard=60)
    deferred_temporaries(ctx, 120 if ctx.thorough else 25)


def replay(ctx, data):
    ctx.fail("replay re-runs the seeded generation: VERIF_SEED=%s check.py C07" % data.get("seed"))
