"""C11 -- tracepoint configuration is interpreted as documented, one tracepoint at a time (engine E2).

Tie: correspondence, EXHAUSTIVE over the interacting argument keys (stage x method_name x span x
snapshot x log_msg x metrics = 1024 rows, pass-through keys drawn per row) through the real
build_trigger, compared inside Coq with TriggerTable.build; generated response lists (with
uninterpretable members and shared locations) through the real convert_response and add_custom,
compared with TriggerTable.convert; and the installed actions are driven through the real handler."""
import itertools

from ..lib import coqlit as L
from ..lib import e2
from ..lib import e5

IMPORTS = ["Base", "Match", "TriggerTable"]
STAGES = [None, "line_start", "line_end", "line_capture", "method_start", "method_end", "method_capture", "bogus_stage"]
SPANS = [None, "line", "method", "other"]
SNAPS = [None, "collect", "no_collect", "weird"]
KIND = {"Snapshot": "ASnapshot", "Log": "ALog", "Metric": "AMetric", "Span": "ASpan"}


def opt_s(v):
    return L.opt(None if v is None else L.s(v))


def make_args(rng, stage, mname, span, snap, log):
    a = {}
    if stage is not None:
        a["stage"] = stage
    if mname:
        a["method_name"] = rng.choice(["handler", "run"])
    if span is not None:
        a["span"] = span
    if snap is not None:
        a["snapshot"] = snap
    if log:
        a["log_msg"] = rng.choice(["msg {a}", "plain"])
    if rng.random() < 0.5:
        a["condition"] = rng.choice(["a > 1", "", "x"])
    if rng.random() < 0.5:
        a["fire_count"] = rng.choice(["3", "-1", "zz"])
    if rng.random() < 0.5:
        a["fire_period"] = rng.choice(["0", "250"])
    if rng.random() < 0.4:
        a["frame_type"] = rng.choice(["all_frame", "no_frame", "single_frame", "odd"])
    if rng.random() < 0.3:
        a["stack_type"] = rng.choice(["stack", "no_stack"])
    if rng.random() < 0.2:
        a["unknown_key"] = "v"
    return a


def tp_lit(tp):
    return "{| tp_id := %s; tp_path := %s; tp_line := %s; tp_args := %s; tp_watches := %s; tp_nmetrics := %s |}" % (
        L.s(tp["id"]), L.s(tp["path"]), L.z(tp["line"]), L.lst(L.pair(L.s(k), L.s(v)) for k, v in tp["args"].items()),
        L.lst(L.s(w) for w in tp["watches"]), L.nat(tp["nmetrics"]))


def describe_trigger(trig):
    """(location, [action descriptions]) of a real Trigger."""
    loc = trig._Trigger__location
    if type(loc).__name__ == "LineLocation":
        lj = ("line", loc.path, loc.line)
        ll = "(LLine %s %s)" % (L.s(loc.path), L.z(loc.line))
    else:
        lj = ("func", loc.path, loc.name)
        ll = "(LFunc %s %s)" % (L.s(loc.path), opt_s(loc.name))
    acts, aj = [], []
    for a in trig._Trigger__actions:
        c = a.config
        d = dict(kind=str(a.action_type), tp=a.id, cond=a.condition, count=c.get("fire_count"), period=c.get("fire_period"),
                 log=c.get("log_msg"), watches=list(c.get("watches", [])), frame=c.get("frame_type"), stack=c.get("stack_type"),
                 nmetrics=len(c.get("metrics", [])), span=c.get("span"))
        aj.append(d)
        acts.append("{| ad_kind := %s; ad_tp := %s; ad_cond := %s; ad_count := %s; ad_period := %s; ad_log := %s; ad_watches := %s; "
                    "ad_frame := %s; ad_stack := %s; ad_nmetrics := %s; ad_span := %s |}" % (
                        KIND[d["kind"]], L.s(d["tp"]), opt_s(d["cond"]), L.s(d["count"]), L.s(d["period"]), opt_s(d["log"]),
                        L.lst(L.s(w) for w in d["watches"]), opt_s(d["frame"]), opt_s(d["stack"]), L.nat(d["nmetrics"]), opt_s(d["span"])))
    return "(%s, %s)" % (ll, L.lst(acts)), (lj, aj)


def oracle(ctx, tp, desc, j):
    """From the documentation, independent of the model."""
    a = tp["args"]
    stage = a.get("stage") or ("method_start" if ("method_name" in a or a.get("span") == "method") else "line_start")
    known = stage in STAGES[1:7]
    if desc is None:
        if known:
            ctx.fail("tracepoint with arguments %r was not interpreted" % (a,), j, tag="not-interpreted")
        return
    if not known:
        ctx.fail("tracepoint with unknown stage %r was interpreted as %r" % (stage, desc[0]), j, tag="unknown-stage-interpreted")
        return
    (lj, aj) = desc
    want_loc = ("line", tp["path"], tp["line"]) if stage.startswith("line") else ("func", tp["path"], a.get("method_name"))
    if lj != want_loc:
        ctx.fail("placed at %r, the arguments %r ask for %r" % (lj, a, want_loc), j, tag="placement")
    kinds = [d["kind"] for d in aj]
    collect = a.get("snapshot") != "no_collect"
    want = (["Snapshot"] if collect else []) + (["Log"] if ("log_msg" in a and not collect) else []) + \
           (["Metric"] if tp["nmetrics"] else []) + (["Span"] if "span" in a else [])
    if sorted(kinds) != sorted(want):
        ctx.fail("actions %r for arguments %r, documented: %r" % (kinds, a, want), j, tag="actions")
    for d in aj:
        if d["tp"] != tp["id"] or d["cond"] != a.get("condition") or d["count"] != a.get("fire_count", "1") or \
                d["period"] != a.get("fire_period", "1000"):
            ctx.fail("action %s does not carry the tracepoint's own id/condition/limits: %r vs arguments %r" % (d["kind"], d, a), j,
                     tag="own-settings")
        if d["kind"] == "Snapshot" and (d["watches"] != tp["watches"] or d["log"] != a.get("log_msg")):
            ctx.fail("snapshot action carries watches %r / log %r, configured %r / %r" % (d["watches"], d["log"], tp["watches"],
                                                                                        a.get("log_msg")), j, tag="own-settings")
        if d["kind"] == "Metric" and d["nmetrics"] != tp["nmetrics"]:
            ctx.fail("metric action carries %d of %d definitions" % (d["nmetrics"], tp["nmetrics"]), j, tag="metrics")


def run(ctx):
    import logging
    from ..lib.quiet import quiet_logging
    quiet_logging()
    from deep.api.tracepoint.trigger import build_trigger
    from deep.api.tracepoint.tracepoint_config import MetricDefinition
    from deep.config.tracepoint_config import TracepointConfigService
    from deep.grpc import convert_response
    from deepproto.proto.tracepoint.v1.tracepoint_pb2 import TracePointConfig, Metric
    ctx.rule = ("EXHAUSTIVE over stage (absent, 6 valid, unknown) x method_name (absent/present) x span (absent, line, method, "
                "other) x snapshot (absent, collect, no_collect, other) x log_msg (absent/present) x metrics (0/2) = 1024 rows, "
                "with condition / fire_count / fire_period / frame_type / stack_type / an unknown key / 0-3 watches (in and out of alphabetical order, one repeated) drawn per "
                "row, through the real build_trigger; response lists of 1-6 such tracepoints (shared locations, unknown "
                "stages) through convert_response; registrations through add_custom. Non-trivial: an interpretable row.")
    ctx.assumptions = [
        "argument values are text (the wire type of tracepoint args)",
        "a method tracepoint without method_name is a nameless location (it never matches; the statement speaks of the named method)",
    ]
    ctx.prove()
    rng = ctx.rng
    lits, cj = [], []
    rows = list(itertools.product(STAGES, [False, True], SPANS, SNAPS, [False, True], [0, 2]))
    reps = 3 if ctx.thorough else 1
    all_tps = []
    for rep in range(reps):
        for (stage, mname, span, snap, log, nm) in rows:
            tp = dict(id="tp-%d" % len(all_tps), path=rng.choice(["a.py", "b.py"]), line=rng.choice([3, 7]),
                      args=make_args(rng, stage, mname, span, snap, log), watches=rng.choice([[], ["a"], ["a", "b.c"], ["b.c", "a"], ["t", "t", "c"]]), nmetrics=nm)
            all_tps.append(tp)
            metrics = [MetricDefinition("m%d" % k, "COUNTER") for k in range(nm)]
            j = dict(tp)
            try:
                trig = build_trigger(tp["id"], tp["path"], tp["line"], dict(tp["args"]), list(tp["watches"]), metrics)
            except BaseException as e:
                ctx.fail("build_trigger raised %r for %r" % (e, tp["args"]), j, tag="build-raised")
                continue
            ctx.case(dict(args=tp["args"], nmetrics=nm, watches=tp["watches"]), nontrivial=trig is not None,
                     bucket="stage=%s" % stage)
            if trig is None:
                oracle(ctx, tp, None, j)
                lits.append("{| tb_tp := %s; tb_obs := None |}" % tp_lit(tp))
            else:
                lit, desc = describe_trigger(trig)
                oracle(ctx, tp, desc, j)
                lits.append("{| tb_tp := %s; tb_obs := Some %s |}" % (tp_lit(tp), lit))
            cj.append(j)
    ctx.notes["exhaustive"] = True
    ctx.notes["table_rows"] = len(rows)
    ctx.correspond("table", IMPORTS, "table_case", "check_table_case", lits, cj, shard=128)

    # ---- response lists
    rlits, rcj = [], []
    prev_resp_tps = None
    for k in range(600 if ctx.thorough else 120):
        resp_tps = []
        for i in range(rng.choice([1, 2, 3, 4, 6])):
            base = rng.choice(all_tps)
            tp = dict(base, id="r%d-%d" % (k, i), path=rng.choice(["a.py", "b.py"]), line=rng.choice([3, 7]))
            if rng.random() < 0.15:
                tp["args"] = dict(tp["args"], stage="no_such_stage")
            resp_tps.append(tp)
        def to_proto(tps):
            # metric definitions may share a NAME (they differ in type): each is still one definition
            return [TracePointConfig(ID=tp["id"], path=tp["path"], line_number=tp["line"], args=tp["args"], watches=tp["watches"],
                                     metrics=[Metric(name=METRIC_NAMES[(q // 2 + len(tp["id"])) % len(METRIC_NAMES)], type=q % 4)
                                              for q in range(tp["nmetrics"])]) for tp in tps]
        resp = to_proto(resp_tps)
        if k % 2 == 1 and prev_resp_tps:
            # a FOLLOWING response of the same service: some tracepoints of the previous one unchanged (same id, same content),
            # some removed, some edited - each response is interpreted on its own
            keep = [tp for tp in prev_resp_tps if rng.random() < 0.6]
            edited = [dict(tp, args=dict(tp["args"], log_msg="edited")) if rng.random() < 0.3 else tp for tp in keep]
            resp_tps = edited + resp_tps[:rng.choice([0, 1])]
            resp = to_proto(resp_tps)
        prev_resp_tps = resp_tps
        j = dict(response=resp_tps, follows_a_response_with_the_same_ids=(k % 2 == 1))
        ctx.case(dict(response=[(t["path"], t["line"], t["args"]) for t in resp_tps]),
                 nontrivial=len(resp_tps) > 1, bucket="response n=%d" % len(resp_tps))
        try:
            trigs = convert_response(resp)
        except BaseException as e:
            ctx.fail("convert_response raised %r: the whole response is lost" % (e,), j, tag="response-lost")
            continue
        # oracle: every interpretable tracepoint is installed with all its actions, the others not
        inst, nmet = {}, {}
        for t in trigs:
            _, (lj, aj) = describe_trigger(t)
            for d in aj:
                inst.setdefault(d["tp"], []).append((lj, d["kind"]))
                if d["kind"] == "Metric":
                    nmet[d["tp"]] = nmet.get(d["tp"], 0) + d["nmetrics"]
        for tp in resp_tps:
            a = tp["args"]
            stage = a.get("stage") or ("method_start" if ("method_name" in a or a.get("span") == "method") else "line_start")
            if stage not in STAGES[1:7]:
                if tp["id"] in inst:
                    ctx.fail("uninterpretable tracepoint %s was installed" % tp["id"], j, tag="bad-installed")
                continue
            collect = a.get("snapshot") != "no_collect"
            want = (["Snapshot"] if collect else []) + (["Log"] if ("log_msg" in a and not collect) else []) + \
                   (["Metric"] if tp["nmetrics"] else []) + (["Span"] if "span" in a else [])
            got = sorted(kd for _l, kd in inst.get(tp["id"], []))
            if got != sorted(want):
                ctx.fail("tracepoint %s of a %d-tracepoint response has actions %r installed, its arguments ask for %r" % (
                    tp["id"], len(resp_tps), got, want), j, tag="response-actions")
            if tp["nmetrics"] and nmet.get(tp["id"], 0) != tp["nmetrics"]:
                ctx.fail("tracepoint %s defines %d metrics (some share a name and differ in type), its metric action holds %d" % (
                    tp["id"], tp["nmetrics"], nmet.get(tp["id"], 0)), j, tag="response-metrics")
            wl = ("line", tp["path"], tp["line"]) if stage.startswith("line") else ("func", tp["path"], a.get("method_name"))
            if any(l != wl for l, _k in inst.get(tp["id"], [])):
                ctx.fail("tracepoint %s installed at %r, configured %r" % (tp["id"], inst[tp["id"]], wl), j, tag="response-placement")
        rlits.append("{| rs_resp := %s; rs_obs := %s |}" % (L.lst(tp_lit(t) for t in resp_tps),
                                                            L.lst(describe_trigger(t)[0] for t in trigs)))
        rcj.append(j)
    ctx.correspond("response", IMPORTS, "resp_case", "check_resp_case", rlits, rcj, shard=60)

    # ---- registration in code: an uninterpretable tracepoint is refused and leaves nothing behind
    svc = TracepointConfigService()
    ok_before = len(svc._custom)
    try:
        svc.add_custom("a.py", 3, {"stage": "no_such_stage"}, [], [])
        ctx.fail("registering a tracepoint with an unknown stage was accepted silently", dict(stage="no_such_stage"), tag="register-bad")
    except ValueError:
        pass
    except BaseException as e:
        ctx.fail("registering a tracepoint with an unknown stage raised %r" % (e,), dict(stage="no_such_stage"), tag="register-bad")
    if len(svc._custom) != ok_before or any(c is None for c in svc._custom):
        ctx.fail("a refused registration left an entry in the custom list: %r" % (svc._custom,), dict(stage="no_such_stage"),
                 tag="register-residue")
    ctx.case(dict(register="unknown stage"), bucket="register")
    handler_cases(ctx, 200 if ctx.thorough else 60)
    wire_cases(ctx)


# metric names as services send them: dotted, dashed, with a leading digit, empty - whatever a processor later makes of the name, a
# tracepoint with such a metric is interpreted like any other (one metric action; the rest of the response is installed)
METRIC_NAMES = ["m0", "m1", "orders.processed", "http-requests", "9lives", "", "m2", "Über.zähler"]


def handler_cases(ctx, n):
    """What was configured is what acts: service tracepoints (merged per location by convert_response) and tracepoints registered
    in code (each its own trigger), several of them on ONE line, each with its own fire_count, driven through the real handler."""
    from deep.config.tracepoint_config import TracepointConfigService
    from deep.grpc import convert_response
    from deepproto.proto.tracepoint.v1.tracepoint_pb2 import TracePointConfig
    rng = ctx.rng
    for _ in range(n):
        world = e2.World(logger=True, spans=0, metrics=0)
        clock = e2.Clock().install()
        try:
            counts = {}
            resp = []
            for i in range(rng.choice([1, 2, 3])):
                fc = rng.choice(["-1", "1", "2", None, "3"])
                args = {"log_msg": "m", "snapshot": "no_collect", "fire_period": "0"}
                if fc is not None:
                    args["fire_count"] = fc
                resp.append(TracePointConfig(ID="svc%d" % i, path="m.py", line_number=7, args=args))
                counts["svc%d" % i] = fc
            svc = TracepointConfigService()
            # half of the cases install the way the agent does: the response goes to the service, registrations follow (some before
            # the response), every step is delivered to the handler by the service's own listener path, one task at a time
            through_service = rng.random() < 0.5
            tasks = e5.CtlTasks()
            if through_service:
                from deep.processor.trigger_handler import TracepointHandlerUpdateListener
                svc.set_task_handler(tasks)
                svc.add_listener(TracepointHandlerUpdateListener(world.handler))
            handles = []
            n_custom = rng.choice([0, 1, 2])
            before = rng.randrange(n_custom + 1)
            no_response = through_service and n_custom > 0 and rng.random() < 0.35
            if no_response:
                for k_ in [k_ for k_ in counts if k_.startswith("svc")]:
                    del counts[k_]
                resp = []
            for i in range(n_custom):
                if through_service and i == before and not no_response:
                    svc.update_new_config(1, "h1", convert_response(resp))
                    tasks.flush()
                fc = rng.choice(["-1", "2", None])
                args = {"log_msg": "m", "snapshot": "no_collect", "fire_period": "0"}
                if fc is not None:
                    args["fire_count"] = fc
                handles.append(svc.add_custom("m.py", 7, args, [], []))
                counts[handles[-1]] = fc
                tasks.flush()
            if through_service and no_response:
                pass            # the service has not answered yet: what was registered in code acts all the same
            elif through_service:
                if before == n_custom:
                    svc.update_new_config(1, "h1", convert_response(resp))
                    tasks.flush()
                if rng.random() < 0.5:
                    svc.update_no_change(2)
                    tasks.flush()
            else:
                world.install(convert_response(resp) + list(svc._custom))
            hits = rng.choice([1, 3, 5])
            for h in range(hits):
                clock.now = e2.BASE_NS + (h + 1) * 5_000_000
                world.event(e2.mk_frame("/app/m.py", "g", 7, {}), "line")
            got = {}
            for w, tp, _i, _p in world.log:
                if w == "log":
                    got[tp] = got.get(tp, 0) + 1
            want = {tp: (hits if fc == "-1" else min(hits, int(fc) if fc is not None else 1)) for tp, fc in counts.items()}
            j = dict(on_one_line={("service " + k if k.startswith("svc") else "registered"): v for k, v in counts.items()}, hits=hits,
                     installed=("through the service's listener, before any response of the service" if no_response else
                                "through the service and its listener") if through_service else "directly")
            ctx.case(j, nontrivial=len(counts) > 1, bucket="handler")
            if got != want:
                ctx.fail("%d hits of a line carrying %d service tracepoint(s) and %d registered one(s) with fire_count %r: acted %r, "
                         "configured %r" % (hits, len(resp), len(handles), list(counts.values()), sorted(got.items()), sorted(want.items())),
                         j, kind="history", tag="configured-does-not-act")
        finally:
            clock.restore()
            world.clear_pending()


def wire_cases(ctx):
    """A snapshot action results in a snapshot that REACHES the wire: line- and method-placed tracepoints (a method tracepoint has no
    line of its own), with and without a log message, through build_trigger, the real handler and the real conversion."""
    from deep.api.tracepoint.trigger import build_trigger
    from deep.push import convert_snapshot
    for placement in ("line", "method", "method-with-line-0"):
        for extra in ({}, {"log_msg": "m {a}"}, {"span": "line"}):
            world = e2.World(logger=True, spans=1, metrics=0)
            args = dict({"fire_count": "-1", "fire_period": "0"}, **extra)
            line = 7
            if placement != "line":
                args["method_name"] = "g"
                line = 0 if placement == "method-with-line-0" else 7
            trig = build_trigger("tp-wire", "m.py", line, args, ["a"], [])
            j = dict(placement=placement, args=args)
            ctx.case(j, nontrivial=True, bucket="wire")
            if trig is None:
                ctx.fail("build_trigger could not interpret %r" % (args,), j, kind="history", tag="wire-uninterpreted")
                continue
            world.install([trig])
            fr = e2.mk_frame("/app/m.py", "g", 7, {"a": 1})
            world.event(fr, "call" if placement != "line" else "line")
            fr.f_lineno = 8
            world.event(fr, "line")
            world.event(fr, "return", None)
            world.clear_pending()
            snaps = world.push.snapshots
            if len(snaps) != 1:
                ctx.fail("%d snapshots for one hit of a %s tracepoint with %r" % (len(snaps), placement, args), j, kind="history", tag="wire-snapshot-count")
                continue
            try:
                msg = convert_snapshot(snaps[0])
            except BaseException as e:
                msg = e
            if msg is None or isinstance(msg, BaseException) or msg.tracepoint.ID != "tp-wire":
                ctx.fail("the snapshot of a %s tracepoint cannot be put on the wire (conversion gave %r): the snapshot its arguments ask for "
                         "never reaches the service" % (placement, msg if not hasattr(msg, "tracepoint") else msg.tracepoint.ID), j,
                         kind="history", tag="wire-unconvertible")


def replay(ctx, data):
    ctx.fail("replay re-runs the seeded generation: VERIF_SEED=%s check.py C11" % data.get("seed"))
