"""C09 -- delivery runs off the application thread, exactly once, and flush really drains (engine E5).

Tie: correspondence.  The real TaskHandler (ThreadPoolExecutor, two workers) is driven with gated tasks:
the harness decides when each running task finishes (succeeding or failing), when flush begins (on its
own thread) and submits before / during / after flush; the done flags and the outcome of flush after
every operation are compared inside Coq with Tasks.trace.  The real PushService is driven with a
recording stub (sending thread, send count, conversion failures, send failures)."""
import sys
import threading
import time

from ..lib import coqlit as L

IMPORTS = ["Base", "Tasks"]


def wait_until(pred, timeout=3.0):
    end = time.time() + timeout
    while time.time() < end:
        if pred():
            return True
        time.sleep(0.002)
    return pred()


class TaskAbort(BaseException):
    pass


def pool_refuses(ctx):
    """The executor itself refuses work while the handler is still open (what happens during interpreter
    finalisation): the submission must be refused visibly, never run on the submitting thread."""
    from deep.task import TaskHandler
    for how in ("submit_task", "push_snapshot"):
        th = TaskHandler()
        th._pool.shutdown(wait=True)
        ran_on = []
        outcome = "accepted"
        try:
            if how == "submit_task":
                th.submit_task(lambda: ran_on.append(threading.get_ident()))
            else:
                import deep.push.push_service as ps
                from deep.push.push_service import PushService
                svc = PushService(type("G", (), {"channel": None, "metadata": lambda self: []})(), th)
                svc._push_task = lambda snapshot: ran_on.append(threading.get_ident())
                svc.push_snapshot(type("S", (), {"id": 1})())
        except BaseException as e:
            outcome = "refused: %s" % type(e).__name__
        j = dict(executor="shut down while the handler is open", through=how, outcome=outcome)
        ctx.case(j, bucket="pool-refuses")
        if ran_on and ran_on[0] == threading.get_ident():
            ctx.fail("the executor refused the task and it was run on the submitting (application) thread instead", j,
                     tag="on-app-thread")
        elif outcome == "accepted" and not ran_on:
            ctx.fail("the executor refused the task and the submission was dropped silently", j, tag="dropped-silently")


def one_history(ctx, rng):
    from deep.task import TaskHandler, IllegalStateException
    th = TaskHandler()
    gates, fails, done, ran_on, runs = [], [], [], [], []
    app_thread = threading.get_ident()
    flusher = {"thread": None, "outcome": None}
    ops, obs = [], []
    refused = 0
    problems = []

    def task(i):
        runs[i] += 1
        ran_on[i] = threading.get_ident()
        gates[i].wait(20)
        done[i] = True
        if fails[i] == "exc":
            raise ValueError("task %d fails" % i)
        if fails[i] == "base":
            raise TaskAbort("task %d aborts" % i)          # a BaseException that is not an Exception

    def undone():
        return [i for i in range(len(done)) if not done[i]]

    def flush_body():
        try:
            th.flush()
            flusher["outcome"] = True
        except BaseException as e:
            flusher["outcome"] = False
            flusher["error"] = repr(e)

    def observe():
        fo = flusher["outcome"]
        obs.append("(%s, %s)" % (L.lst(L.b(d) for d in done), L.opt(None if fo is None else L.b(fo))))

    n = rng.choice([2, 4, 7, 12])
    began = False
    for _ in range(n):
        r = rng.random()
        und = undone()
        running = und[:2]
        if r < 0.4 or not gates:
            f = rng.choice([None, None, None, None, "exc", "exc", "base"])
            try:
                i = len(gates)
                gates.append(threading.Event()); fails.append(f); done.append(False); ran_on.append(None); runs.append(0)
                th.submit_task(task, i)
                wait_until(lambda: i not in undone()[:2] or runs[i] == 1)
            except IllegalStateException:
                gates.pop(); fails.pop(); done.pop(); ran_on.pop(); runs.pop()
                refused += 1
                if not began:
                    problems.append(("refused-early", "a submission before flush was refused"))
            else:
                if began:
                    problems.append(("accepted-after-close", "a submission after flush began was accepted"))
            ops.append("(Submit %s)" % L.b(f is not None))
        elif r < 0.8 and running:
            i = rng.choice(running)
            gates[i].set()
            wait_until(lambda: done[i])
            time.sleep(0.01)        # let the done-callback and the next task's start happen
            nxt = undone()[:2]
            wait_until(lambda: all(runs[k] == 1 for k in nxt))
            ops.append("(Finish %s)" % L.nat(i))
        elif not began:
            began = True
            t = threading.Thread(target=flush_body, daemon=True)
            flusher["thread"] = t
            t.start()
            ops.append("FlushBegin")
        else:
            continue
        # let the flusher advance as far as it can
        if began:
            if not undone():
                flusher["thread"].join(5)
            else:
                flusher["thread"].join(0.03)
            if flusher["outcome"] is not None and undone():
                problems.append(("flush-early", "flush returned while tasks %r were still unfinished" % undone()))
            if flusher["outcome"] is False:
                problems.append(("flush-raised", "flush raised %s" % flusher.get("error")))
        observe()
    # finish everything so no thread is left behind
    for g in gates:
        g.set()
    if flusher["thread"] is not None:
        flusher["thread"].join(5)
    th._pool.shutdown(wait=True)
    for i in range(len(runs)):
        if runs[i] != 1:
            problems.append(("not-once", "task %d was executed %d times" % (i, runs[i])))
        if ran_on[i] == app_thread:
            problems.append(("on-app-thread", "task %d ran on the submitting thread" % i))
    lit = "{| tk_ops := %s; tk_obs := %s; tk_obs_refused := %s |}" % (L.lst(ops), L.lst(obs), L.nat(refused))
    return lit, ops, problems


def push_service(ctx, rng, n):
    """PushService: converted and sent exactly once, on a worker; failures contained."""
    import deep.push.push_service as ps
    import deep.push as push_mod
    from deep.task import TaskHandler
    from deep.push.push_service import PushService
    sent = []

    class Stub:
        def __init__(self, channel):
            pass

        def send(self, converted, metadata=None):
            sent.append((converted, threading.get_ident(), metadata))
            if converted.get("fail_send"):
                raise RuntimeError("send failed")
    saved_stub, saved_conv = ps.SnapshotServiceStub, push_mod.convert_snapshot
    ps.SnapshotServiceStub = Stub
    converted_on = []

    def fake_convert(s):
        converted_on.append(threading.get_ident())          # WHERE the conversion runs is part of the statement
        return None if s.kind == "unconvertible" else dict(id=s.id, fail_send=s.kind == "fail_send")
    push_mod.convert_snapshot = fake_convert
    try:
        for k in range(n):
            th = TaskHandler()
            grpc = type("G", (), {"channel": None, "metadata": lambda self: [("authorization", "tok")]})()
            svc = PushService(grpc, th)
            kinds = [rng.choice(["ok", "ok", "ok", "unconvertible", "fail_send"]) for _ in range(rng.choice([1, 3, 8, 20]))]
            del sent[:]
            del converted_on[:]
            app = threading.get_ident()
            for i, kind in enumerate(kinds):
                svc.push_snapshot(type("S", (), {"id": i, "kind": kind})())
            outcome = None
            try:
                th.flush()
            except BaseException as e:
                outcome = e
            th._pool.shutdown(wait=True)
            j = dict(snapshots=kinds)
            ctx.case(j, nontrivial=len(set(kinds)) > 1, bucket="push n=%d" % len(kinds))
            if outcome is not None:
                ctx.fail("flush raised %r after deliveries %r" % (outcome, kinds), j, tag="flush-raised")
            ids = [c["id"] for c, _t, _m in sent]
            want = [i for i, kd in enumerate(kinds) if kd != "unconvertible"]
            if sorted(ids) != want:
                ctx.fail("snapshots sent: %r, handed over (convertible): %r" % (sorted(ids), want), j, tag="delivery-count")
            if any(t == app for _c, t, _m in sent):
                ctx.fail("a snapshot was sent on the application thread", j, tag="on-app-thread")
            if any(t == app for t in converted_on):
                ctx.fail("%d of %d snapshots were converted on the application thread (the thread that hit the tracepoint), not on a worker" % (
                    sum(1 for t in converted_on if t == app), len(converted_on)), j, tag="converted-on-app-thread")
            if len(converted_on) != len(kinds):
                ctx.fail("%d snapshots handed over, %d conversions" % (len(kinds), len(converted_on)), j, tag="conversion-count")
            if any(m != [("authorization", "tok")] for _c, _t, m in sent):
                ctx.fail("a send request did not carry the auth metadata", j, tag="auth")
            try:
                svc.push_snapshot(type("S", (), {"id": 99, "kind": "ok"})())
                ctx.fail("a snapshot handed over after flush was accepted silently", j, tag="accepted-after-close")
            except BaseException:
                pass
    finally:
        ps.SnapshotServiceStub, push_mod.convert_snapshot = saved_stub, saved_conv


def two_flushes(ctx):
    """flush really drains - also the SECOND of two flushes (shutdown from an exit hook while the main thread shuts down too):
    a flush that starts while another is still waiting returns only when every accepted task has finished."""
    from deep.task import TaskHandler
    for round_ in range(2):
        th = TaskHandler()
        gate = threading.Event()
        done = []

        def work(i):
            gate.wait(20)
            done.append(i)
        for i in range(3):
            th.submit_task(work, i)
        first = threading.Thread(target=th.flush, daemon=True)
        first.start()
        wait_until(lambda: not th._open, 3.0)
        second_out = {}

        def second_body():
            try:
                th.flush()
                second_out["returned_with_done"] = sorted(done)
            except BaseException as e:
                second_out["raised"] = repr(e)
        second = threading.Thread(target=second_body, daemon=True)
        second.start()
        second.join(0.3)
        early = not second.is_alive()
        gate.set()
        first.join(20)
        second.join(20)
        j = dict(schedule="3 accepted tasks held back; flush on thread 1; flush on thread 2 while thread 1 waits; then the tasks finish",
                 second_flush=second_out, second_returned_while_tasks_were_held=early)
        ctx.case(j, nontrivial=True, bucket="two-flushes")
        if "raised" in second_out:
            ctx.fail("the second flush raised %s" % second_out["raised"], j, kind="schedule", tag="flush-raised")
        elif early or second_out.get("returned_with_done") != [0, 1, 2]:
            ctx.fail("a second flush, begun while the first was still waiting, returned with the tasks %r finished of [0, 1, 2] accepted "
                     "(it does not drain)" % (second_out.get("returned_with_done"),), j, kind="schedule", tag="flush-early")


def two_handlers(ctx):
    """Two task handlers in one process (an agent restarted while the old instance is still delivering, two Deep objects): what
    one accepted is its own - the other's completions do not make its flush return early, and nothing is run twice or dropped."""
    from deep.task import TaskHandler
    for order in ("old finishes first", "new flushes first"):
        a, b = TaskHandler(), TaskHandler()
        gate_a, gate_b = threading.Event(), threading.Event()
        ran = []

        def work(who, gate):
            gate.wait(20)
            ran.append(who)
        a.submit_task(work, "a1", gate_a)
        b.submit_task(work, "b1", gate_b)
        if order == "old finishes first":
            gate_a.set()
            wait_until(lambda: "a1" in ran, 3.0)
            time.sleep(0.05)                  # the completion callback of a1 has run
        out = {}

        def flush_b():
            b.flush()
            out["b_flush_returned_with"] = sorted(ran)
        fb = threading.Thread(target=flush_b, daemon=True)
        fb.start()
        fb.join(0.4)
        early = not fb.is_alive()
        gate_b.set()
        gate_a.set()
        fb.join(20)
        a.flush()
        j = dict(schedule="handler A accepts a1, handler B accepts b1 (both held back); %s; B.flush() on its own thread; then b1 is let go"
                 % ("a1 is let go and completes" if order == "old finishes first" else "nothing completes yet"),
                 b_flush=out, b_flush_returned_while_b1_was_held=early, ran=sorted(ran))
        ctx.case(j, nontrivial=True, bucket="two-handlers")
        if early or "b1" not in out.get("b_flush_returned_with", []):
            ctx.fail("B.flush() returned with %r finished while b1, which B had accepted, was still held back: the two handlers share "
                     "their bookkeeping" % (out.get("b_flush_returned_with"),), j, kind="schedule", tag="flush-early-two-handlers")
        if sorted(ran) != ["a1", "b1"]:
            ctx.fail("after both flushes the tasks run are %r; accepted were a1 and b1, each once" % (sorted(ran),), j, kind="schedule",
                     tag="two-handlers-exactly-once")
        if a._pending or b._pending:
            ctx.fail("after both flushes %d / %d tasks are still listed as pending" % (len(a._pending), len(b._pending)), j, kind="schedule",
                     tag="two-handlers-pending")


def through_the_agent(ctx):
    """The same through the agent's own wiring: snapshots handed to `Deep.push` are what `Deep.shutdown()` drains, and what it
    refuses afterwards (whatever task handler the push service was given, it must be one that shutdown waits for)."""
    import deep.api.deep as api
    import deep.push.push_service as ps
    import deep.push as push_mod
    from deep.config.config_service import ConfigService
    from deep.config.tracepoint_config import TracepointConfigService
    sent = []

    class Stub:
        def __init__(self, channel):
            pass

        def send(self, converted, metadata=None):
            time.sleep(0.05)
            sent.append(converted["id"])
    saved = ps.SnapshotServiceStub, push_mod.convert_snapshot, api.load_plugins
    ps.SnapshotServiceStub = Stub
    push_mod.convert_snapshot = lambda s_: dict(id=s_.id)
    api.load_plugins = lambda config, custom=None: []
    old_sys, old_thr = sys.gettrace(), threading.gettrace()
    try:
        for n in (1, 5):
            cfg = ConfigService({"APP_ROOT": "/app", "NO_TRACE": True, "SERVICE_URL": "localhost:1"}, tracepoints=TracepointConfigService())
            d = api.Deep(cfg)
            d.grpc.start = lambda: None
            d.grpc.metadata = lambda: []
            d.poll = type("Poll", (), {"start": lambda self: None, "shutdown": lambda self: None})()
            d.start()
            del sent[:]
            for i in range(n):
                d.push.push_snapshot(type("S", (), {"id": i})())
            d.shutdown()
            at_return = sorted(sent)
            late = None
            try:
                d.push.push_snapshot(type("S", (), {"id": 99})())
                late = "accepted"
            except BaseException as e:
                late = type(e).__name__
            # the other kind of work the closed task handler is given: a configuration update (a tracepoint registered in code
            # after shutdown) - refused visibly too, not accepted and then never delivered
            try:
                d.register_tracepoint("late.py", 10, {}, [], [])
                late_cfg = "accepted"
            except BaseException as e:
                late_cfg = type(e).__name__
            time.sleep(0.2)
            j = dict(handed_over=n, sent_when_shutdown_returned=at_return, hand_over_after_shutdown=late, registration_after_shutdown=late_cfg)
            ctx.case(j, nontrivial=True, bucket="through-the-agent")
            if at_return != list(range(n)):
                ctx.fail("Deep.shutdown() returned with %r of %d accepted snapshots sent (the push service's tasks are not the ones "
                         "shutdown waits for)" % (at_return, n), j, kind="schedule", tag="agent-shutdown-does-not-drain")
            if late == "accepted":
                ctx.fail("a snapshot handed to Deep.push after shutdown was accepted silently", j, kind="schedule", tag="agent-accepts-after-shutdown")
            if late_cfg == "accepted":
                ctx.fail("a tracepoint registered after shutdown was accepted: its update is work submitted after closing, and it was "
                         "dropped silently (the handler never receives it)", j, kind="schedule", tag="agent-drops-update-after-shutdown")
    finally:
        ps.SnapshotServiceStub, push_mod.convert_snapshot, api.load_plugins = saved
        sys.settrace(old_sys)
        threading.settrace(old_thr)


def through_the_handler(ctx):
    """A tracepoint hit on the application thread, through the real handler, the real PushService and TaskHandler: whatever reads
    the snapshot for the wire (observed through the resource the conversion has to read) runs on a worker, never on the thread
    that hit the tracepoint, and once per snapshot."""
    import deep.push.push_service as ps
    from deep.api.resource import Resource
    from deep.api.tracepoint.trigger import LocationAction, Trigger, LineLocation, Location
    from deep.processor.trigger_handler import TriggerHandler
    from deep.push.push_service import PushService
    from deep.task import TaskHandler
    from ..lib import e2
    reads, sent = [], []

    real_attributes = Resource.attributes
    handed = []

    class RecordingPush(PushService):
        def push_snapshot(self, snapshot):
            handed.append(snapshot)
            return PushService.push_snapshot(self, snapshot)

    class Stub:
        def __init__(self, channel):
            pass

        def send(self, converted, metadata=None):
            sent.append(threading.get_ident())
    saved = ps.SnapshotServiceStub
    ps.SnapshotServiceStub = Stub
    # every read of a resource's attributes is recorded with the resource it was read from and the reading thread: the
    # SNAPSHOT's own resource (a copy made when the snapshot is created) is read by the conversion to the wire only
    Resource.attributes = property(lambda self_: (reads.append((id(self_), threading.get_ident())), real_attributes.fget(self_))[1])
    try:
        for stage in (None, "line_capture"):
            world = e2.World(logger=False, spans=0, metrics=0)
            th = TaskHandler()
            grpc = type("G", (), {"channel": None, "metadata": lambda self: []})()
            world.handler = TriggerHandler(world.cfg, RecordingPush(grpc, th))
            del handed[:]
            conf = {"fire_count": "-1", "fire_period": "0", "frame_type": "single_frame", "watches": []}
            if stage:
                conf["stage"] = stage
            world.install([Trigger(LineLocation("m.py", 7, Location.Position.START),
                                   [LocationAction("tp-c09", None, conf, LocationAction.ActionType.Snapshot)])])
            del reads[:], sent[:]
            app = threading.get_ident()
            fr = e2.mk_frame("/app/m.py", "f", 7, {"a": 1, "b": [1, 2]})
            _, exc = world.event(fr, "line")
            reads_at_hit = list(reads)
            fr.f_lineno = 8
            world.event(fr, "line")
            th.flush()
            th._pool.shutdown(wait=True)
            world.clear_pending()
            own = [t for i_, t in reads if handed and i_ == id(handed[0].resource)]
            at_hit = [t for i_, t in reads_at_hit if handed and i_ == id(handed[0].resource)]
            j = dict(tracepoint="snapshot%s" % (" (" + stage + ")" if stage else ""), sends=len(sent),
                     wire_reads_on_application_thread=sum(1 for t in own if t == app), wire_reads=len(own))
            ctx.case(j, nontrivial=True, bucket="through-the-handler")
            if exc is not None or len(sent) != 1:
                ctx.fail("one hit of a snapshot tracepoint produced %d sends (handler raised %r)" % (len(sent), exc), j, kind="schedule",
                         tag="handler-delivery-count")
                continue
            if any(t == app for t in own) or any(t == app for t in sent):
                ctx.fail("the snapshot was read for the wire on the application thread (%d of %d reads of its resource; %d of them "
                         "before the hit returned): conversion belongs to the worker" % (sum(1 for t in own if t == app), len(own), len(at_hit)),
                         j, kind="schedule", tag="converted-on-app-thread-handler")
            elif not own:
                ctx.skip("the conversion did not read the snapshot's resource: where it runs cannot be observed this way")
    finally:
        ps.SnapshotServiceStub = saved
        Resource.attributes = real_attributes


def run(ctx):
    import logging
    from ..lib.quiet import quiet_logging
    quiet_logging()
    ctx.rule = ("histories of 2-12 operations on the real TaskHandler: submit a gated task (35% failing), finish one of the "
                "running tasks, begin flush (own thread), submissions during / after flush; plus PushService batches of 1-20 "
                "snapshots (convertible, unconvertible, failing to send) followed by flush and a late hand-over. "
                "Non-trivial: a flush with unfinished tasks, or a mixed batch.")
    ctx.assumptions = [
        "ThreadPoolExecutor: FIFO queue, two workers, each task run once, its exception stored in its future (environment model)",
        "'slow' tasks finish within flush's per-task timeout (10 s); the harness lets blocked threads settle for 30 ms",
    ]
    ctx.prove()
    rng = ctx.rng
    lits, cj = [], []
    for i in range(400 if ctx.thorough else 70):
        lit, ops, problems = one_history(ctx, rng)
        j = dict(ops=ops)
        ctx.case(j, nontrivial="FlushBegin" in ops and any(o.startswith("(Finish") for o in ops[ops.index("FlushBegin"):]),
                 bucket="ops=%d" % len(ops))
        seen = set()
        for tag, what in problems:
            if tag not in seen:
                seen.add(tag)
                ctx.fail(what, j, kind="schedule", tag=tag)
        lits.append(lit)
        cj.append(j)
    ctx.correspond("taskhandler", IMPORTS, "tasks_case", "check_tasks_case", lits, cj, shard=100)
    push_service(ctx, rng, 120 if ctx.thorough else 25)
    pool_refuses(ctx)
    two_flushes(ctx)
    two_handlers(ctx)
    through_the_agent(ctx)
    through_the_handler(ctx)


def replay(ctx, data):
    ctx.fail("replay re-runs the seeded generation: VERIF_SEED=%s check.py C09" % data.get("seed"))
