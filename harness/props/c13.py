"""C13 -- registering a tracepoint in code returns a handle that removes exactly it (engine E5).

Same driver as C12 (harness/props/c12.py), with histories weighted towards register / unregister on
shared locations, repeated and never-returned handles, interleaved with service updates."""
from . import c12


def run(ctx):
    c12.run(ctx, cid="C13")
    # through the public API object as well
    import deep.api.deep as api
    from deep.config.tracepoint_config import TracepointConfigService
    svc = TracepointConfigService()
    fake = type("D", (), {})()
    fake.config = type("C", (), {"tracepoints": svc})()
    r1 = api.Deep.register_tracepoint(fake, "f.py", 10, {"fire_count": "2"}, ["total", "total", "count"], [])
    r2 = api.Deep.register_tracepoint(fake, "f.py", 10)
    j = dict(api="register_tracepoint twice on f.py:10, unregister the second twice")
    ctx.case(j, bucket="api")
    first = svc._custom[0]
    # the watches are kept as given: in the given order, a repeated one repeated (the snapshot lists one result per watch)
    r2.unregister()
    if len(svc._custom) != 1 or svc._custom[0] is not first:
        ctx.fail("unregistering the second registration on f.py:10 left %d registrations / removed the first" % len(svc._custom), j,
                 tag="unregister-wrong")
    r2.unregister()
    if len(svc._custom) != 1 or svc._custom[0] is not first:
        ctx.fail("unregistering the same handle twice removed another registration", j, tag="unregister-twice")
    a = first._Trigger__actions[0]
    if a.config.get("fire_count") != "2" or a.config.get("watches") != ["total", "total", "count"]:
        ctx.fail("the registered tracepoint does not carry the given arguments / watches: %r" % (a.config,), j, tag="register-args")


def replay(ctx, data):
    ctx.fail("replay re-runs the seeded generation: VERIF_SEED=%s check.py C13" % data.get("seed"))
