"""C03 -- actions fire at exactly the configured locations (engine E2).

Tie: correspondence.  (a) generated trigger lists (line and method locations, several triggers and
actions per location, never-reached locations, same basename in different directories) and generated
events of all four kinds through the real TriggerHandler; (b) the same through convert_response
(tracepoints of one poll response, merged by location id); (c) live generated programs, several
threads, under sys.settrace / threading.settrace with a recorder of every delivered event.  The
actions that acted at every event are compared inside Coq with Match.actions_for."""
import os
import sys
import threading

from ..lib import coqlit as L
from ..lib import e2

IMPORTS = ["Base", "Match"]
# names that are suffixes / prefixes of one another: a match is on the WHOLE file / function name
FILES = ["/app/a.py", "/app/pkg/a.py", "/app/b.py", "/lib/c.py", "/app/xa.py", "/app/a.pyx"]
CFG_FILES = ["a.py", "b.py", "c.py", "xa.py", "a.pyx", "y"]
FUNCS = ["f", "g", "run", "<module>", "runf", "ru"]
KINDS = ["call", "line", "return", "exception"]
KLIT = {"call": "KCall", "line": "KLine", "return": "KReturn", "exception": "KException"}


def loc_lit(loc):
    if loc[0] == "line":
        return "(LLine %s %s)" % (L.s(loc[1]), L.z(loc[2]))
    return "(LFunc %s %s)" % (L.s(loc[1]), L.opt(None if loc[2] is None else L.s(loc[2])))


def trig_lit(loc, ids):
    return "{| t_loc := %s; t_actions := %s |}" % (loc_lit(loc), L.lst(L.nat(i) for i in ids))


def ev_lit(kind, file, line, func):
    return "{| e_kind := %s; e_file := %s; e_line := %s; e_func := %s |}" % (
        KLIT[kind], L.s(os.path.basename(file)), L.z(line), L.s(func))


def gen_locs(rng):
    locs = []
    # a small pool per case keeps several tracepoints on one file / one line / one function frequent (merging by location)
    files = rng.sample(CFG_FILES, rng.choice([1, 2, 3]))
    # (a configured method name is the function's own name: a QUALIFIED name such as A.f is no function's name and matches nothing)
    funcs = rng.sample(FUNCS[:3] + ["never", "runf", "ru", "n", "A.f", "pkg.run", "g.g"], rng.choice([2, 3]))
    lines = rng.sample([1, 2, 3, 4, 99], rng.choice([2, 3]))
    for _ in range(rng.choice([0, 1, 2, 4, 6])):
        if rng.random() < 0.6:
            locs.append(("line", rng.choice(files + ["zz.py"]), rng.choice(lines)))
        else:
            locs.append(("func", rng.choice(files), rng.choice(funcs)))
    # several tracepoints on one location
    for _ in range(rng.choice([0, 0, 1, 2])):
        if locs:
            locs.append(rng.choice(locs))
    return locs


def effects_since(world, start):
    """tracepoint numbers that acted, in order (log lines and snapshots are emitted at context exit in action order)."""
    out = []
    for what, tp, ident, payload in world.log[start:]:
        if what in ("log", "snapshot", "span-open"):
            out.append(int(str(tp)[2:]))
    # spans are opened while the actions run, log lines and snapshots are emitted when the trigger context closes:
    # the ORDER of effects within one event is not part of the property, so it is normalised
    return sorted(out)


def oracle(ctx, locs_by_id, kind, file, line, func, acted, desc):
    base = os.path.basename(file)
    for i in acted:
        loc = locs_by_id[i]
        ok = (loc[0] == "line" and kind == "line" and loc[1] == base and loc[2] == line) or \
             (loc[0] == "func" and kind == "call" and loc[1] == base and loc[2] == func)
        if not ok:
            ctx.fail("tracepoint %d configured at %s acted at a %s event of %s:%d %s()" % (i, loc, kind, base, line, func), desc,
                     tag="acted-elsewhere")
    for i, loc in locs_by_id.items():
        due = (loc[0] == "line" and kind == "line" and loc[1] == base and loc[2] == line) or \
              (loc[0] == "func" and kind == "call" and loc[1] == base and loc[2] == func)
        if due and acted.count(i) != 1:
            ctx.fail("tracepoint %d configured at %s acted %d times when its location was reached" % (i, loc, acted.count(i)), desc,
                     tag="did-not-act" if acted.count(i) == 0 else "acted-twice")


def synthetic(ctx, n, via_response):
    from deep.api.tracepoint.trigger import LocationAction, Trigger, LineLocation, FunctionLocation, Location
    rng = ctx.rng
    lits, cj = [], []
    for _ in range(n):
        world = e2.World(logger=True, spans=1, metrics=0)
        world.clear_pending()
        locs = gen_locs(rng)
        locs_by_id, trig_lits = {}, []
        if via_response:
            from deepproto.proto.tracepoint.v1.tracepoint_pb2 import TracePointConfig
            from deep.grpc import convert_response
            resp = []
            for i, loc in enumerate(locs):
                args = {"fire_count": "-1", "fire_period": "0", "snapshot": "no_collect", "log_msg": "m%d" % i}
                if loc[0] == "func":
                    args["method_name"] = loc[2]
                resp.append(TracePointConfig(ID="tp%d" % i, path=loc[1], line_number=loc[2] if loc[0] == "line" else 1, args=args))
                locs_by_id[i] = loc
                trig_lits.append(trig_lit(locs_by_id[i], [i]))
            if rng.random() < 0.5:
                world.install(convert_response(resp))
            else:
                # the same response the way it ARRIVES: through the real LongPoll.poll (a double answers the request), the
                # configuration service and the handler's listener
                import deep.poll.poll as poll_mod
                from deep.poll.poll import LongPoll
                from deep.processor.trigger_handler import TracepointHandlerUpdateListener
                from deepproto.proto.poll.v1.poll_pb2 import PollResponse, ResponseType
                from ..lib import e5
                tasks = e5.CtlTasks()
                world.cfg.tracepoints.set_task_handler(tasks)
                world.cfg.tracepoints.add_listener(TracepointHandlerUpdateListener(world.handler))
                answer = PollResponse(ts_nanos=1, current_hash="h1", response_type=ResponseType.UPDATE, response=resp)
                saved_stub = poll_mod.PollConfigStub
                poll_mod.PollConfigStub = lambda channel: type("S", (), {"poll": staticmethod(lambda request, metadata=None: answer)})()
                try:
                    LongPoll(world.cfg, type("G", (), {"channel": None, "metadata": lambda self: []})()).poll()
                    tasks.flush()
                finally:
                    poll_mod.PollConfigStub = saved_stub
        else:
            nid = 0
            trigs = []
            for loc in locs:
                ids = []
                acts = []
                for _k in range(rng.choice([1, 1, 2, 3])):
                    kind = rng.choice(["log", "log", "snap", "span"])
                    conf = {"fire_count": "-1", "fire_period": "0"}
                    if kind == "log":
                        a = LocationAction("tp%d" % nid, None, dict(conf, log_msg="m"), LocationAction.ActionType.Log)
                    elif kind == "snap":
                        a = LocationAction("tp%d" % nid, None, dict(conf, frame_type="no_frame", watches=[]), LocationAction.ActionType.Snapshot)
                    else:
                        a = LocationAction("tp%d" % nid, None, dict(conf, span="x"), LocationAction.ActionType.Span)
                    acts.append(a)
                    ids.append(nid)
                    locs_by_id[nid] = loc
                    nid += 1
                location = LineLocation(loc[1], loc[2], Location.Position.START) if loc[0] == "line" else \
                    FunctionLocation(loc[1], loc[2], Location.Position.START)
                trigs.append(Trigger(location, acts))
                trig_lits.append(trig_lit(loc, ids))
            world.install(trigs)
        events, obs = [], []
        desc = dict(via_response=via_response, tracepoints={i: list(l) for i, l in locs_by_id.items()}, events=[])
        for _e in range(rng.choice([4, 10, 25])):
            kind, file, line, func = rng.choice(KINDS), rng.choice(FILES), rng.choice([1, 2, 3, 4, 5]), rng.choice(FUNCS)
            start = len(world.log)
            _, exc = world.event(e2.mk_frame(file, func, line, {}), kind, None)
            acted = effects_since(world, start)
            desc["events"].append([kind, file, line, func, acted])
            if exc is not None:
                ctx.fail("the handler raised %r" % (exc,), desc, tag="raised")
            oracle(ctx, locs_by_id, kind, file, line, func, acted, desc)
            events.append(ev_lit(kind, file, line, func))
            obs.append(L.lst(L.nat(i) for i in acted))
        world.clear_pending()
        ctx.case(dict(tracepoints=desc["tracepoints"], events=[e[:4] for e in desc["events"]]),
                 nontrivial=any(e[4] for e in desc["events"]), bucket="response" if via_response else "synthetic")
        lits.append("{| mc_triggers := %s; mc_merge := %s; mc_events := %s; mc_obs := %s |}" % (
            L.lst(trig_lits), L.b(via_response), L.lst(events), L.lst(obs)))
        cj.append(desc)
    ctx.correspond("response" if via_response else "placement", IMPORTS, "match_case", "check_match_case", lits, cj, shard=100)


def gated(ctx, n):
    """Event sequences with limits and conditions: matching, each action's own limiter and gate, composed."""
    from deep.api.tracepoint.trigger import LocationAction, Trigger, LineLocation, FunctionLocation, Location
    from ..lib.e2 import Clock, BASE_NS, argv, stats_of
    rng = ctx.rng
    clock = Clock().install()
    lits, cj = [], []
    try:
        for _ in range(n):
            world = e2.World(logger=True, spans=0, metrics=0)
            world.clear_pending()
            locs = gen_locs(rng) or [("line", "a.py", 2)]
            trigs, inst, actions = [], [], []
            nid = 0
            for loc in locs:
                acts = []
                for _k in range(rng.choice([1, 1, 2])):
                    count, period = rng.choice(["1", "2", "-1", "3"]), rng.choice(["0", "1", "5"])
                    cond = rng.choice([None, None, "c1", "c2"])
                    a = LocationAction("tp%d" % nid, cond, {"fire_count": count, "fire_period": period, "log_msg": "m"},
                                       LocationAction.ActionType.Log)
                    acts.append(a)
                    actions.append((nid, a))
                    inst.append("(%s, {| ha_id := %s; ha_lim := mk_lim %s %s 0 0; ha_cond := %s |})" % (
                        loc_lit(loc), L.nat(nid), argv(count), argv(period), L.opt(None if cond is None else L.s(cond))))
                    nid += 1
                location = LineLocation(loc[1], loc[2], Location.Position.START) if loc[0] == "line" else \
                    FunctionLocation(loc[1], loc[2], Location.Position.START)
                trigs.append(Trigger(location, acts))
            world.install(trigs)
            t = BASE_NS
            evs, obs, jd = [], [], []
            for _e in range(rng.choice([5, 15, 40])):
                t += rng.choice([1, 500_000, 1_000_000, 6_000_000])
                kind, file, line, func = rng.choice(["line", "line", "call", "return"]), rng.choice(FILES), rng.choice([1, 2, 3, 4]), rng.choice(FUNCS)
                c1, c2 = rng.random() < 0.6, rng.choice([True, False, "boom"])

                def boom():
                    raise KeyError(1)
                loc_vars = {"c1": c1}
                if c2 != "boom":
                    loc_vars["c2"] = c2
                clock.now = t
                start = len(world.log)
                world.event(e2.mk_frame(file, func, line, loc_vars), kind, None)
                acted = effects_since(world, start)
                env = "[(%s, EVal %s); (%s, %s)]" % (L.s("c1"), L.s(str(c1)), L.s("c2"),
                                                     "EErr %s %s" % (L.s("NameError"), L.s("name 'c2' is not defined")) if c2 == "boom" else "EVal %s" % L.s(str(c2)))
                evs.append("{| he_ev := %s; he_ts := %s; he_env := %s |}" % (ev_lit(kind, file, line, func), L.z(t), env))
                obs.append(L.lst(L.nat(i) for i in acted))
                jd.append([kind, file, line, func, t - BASE_NS, c1, c2, acted])
            counts = L.lst("(%s, %s)" % (L.nat(i), L.z(stats_of(a)[0])) for i, a in actions)
            j = dict(gated=True, actions=[(i, a.condition, a.config["fire_count"], a.config["fire_period"]) for i, a in actions], events=jd)
            ctx.case(dict(actions=j["actions"], n_events=len(jd), first=jd[:3]), nontrivial=any(e[7] for e in jd), bucket="gated")
            lits.append("{| hc_inst := %s; hc_events := %s; hc_obs := %s; hc_obs_counts := %s |}" % (L.lst(inst), L.lst(evs), L.lst(obs), counts))
            cj.append(j)
            world.clear_pending()
    finally:
        clock.restore()
    ctx.correspond("composition", ["Base", "Config", "Limiter", "Cond", "Match", "Handler"], "handler_case", "check_handler_case", lits, cj, shard=60)


# ----------------------------------------------------------------------------- live programs
LIVE_SRC = '''
import threading
def leaf(n):
    x = n + 1
    if n == 2:
        try:
            raise ValueError(n)
        except ValueError:
            x = -1
    return x

def gen(n):
    for i in range(n):
        yield leaf(i)

def mid(n):
    total = 0
    for v in gen(n):
        total += v
    return total

def never_called():
    return 1

def main():
    out = [mid(3)]
    ts = [threading.Thread(target=lambda: out.append(mid(2))) for _ in range(2)]
    for t in ts:
        t.start()
    for t in ts:
        t.join()
    return out
'''


def live(ctx, n):
    from deep.api.tracepoint.trigger import LocationAction, Trigger, LineLocation, FunctionLocation, Location
    rng = ctx.rng
    d = os.path.join(e2_build(), "live_c03")
    os.makedirs(d, exist_ok=True)
    nlines = len(LIVE_SRC.split("\n"))
    lits, cj = [], []
    for k in range(n):
        path = os.path.join(d, "liveprog_%d_%d.py" % (os.getpid(), k))
        base = os.path.basename(path)
        with open(path, "w") as fh:
            fh.write(LIVE_SRC)
        world = e2.World(logger=True, spans=0, metrics=0)
        world.clear_pending()
        locs_by_id, trigs, trig_lits = {}, [], []
        nid = 0
        for _ in range(rng.choice([1, 2, 4, 6])):
            if rng.random() < 0.6:
                loc = ("line", base, rng.randrange(2, nlines))
                location = LineLocation(base, loc[2], Location.Position.START)
            else:
                loc = ("func", base, rng.choice(["leaf", "gen", "mid", "never_called", "main", "<lambda>"]))
                location = FunctionLocation(base, loc[2], Location.Position.START)
            ids, acts = [], []
            for _k in range(rng.choice([1, 1, 2])):
                acts.append(LocationAction("tp%d" % nid, None, {"fire_count": "-1", "fire_period": "0", "log_msg": "m"},
                                           LocationAction.ActionType.Log))
                locs_by_id[nid] = loc
                ids.append(nid)
                nid += 1
            trigs.append(Trigger(location, acts))
            trig_lits.append(trig_lit(loc, ids))
        world.install(trigs)
        recorded = []         # (thread, kind, file, line, func, acted)
        lock = threading.Lock()

        def tracer(frame, event, arg, world=world, recorded=recorded):
            if event not in KINDS:
                return tracer
            with lock:
                start = len(world.log)
                r = world.handler.trace_call(frame, event, arg)
                acted = effects_since(world, start)
                recorded.append((threading.get_ident(), event, frame.f_code.co_filename, frame.f_lineno, frame.f_code.co_name, acted))
            return tracer if r is not None else None
        glb = {"__name__": "liveprog"}
        exec(compile(LIVE_SRC, path, "exec"), glb)
        result = []

        def body():
            threading.settrace(tracer)
            sys.settrace(tracer)
            try:
                result.append(glb["main"]())
            finally:
                sys.settrace(None)
                threading.settrace(None)
        th = threading.Thread(target=body)
        th.start()
        th.join()
        os.remove(path)
        desc = dict(live=True, tracepoints={i: list(l) for i, l in locs_by_id.items()}, n_events=len(recorded),
                    threads=len({r[0] for r in recorded}))
        ref_glb = {"__name__": "liveprog"}
        exec(compile(LIVE_SRC, path, "exec"), ref_glb)
        want = ref_glb["main"]()
        if not result or sorted(result[0]) != sorted(want):
            ctx.fail("the program computed %r with the agent attached, %r without" % (result, want), desc, tag="host-changed")
        mine = [r for r in recorded if r[2] == path]
        for (_t, kind, file, line, func, acted) in recorded:
            oracle(ctx, locs_by_id, kind, file, line, func, acted, desc)
        ctx.case(dict(tracepoints=desc["tracepoints"]), nontrivial=any(r[5] for r in recorded), bucket="live")
        evs = [ev_lit(kind, file, line, func) for (_t, kind, file, line, func, _a) in mine]
        obs = [L.lst(L.nat(i) for i in acted) for (_t, _k, _f, _l, _fn, acted) in mine]
        lits.append("{| mc_triggers := %s; mc_merge := false; mc_events := %s; mc_obs := %s |}" % (L.lst(trig_lits), L.lst(evs), L.lst(obs)))
        cj.append(desc)
    ctx.correspond("live", IMPORTS, "match_case", "check_match_case", lits, cj, shard=10)


RECONF_SRC = '''def work(install, n):
    x = 1
    install()
    y = 2
    for i in range(n):
        x += i
    return x + y


def main(install, n):
    return work(install, n)
'''


def live_reconfig(ctx, n):
    """The configuration changes while a function is running: a tracepoint installed on a line the running invocation
    has yet to reach acts when it is reached (the decision 'nothing to do in this scope' may not be taken at function
    entry from the configuration of that moment)."""
    from deep.api.tracepoint.trigger import LocationAction, Trigger, LineLocation, Location
    rng = ctx.rng
    d = os.path.join(e2_build(), "live_c03")
    os.makedirs(d, exist_ok=True)
    for k in range(n):
        path = os.path.join(d, "reconf_%d_%d.py" % (os.getpid(), k))
        base = os.path.basename(path)
        world = e2.World(logger=True, spans=0, metrics=0)
        world.clear_pending()

        def mk(tid, file, line):
            return Trigger(LineLocation(file, line, Location.Position.START),
                           [LocationAction(tid, None, {"fire_count": "-1", "fire_period": "0", "log_msg": "m"}, LocationAction.ActionType.Log)])
        before = rng.choice(["other-file", "same-file-unreached-line", "other-file"])
        first = mk("tp0", "elsewhere.py", 3) if before == "other-file" else mk("tp0", base, 999)
        target = rng.choice([4, 6, 7])
        loops = rng.choice([1, 3])
        world.install([first])

        # half of the cases: the new tracepoint is REGISTERED IN CODE while the function runs (no answer of the service yet) and
        # reaches the handler the way the agent delivers it: configuration service -> its listener -> handler
        registered = rng.random() < 0.5
        handle = {}
        if registered:
            from deep.config.tracepoint_config import TracepointConfigService
            from deep.processor.trigger_handler import TracepointHandlerUpdateListener
            from ..lib import e5
            svc, tasks = TracepointConfigService(), e5.CtlTasks()
            svc.set_task_handler(tasks)
            svc.add_listener(TracepointHandlerUpdateListener(world.handler))

        def install(world=world, first=first, base=base, target=target):
            if registered:
                handle["tp1"] = svc.add_custom(base, target, {"fire_count": "-1", "fire_period": "0", "log_msg": "m", "snapshot": "no_collect"}, [], [])
                tasks.flush()
            else:
                world.install([first, mk("tp1", base, target)])

        def tracer(frame, event, arg, world=world):
            if event not in KINDS:
                return tracer
            r = world.handler.trace_call(frame, event, arg)
            return tracer if r is not None else None
        glb = {"__name__": "reconf"}
        exec(compile(RECONF_SRC, path, "exec"), glb)
        result = []

        def body():
            sys.settrace(tracer)
            try:
                result.append(glb["main"](install, loops))
            finally:
                sys.settrace(None)
        th = threading.Thread(target=body)
        th.start()
        th.join()
        acted = ["tp1" if tp == handle.get("tp1") else tp for what, tp, _i, _p in world.log if what == "log"]
        want = ["tp1"] * (loops if target == 6 else 1)
        j = dict(live=True, configuration_before=before, how="registered in code, delivered by the service's listener" if registered else "installed directly",
                 installed_while_running="line %d of the running function" % target,
                 loop_iterations=loops, acted=acted)
        ctx.case(j, nontrivial=True, bucket="live-reconfig")
        if acted != want:
            ctx.fail("a tracepoint installed on line %d while its function was already running acted %r, execution reached the line "
                     "%d time(s) after the installation" % (target, acted, len(want)), j, kind="history", tag="missed-after-reconfig")
        world.clear_pending()


def overlap(ctx, n):
    """Hits that overlap in time: while one thread is inside the actions of a tracepoint (parked in a log field),
    other threads reach their own tracepoints; every one of them must act."""
    from deep.api.tracepoint.trigger import LocationAction, Trigger, LineLocation, Location
    rng = ctx.rng
    for k in range(n):
        world = e2.World(logger=True, spans=0, metrics=0)
        world.clear_pending()
        entered, release = threading.Event(), threading.Event()

        def gate():
            entered.set()
            release.wait(5)
            return "g"
        conf = {"fire_count": "-1", "fire_period": "0"}
        slow = LocationAction("tp0", None, dict(conf, log_msg="{gate()}"), LocationAction.ActionType.Log)
        others = rng.choice([1, 2, 3])
        trigs = [Trigger(LineLocation("m.py", 7, Location.Position.START), [slow])]
        for i in range(others):
            trigs.append(Trigger(LineLocation("m.py", 20 + i, Location.Position.START),
                                 [LocationAction("tp%d" % (i + 1), None, dict(conf, log_msg="fast"), LocationAction.ActionType.Log)]))
        world.install(trigs)
        t0 = threading.Thread(target=lambda: world.handler.trace_call(e2.mk_frame("/app/m.py", "f", 7, {"gate": gate}), "line", None), daemon=True)
        t0.start()
        entered.wait(5)
        for i in range(others):
            t = threading.Thread(target=lambda i=i: world.handler.trace_call(e2.mk_frame("/app/m.py", "g", 20 + i, {}), "line", None), daemon=True)
            t.start()
            t.join(5)
        acted_meanwhile = sorted(int(str(tp)[2:]) for w, tp, _i, _p in world.log if w == "log")
        release.set()
        t0.join(5)
        j = dict(overlap=True, parked_tracepoint=0, other_threads=others, acted_while_parked=acted_meanwhile)
        ctx.case(j, nontrivial=True, bucket="overlap")
        if acted_meanwhile != list(range(1, others + 1)):
            ctx.fail("while one thread was inside the actions of tracepoint 0, tracepoints %r acted for the %d other threads that reached "
                     "theirs (every one of 1..%d must act)" % (acted_meanwhile, others, others), j, kind="schedule", tag="overlap-dropped")
        world.clear_pending()


def e2_build():
    from ..lib import coqrun
    return coqrun.BUILD


def run(ctx):
    import logging
    from ..lib.quiet import quiet_logging
    quiet_logging()
    ctx.rule = ("(a) 0-8 triggers (line / named-method locations over 4 file names incl. a never-executed one, repeats of one "
                "location, 1-3 actions of kinds log/snapshot/span each) x 4-25 events of all four kinds over 4 paths (two "
                "with the same basename) x 5 lines x 4 functions through the real handler; (b) the same tracepoints as one "
                "poll response through convert_response (merge by location id); (c) live programs (generator, caught "
                "exception, loop, 3 threads) with 1-6 triggers under sys/threading.settrace, every delivered event recorded; (d) a "
                "tracepoint installed, while a non-empty configuration is active, on a later line of a function that is already "
                "running; names that are suffixes / prefixes of one another. "
                "Non-trivial: at least one event at which something acted.")
    ctx.assumptions = [
        "scope: the events CPython delivers to the handler (a frame entered while no tracepoint was installed gets no "
        "line events: that is the handler's documented 'return None' optimisation)",
        "a location's path is compared with the BASENAME of the frame's file, as the property states ('a source file with that name')",
        "gates are open (fire_count -1, no condition): limits and conditions are C04 / C10",
    ]
    ctx.prove()
    synthetic(ctx, 1500 if ctx.thorough else 250, False)
    synthetic(ctx, 600 if ctx.thorough else 100, True)
    gated(ctx, 600 if ctx.thorough else 100)
    live(ctx, 60 if ctx.thorough else 12)
    live_reconfig(ctx, 24 if ctx.thorough else 6)
    overlap(ctx, 30 if ctx.thorough else 6)


def replay(ctx, data):
    ctx.fail("replay re-runs the seeded generation: VERIF_SEED=%s check.py C03" % data.get("seed"))
