"""C10 -- conditions gate firing, expressions see the paused frame's scope, errors are contained (engine E2).

Tie: correspondence.  (a) name resolution of the real TriggerContext.evaluate_expression against
Cond.resolve on generated locals / module globals / builtins / agent-module names; (b) the gate of the
real ActionContext.can_trigger against Cond.gate for values and failures of every kind; (c) hit
histories with failing / false / true conditions through the real handler against Limiter.run with
Cond.hit_of (budget); (d) watch lists with failing members (each result on its own)."""
import builtins as _bi

from ..lib import coqlit as L
from ..lib import e2
from ..lib import lograce

IMPORTS = ["Base", "Config", "Limiter", "Cond"]
NAMES = ["a", "b", "G", "cfg", "x", "total", "len", "str", "uuid", "TriggerContext", "deep", "time_ns", "FrameCollector",
         "ActionResult", "abs", "id", "nothing_anywhere", "logging", "LocationAction"]
BUILTINS = ["len", "str", "abs", "id", "print", "int"]
AGENT = ["uuid", "TriggerContext", "deep", "time_ns", "FrameCollector", "ActionResult", "LocationAction", "ConfigService",
         "PushService", "Variable"]


class Obj:
    def __init__(self, k):
        self.k = k


def scope_cases(ctx, world, n):
    from deep.processor.context.trigger_context import TriggerContext
    rng = ctx.rng
    lits, cj = [], []
    bids = {name: 1000 + i for i, name in enumerate(BUILTINS)}
    for _ in range(n):
        objs = []

        def mk():
            o = Obj(len(objs))
            objs.append(o)
            return o
        lo = {nm: mk() for nm in rng.sample(NAMES, rng.choice([0, 1, 2, 4]))}
        gl = {nm: mk() for nm in rng.sample(NAMES, rng.choice([0, 1, 2, 4]))}
        name = rng.choice(NAMES + AGENT)
        glb = dict(gl)
        glb["__name__"] = "hostmod"
        frame = e2.mk_frame("/app/m.py", "f", 3, dict(lo), f_globals=glb)
        before = (dict(frame.f_locals), {k: v for k, v in glb.items() if k != "__builtins__"})
        # expressions whose inner scopes cannot see the frame's locals (NameError in plain eval): evaluating them must
        # not touch the frame's scopes either
        for extra in ("sum(v for v in [a, b])", "(lambda: a)()", "[q for q in undefined_seq]"):
            TriggerContext(world.cfg, world.push, frame, "line", None).evaluate_expression(extra)
        res = TriggerContext(world.cfg, world.push, frame, "line", None).evaluate_expression(name)
        after = (dict(frame.f_locals), {k: v for k, v in glb.items() if k != "__builtins__"})
        if before != after:
            ctx.fail("evaluating %r changed the frame's scopes: locals %s -> %s, module globals %s -> %s" % (
                name, sorted(before[0]), sorted(after[0]), sorted(before[1]), sorted(after[1])),
                dict(name=name, locals=sorted(lo), globals=sorted(gl)), tag="scope-mutated")
        if isinstance(res, Obj):
            obs = res.k
        elif isinstance(res, NameError):
            obs = None
        elif name in bids and res is getattr(_bi, name):
            obs = bids[name]
        else:
            obs = -1
        j = dict(locals=sorted(lo), globals=sorted(gl), name=name, resolved=("locals" if name in lo else "globals" if name in gl else
                                                                              "builtins" if name in BUILTINS else "nowhere"))
        ctx.case(j, nontrivial=(name in lo) + (name in gl) + (name in BUILTINS) >= 1, bucket="scope " + j["resolved"])
        want = lo[name].k if name in lo else gl[name].k if name in gl else bids.get(name)
        if obs != want:
            what = "an object of the agent's own module (%r)" % (res,) if obs == -1 else repr(obs)
            ctx.fail("name %r with locals %s and module globals %s resolved to %s, the frame's scope gives %r" % (
                name, sorted(lo), sorted(gl), what, want), j, tag="scope-agent" if obs == -1 else "scope")
        if obs == -1:
            continue
        sc = lambda d: L.lst(L.pair(L.s(k), L.nat(v.k)) for k, v in d.items())
        lits.append("{| sc_locals := %s; sc_globals := %s; sc_builtins := %s; sc_name := %s; sc_obs := %s |}" % (
            sc(lo), sc(gl), L.lst(L.pair(L.s(k), L.nat(v)) for k, v in bids.items()), L.s(name),
            L.opt(None if obs is None else L.nat(obs))))
        cj.append(j)
    ctx.correspond("scope", IMPORTS, "scope_case", "check_scope_case", lits, cj, shard=300)


VALUES = [True, False, 1, 0, 2, "yes", "no", "true", "TRUE", "T", "y", "Y", "1", "0", "", None, [], [1], 1.0, "t ", "on"]
ERRORS = [lambda: KeyError(1), lambda: ValueError("true"), lambda: Exception("yes"), lambda: SystemExit("1"),
          lambda: KeyboardInterrupt(), lambda: NameError("name 'q' is not defined"), lambda: ZeroDivisionError("division by zero"),
          lambda: RuntimeError("t"), lambda: GeneratorExit(), lambda: AttributeError("y"), lambda: Exception(1)]


def outcome(rng):
    """(callable for the frame, eres literal, json)"""
    if rng.random() < 0.55:
        v = rng.choice(VALUES)
        return (lambda: v), "(EVal %s)" % L.s(str(v)), dict(value=repr(v))
    mk = rng.choice(ERRORS)
    e = mk()

    def f():
        raise mk()
    return f, "(EErr %s %s)" % (L.s(type(e).__name__), L.s(str(e))), dict(raises=repr(e))


def gate_cases(ctx, world, n):
    from deep.api.tracepoint.trigger import LocationAction
    from deep.processor.context.trigger_context import TriggerContext
    rng = ctx.rng
    lits, cj = [], []
    for _ in range(n):
        f, lit, j = outcome(rng)
        cond = rng.choice(["f()"] * 7 + [" f()", None, "", "  ", "\t", "\x1f", "\u00a0 ", "\u2003\t\x85", "\u3000\n", " \x1c\x0b"])     # blank = str.strip() is empty
        action = LocationAction("tp", cond, {"fire_count": "-1", "fire_period": "0"}, LocationAction.ActionType.Log)
        frame = e2.mk_frame("/app/m.py", "f", 3, {"f": f})
        tc = TriggerContext(world.cfg, world.push, frame, "line", None)
        try:
            with tc.action_context(action) as ac:
                obs = bool(ac.can_trigger())
        except BaseException as ex:
            ctx.fail("can_trigger raised %r for a condition with outcome %s" % (ex, j), dict(j, cond=cond), tag="gate-raised")
            continue
        j = dict(j, cond=cond, fires=obs)
        ctx.case(j, nontrivial=cond in ("f()", " f()"), bucket="gate " + ("error" if "raises" in j else "value"))
        if cond in ("f()", " f()") and "raises" in j and obs:
            ctx.fail("a condition that failed to evaluate (%s) let the tracepoint fire" % j["raises"], j, tag="error-fires")
        lits.append("{| gc_cond := %s; gc_res := %s; gc_obs := %s |}" % (L.opt(None if cond is None else L.s(cond)), lit, L.b(obs)))
        cj.append(j)
    ctx.correspond("gate", IMPORTS, "gate_case", "check_gate_case", lits, cj, shard=300)


def budget_cases(ctx, world, clock, n):
    from deep.api.tracepoint.trigger import LocationAction, Trigger, LineLocation, Location
    rng = ctx.rng
    lits, cj = [], []
    snapshot_world, metric_world = world, e2.World(logger=False, spans=0, metrics=1)
    span_world = e2.World(logger=False, spans=1, metrics=0)
    for _ in range(n):
        count = rng.choice(["1", "2", "3", "-1"])
        period = rng.choice(["0", "0", "1"])
        as_metric = rng.random() < 0.3          # the gate is the same for every kind of action: also a metric tracepoint obeys its condition
        if as_metric:
            from deep.api.tracepoint.tracepoint_config import MetricDefinition
            world = metric_world
            action = LocationAction("tp", "f()", {"fire_count": count, "fire_period": period, "metrics": [MetricDefinition("hits", "COUNTER")]},
                                    LocationAction.ActionType.Metric)
        elif rng.random() < 0.2:
            # ... and a span tracepoint (its gate adds "a span processor is loaded" to the same limits-and-condition test)
            world = span_world
            action = LocationAction("tp", "f()", {"fire_count": count, "fire_period": period, "span": "line"}, LocationAction.ActionType.Span)
        else:
            world = snapshot_world
            action = LocationAction("tp", "f()", {"fire_count": count, "fire_period": period, "frame_type": "no_frame", "watches": []},
                                    LocationAction.ActionType.Snapshot)
        trigger = Trigger(LineLocation("m.py", 7, Location.Position.START), [action])
        cond_text = "f()"
        if action.action_type == LocationAction.ActionType.Snapshot and rng.random() < 0.4:
            # the condition as it ARRIVES: an argument of the tracepoint, through build_trigger - also when its text begins or ends
            # with a string literal (the value of each of these texts is the value of f(), or false like it)
            from deep.api.tracepoint.trigger import build_trigger
            cond_text = rng.choice(['f()', '"" or f()', "'' or f()", 'f() or ""', "f() or ''", ' f() ', '(f())',
                                    'F()', 'f() if "A" == "A" else None', 'f() or None', 'Fn()'])        # (capitals: names, literals, None)
            trigger = build_trigger("tp", "m.py", 7, {"condition": cond_text, "fire_count": count, "fire_period": period,
                                                     "frame_type": "no_frame"}, [], [])
            snaps_ = [a for a in trigger.actions if a.action_type == LocationAction.ActionType.Snapshot]
            if len(snaps_) != 1:
                ctx.fail("build_trigger made %d snapshot actions for a tracepoint with a condition" % len(snaps_), dict(condition=cond_text),
                         tag="built-actions")
                continue
            action = snaps_[0]
        world.install([trigger])
        world.push.snapshots.clear()
        t = e2.BASE_NS
        hits, obs, jh, want = [], [], [], []
        ref_n, ref_last = 0, None
        for i in range(rng.choice([2, 4, 8, 15])):
            t += rng.choice([1, 1000, 2_000_000])
            f, lit, j = outcome(rng) if rng.random() < 0.75 else ((lambda: True), "(EVal %s)" % L.s("True"), dict(value="True"))
            clock.now = t
            effects = lambda: len(world.push.snapshots) + len([1 for w_, _t, _i, _p in world.log if w_ in ("metric", "span-open")])
            before = effects()
            _, exc = world.event(e2.mk_frame("/app/m.py", "g", 7, {"f": f, "F": f, "Fn": f}), "line")
            if exc is not None:
                ctx.fail("the handler raised %r" % (exc,), j, tag="raised")
            obs.append(effects() > before)
            hits.append("(%s, %s)" % (L.z(t), lit))
            jh.append(j)
            # reference, from the statement: a hit collects exactly when the limits allow it and its condition evaluates to true;
            # a rejected hit changes nothing, so a LATER hit whose condition is true still collects
            try:
                truth = str(f()).lower() in ("true", "1", "y", "yes", "t")
            except BaseException:
                truth = False
            allowed = (int(count) == -1 or ref_n < int(count)) and (ref_last is None or t - ref_last >= int(period) * 1_000_000)
            want.append(bool(allowed and truth))
            if allowed and truth:
                ref_n, ref_last = ref_n + 1, t
        cnt, _ = e2.stats_of(action)
        j = dict(fire_count=count, fire_period=period, hits=jh, collected=obs, fires_recorded=cnt, condition=cond_text,
                 action="metric" if as_metric else "span" if world is span_world else "snapshot")
        ctx.case(j, nontrivial=any("raises" in h for h in jh) and any(obs), bucket="budget count=%s" % count)
        # oracle: rejected hits use no budget -> fires recorded == collections; failing conditions never collect
        if obs != want:
            i = [a != b for a, b in zip(obs, want)].index(True)
            ctx.fail("hit %d (condition outcome %s): collected=%s; the limits and the condition say %s (earlier hits: %s)" % (
                i, jh[i], obs[i], want[i], [("collected" if o else "rejected") for o in obs[:i]]), dict(j, required=want),
                tag="not-live" if want[i] else "collected-against-condition")
        if cnt != sum(obs):
            ctx.fail("%d fires recorded for %d collections (a rejected hit used budget)" % (cnt, sum(obs)), j, tag="budget")
        for h, o in zip(jh, obs):
            if o and "raises" in h:
                ctx.fail("a hit whose condition failed (%s) collected" % h["raises"], j, tag="error-fires")
        lits.append("{| bc_cond := Some %s; bc_count := %s; bc_period := %s; bc_hits := %s; bc_obs := %s; bc_obs_cnt := %s |}" % (
            L.s("f()"), e2.argv(count), e2.argv(period), L.lst(hits), L.lst(L.b(o) for o in obs), L.z(cnt)))
        cj.append(j)
    ctx.correspond("budget", IMPORTS, "budget_case", "check_budget_case", lits, cj, shard=200)


def watch_cases(ctx, world, n):
    """Each expression has its own result: a failing watch is an error result, the others are as when alone."""
    from deep.api.tracepoint.trigger import LocationAction, Trigger, LineLocation, Location
    rng = ctx.rng
    pool = ["a", "b + 1", "len(s)", "s.upper()", "d['k']", "missing", "1/0", "d['nope']", "s.nope", "boom()", "exit_()", "G", "a +",
            " a", "\tb + 1", "  len(s) ",         # an expression may start with blanks (eval skips them)
            "a == 5", "b==a", "s == 'txt'", "a != b", "a >= b", "x = a", "n=a"]      # comparisons; `x = a` is not an expression at all

    def snap_for(watches, loc, glb):
        action = LocationAction("tp", None, {"fire_count": "-1", "fire_period": "0", "frame_type": "single_frame", "watches": watches},
                                LocationAction.ActionType.Snapshot)
        world.install([Trigger(LineLocation("m.py", 7, Location.Position.START), [action])])
        world.push.snapshots.clear()
        _, exc = world.event(e2.mk_frame("/app/m.py", "g", 7, loc, f_globals=glb), "line")
        return (world.push.snapshots[0] if world.push.snapshots else None), exc

    def view(s, w):
        if w.error is not None:
            return ("error", w.error)
        var = s.var_lookup.get(w.result.vid)
        return ("value", var.type if var else None, var.value if var else None)
    for _ in range(n):
        def boom():
            raise RuntimeError("boom")

        def exit_():
            raise SystemExit(3)
        loc = {"a": 5, "b": 2, "s": "txt", "d": {"k": [1, 2]}, "boom": boom, "exit_": exit_}
        glb = {"__name__": "hostmod", "G": 42}
        ws = [rng.choice(pool) for _ in range(rng.choice([1, 2, 3, 5]))]
        s, exc = snap_for(ws, loc, glb)
        j = dict(watches=ws)
        ctx.case(j, nontrivial=len(set(ws)) > 1, bucket="watches")
        if exc is not None or s is None:
            ctx.fail("no snapshot for watches %s (%r)" % (ws, exc), j, tag="watch-lost")
            continue
        if [w.expression for w in s.watches] != ws:
            ctx.fail("watch results %s for watches %s" % ([w.expression for w in s.watches], ws), j, tag="watch-order")
            continue
        for w_expr, w in zip(ws, s.watches):
            alone, _ = snap_for([w_expr], loc, glb)
            va, vb = view(s, w), view(alone, alone.watches[0])
            if va != vb:
                ctx.fail("watch %r gives %r among %s but %r alone" % (w_expr, va, ws, vb), j, tag="watch-dependent")
            failing = w_expr in ("missing", "1/0", "d['nope']", "s.nope", "boom()", "exit_()", "a +", "x = a", "n=a")
            if not failing and va[0] == "value" and type(eval(w_expr, dict(glb), dict(loc))) in (int, str, float, bool) \
                    and va[2] != str(eval(w_expr, dict(glb), dict(loc))):
                ctx.fail("watch %r gives %r, the frame gives %r" % (w_expr, va, str(eval(w_expr, dict(glb), dict(loc)))), j, tag="watch-value")
            is_err = va[0] == "error" or (va[1] or "").endswith(("Error", "Exit"))
            if failing != is_err:
                ctx.fail("watch %r (%s) reported as %r" % (w_expr, "fails" if failing else "evaluates", va), j, tag="watch-error-form")
        if "G" in ws:
            g = view(s, s.watches[ws.index("G")])
            if g != ("value", "int", "42"):
                ctx.fail("watch on the module global G gives %r" % (g,), j, tag="scope")


FAILING = {"missing": NameError, "1/0": ZeroDivisionError, "d['nope']": KeyError, "boom()": RuntimeError, "exit_()": SystemExit,
           "cancel()": None, "interrupt()": KeyboardInterrupt, "genexit()": GeneratorExit}
GOOD = ["a", "b + 1", "len(s)", "s", "G", "d['k']"]


def isolation_cases(ctx, n):
    """Log fields and metric value / label expressions: a failing expression (any BaseException) affects that expression
    only - every other field / metric / label of the same hit comes out exactly as when the failing one is replaced by a
    harmless expression, and every metric is still reported."""
    import asyncio
    from deep.api.tracepoint.trigger import LocationAction, Trigger, LineLocation, Location
    from deep.api.tracepoint.tracepoint_config import MetricDefinition, LabelExpression
    rng = ctx.rng

    def raiser(exc):
        def f():
            raise exc
        return f
    loc = {"a": 5, "b": 2, "s": "txt", "d": {"k": 7}, "boom": raiser(RuntimeError("boom")), "exit_": raiser(SystemExit(3)),
           "cancel": raiser(asyncio.CancelledError()), "interrupt": raiser(KeyboardInterrupt()), "genexit": raiser(GeneratorExit())}
    glb = {"__name__": "hostmod", "G": 42}

    def hit(world, action):
        world.install([Trigger(LineLocation("m.py", 7, Location.Position.START), [action])])
        start = len(world.log)
        _, exc = world.event(e2.mk_frame("/app/m.py", "g", 7, dict(loc), f_globals=dict(glb)), "line")
        return world.log[start:], exc
    for _ in range(n):
        exprs = [rng.choice(GOOD + list(FAILING)) for _k in range(rng.choice([2, 3, 4]))]
        if not any(e in FAILING for e in exprs):
            exprs[rng.randrange(len(exprs))] = rng.choice(list(FAILING))
        if rng.random() < 0.5:
            # ---- metrics: expression i is the value of metric i; the failing ones also serve as label expressions
            world = e2.World(logger=False, spans=0, metrics=1)
            as_label = rng.random() < 0.5
            defs = []
            for i, e in enumerate(exprs):
                labels = [LabelExpression("lab", None, e)] if as_label else []
                defs.append(MetricDefinition("m%d" % i, "GAUGE", labels, "a" if as_label else e))
            action = LocationAction("tp-m", None, {"metrics": defs, "fire_count": "-1", "fire_period": "0"}, LocationAction.ActionType.Metric)
            # baseline: the same definitions with every expression harmless.  If THAT already loses a metric, reporting is broken
            # for another reason (C17) and nothing can be attributed to a failing expression.
            base_defs = [MetricDefinition("m%d" % i, "GAUGE", [LabelExpression("lab", None, "a")] if as_label else [], "a") for i in range(len(exprs))]
            base_world = e2.World(logger=False, spans=0, metrics=1)
            base_log, _ = hit(base_world, LocationAction("tp-m", None, {"metrics": base_defs, "fire_count": "-1", "fire_period": "0"},
                                                         LocationAction.ActionType.Metric))
            base_world.clear_pending()
            if len([1 for w, _t, _i, _p in base_log if w == "metric"]) != len(exprs):
                ctx.skip("metric reporting loses metrics even when no expression fails (C17): isolation of expressions cannot be examined")
                continue
            log, exc = hit(world, action)
            calls = {p["name"]: p for w, _t, _i, p in log if w == "metric"}
            j = dict(kind="metric " + ("labels" if as_label else "values"), expressions=exprs)
            ctx.case(j, nontrivial=True, bucket="isolation metrics")
            if exc is not None:
                ctx.fail("the handler raised %r" % (exc,), j, tag="raised")
            for i, e in enumerate(exprs):
                c = calls.get("m%d" % i)
                if c is None:
                    ctx.fail("metric m%d (expression %r) was not reported; an expression of the same hit failed (%s)" % (
                        i, e, [x for x in exprs if x in FAILING]), j, tag="metric-lost-after-failing-expression")
                    continue
                if e not in FAILING:
                    want_v = 5.0
                    if not as_label:
                        try:
                            want_v = float(eval(e, dict(glb), dict(loc)))
                        except (TypeError, ValueError):
                            want_v = 1
                    want_l = {"lab": str(eval(e, dict(glb), dict(loc)))} if as_label else {}
                    if c["value"] != want_v or c["labels"] != want_l:
                        ctx.fail("metric m%d (expression %r) reported as value %r labels %r beside a failing expression; alone it is %r %r" % (
                            i, e, c["value"], c["labels"], want_v, want_l), j, tag="expression-not-isolated")
                elif not as_label and c["value"] != 1:
                    ctx.fail("metric m%d: failing value expression %r reported as %r, not the default 1" % (i, e, c["value"]), j,
                             tag="failing-metric-value")
            world.clear_pending()
        else:
            # ---- log fields
            world = e2.World(logger=True, spans=0, metrics=0)
            tpl = " | ".join("{%s}" % e for e in exprs)
            action = LocationAction("tp-l", None, {"fire_count": "-1", "fire_period": "0", "log_msg": tpl}, LocationAction.ActionType.Log)
            log, exc = hit(world, action)
            msgs = [p["msg"] for w, _t, _i, p in log if w == "log"]
            j = dict(kind="log fields", template=tpl)
            ctx.case(j, nontrivial=True, bucket="isolation log")
            if exc is not None:
                ctx.fail("the handler raised %r" % (exc,), j, tag="raised")
            if len(msgs) != 1:
                ctx.fail("%d messages for template %r with a failing field" % (len(msgs), tpl), j, tag="message-lost-after-failing-field")
                continue
            parts = msgs[0][len("[deep] "):].split(" | ")
            if len(parts) != len(exprs):
                ctx.fail("message %r does not have one part per field of %r" % (msgs[0], tpl), j, tag="expression-not-isolated")
                continue
            for e, part in zip(exprs, parts):
                if e not in FAILING and part != str(eval(e, dict(glb), dict(loc))):
                    ctx.fail("field {%s} rendered as %r beside a failing field; its value is %r" % (
                        e, part, str(eval(e, dict(glb), dict(loc)))), j, tag="expression-not-isolated")
            world.clear_pending()


def run(ctx):
    import logging
    from ..lib.quiet import quiet_logging
    quiet_logging()
    ctx.rule = ("(a) a name from {locals, module globals, builtins, names of the agent's own modules, nowhere} looked up through "
                "the real evaluate_expression with generated locals/globals; (b) conditions whose evaluation yields one of 21 "
                "values or raises one of 11 exceptions (Exception and BaseException kinds, messages '1', 'true', 'yes', 't') "
                "and absent/blank conditions, through the real can_trigger; (c) hit histories mixing failing / false / true "
                "conditions through the real handler; (d) watch lists with failing members vs each watch alone; (e) metric value / "
                "label expressions and log fields with failing members (8 kinds incl. SystemExit, KeyboardInterrupt, GeneratorExit, "
                "CancelledError): the others unaffected, every metric still reported; (f) forced two-thread schedule: thread A "
                "parked inside a field of its log message while thread B evaluates its own.")
    ctx.assumptions = [
        "expressions are side-effect free; the expression language itself (CPython eval) is trusted",
        "an error result is accepted in either wire form: error text set, or a value whose type is the raised class",
    ]
    ctx.prove()
    clock = e2.Clock().install()
    world = e2.World(logger=False, spans=0, metrics=0)
    try:
        scope_cases(ctx, world, 3000 if ctx.thorough else 500)
        gate_cases(ctx, world, 2000 if ctx.thorough else 400)
        budget_cases(ctx, world, clock, 1000 if ctx.thorough else 150)
        watch_cases(ctx, world, 300 if ctx.thorough else 50)
        isolation_cases(ctx, 400 if ctx.thorough else 80)
        lograce.run_cases(ctx, 60 if ctx.thorough else 12, "c10")
    finally:
        clock.restore()
        world.clear_pending()


def replay(ctx, data):
    ctx.fail("replay re-runs the seeded generation: VERIF_SEED=%s check.py C10" % data.get("seed"))
