"""C17 -- metric tracepoints report each defined metric with the right type, labels, value (engine E2).

Tie: correspondence.  Generated metric definitions (four types in several spellings, static and
expression labels incl. repeated keys and failing expressions, numeric / non-numeric / failing / absent
value expressions, namespace/help/unit present or not) x 0-3 recording metric processors x 1-3
permitted hits through the real handler; the calls received by the processors, in order, and the fire
count are compared inside Coq with Metric.repeat_hits; an independent oracle re-derives each call."""
from ..lib import coqlit as L
from ..lib import e2

IMPORTS = ["Base", "Config", "Limiter", "Cond", "Metric"]
EXPRS = ["a", "a * 2.5", "len(s)", "s", "'2.5'", "True", "None", "missing", "1/0", "d", "d['k']", "b"]


def opt_s(v):
    return L.opt(None if v is None else L.s(v))


WIRE_TYPES = ("COUNTER", "GAUGE", "HISTOGRAM", "SUMMARY")


def wire_action(jd):
    """the metric action deep.grpc.convert_response builds from protobuf Metric messages of these definitions"""
    from deepproto.proto.tracepoint.v1.tracepoint_pb2 import Metric, LabelExpression as PLabel, TracePointConfig, MetricType
    from deepproto.proto.common.v1.common_pb2 import AnyValue
    from deep.grpc import convert_response
    from deep.api.tracepoint.trigger import LocationAction

    def any_value(v):
        if isinstance(v, bool):
            return AnyValue(bool_value=v)
        if isinstance(v, int):
            return AnyValue(int_value=v)
        if isinstance(v, float):
            return AnyValue(double_value=v)
        return AnyValue(string_value=v)
    ms = []
    for m in jd:
        labels = []
        for l in m["labels"]:
            if l["expr"]:
                labels.append(PLabel(key=l["key"], expression=l["expr"]))
            elif l["static"] is not None:
                labels.append(PLabel(key=l["key"], static=any_value(l["static"])))
            else:
                labels.append(PLabel(key=l["key"]))
        ms.append(Metric(name=m["name"], type=MetricType.Value(m["type"]), labelExpressions=labels, expression=m["expr"],
                         namespace=m["namespace"], help=m["help"], unit=m["unit"]))
    tp = TracePointConfig(ID="tp-m", path="/app/m.py", line_number=7, args={"snapshot": "no_collect"}, metrics=ms)
    triggers = convert_response([tp])
    acts = [a for t in triggers for a in t.actions if a.action_type == LocationAction.ActionType.Metric]
    return acts[0] if len(acts) == 1 else None


def run(ctx):
    import logging
    from ..lib.quiet import quiet_logging
    quiet_logging()
    from deep.api.tracepoint.trigger import LocationAction, Trigger, LineLocation, Location
    from deep.api.tracepoint.tracepoint_config import MetricDefinition, LabelExpression
    ctx.rule = ("1-4 metric definitions (type in COUNTER/GAUGE/HISTOGRAM/SUMMARY, upper/lower/mixed case; 0-3 labels with "
                "static text/number/None or expressions, repeated keys; value expression absent / empty / numeric / "
                "numeric text / bool / non-numeric / failing; namespace, help, unit present, empty or absent) x 0-3 metric "
                "processors x 1-3 permitted hits x generated frame values. Non-trivial: at least one processor and one "
                "definition with an expression or label; distinct: distinct definition list.")
    ctx.assumptions = [
        "numbers are compared by the text Python prints for them",
        "metric processors do not fail here (a failing processor is C20)",
        "metric types are the four the wire protocol defines",
    ]
    ctx.prove()
    rng = ctx.rng
    lits, cj = [], []
    firsts = []
    n = 1500 if ctx.thorough else 300
    for i in range(n):
        nproc = rng.choice([0, 1, 1, 2, 3])
        world = e2.World(logger=False, spans=0, metrics=nproc)
        loc = {"a": rng.choice([1, 3, -2]), "b": rng.choice([0.5, 7]), "s": rng.choice(["txt", ""]), "d": {"k": rng.choice([4, "x"])}}
        glb = {"__name__": "hostmod"}
        defs, jd = [], []
        for _ in range(rng.choice([1, 1, 2, 4])):
            labels = []
            for _l in range(rng.choice([0, 0, 1, 2, 3])):
                key = rng.choice(["k1", "k2", "env"])
                if rng.random() < 0.5:
                    labels.append(dict(key=key, static=rng.choice(["v", "prod", 5, None]), expr=rng.choice([None, None, ""])))
                else:
                    labels.append(dict(key=key, static=rng.choice([None, "ignored"]), expr=rng.choice(EXPRS)))
            jd.append(dict(name=rng.choice(["hits", "latency", "m_%d" % rng.randrange(5)]),
                           type=rng.choice(["COUNTER", "GAUGE", "HISTOGRAM", "SUMMARY", "counter", "Gauge"]), labels=labels,
                           expr=rng.choice([None, None, ""] + EXPRS), namespace=rng.choice([None, "", "shop"]),
                           help=rng.choice([None, "some help"]), unit=rng.choice([None, "ms"])))
        # a third of the cases take the definitions THROUGH THE WIRE: protobuf Metric messages (static label values as AnyValue:
        # text, int, double, bool, or none) converted by deep.grpc.convert_response, the way the service delivers them
        wire = rng.random() < 0.35 and all(m["type"] in WIRE_TYPES for m in jd)
        if wire:
            for m in jd:
                for l in m["labels"]:
                    if l["expr"]:
                        l["static"] = None                  # one of the two on the wire (a oneof)
                    elif l["static"] is not None:
                        l["static"] = rng.choice([l["static"], 2.5, True, 0, "x y"])
                # what the wire carries for an absent text is the empty text
                m["namespace"], m["help"], m["unit"], m["expr"] = m["namespace"] or "", m["help"] or "", m["unit"] or "", m["expr"] or ""
            action = wire_action(jd)
            defs = action.config["metrics"] if action is not None else None
            if action is None or len(defs) != len(jd):
                ctx.case(dict(metrics=jd, wire=True), nontrivial=True, bucket="wire")
                ctx.fail("convert_response produced %s for %d metric definitions" % (
                    "no metric action" if action is None else "%d definitions" % len(defs), len(jd)), dict(metrics=jd, wire=True), tag="wire-definitions")
                continue
            action.config["fire_count"], action.config["fire_period"] = "-1", "0"
        else:
            for m in jd:
                defs.append(MetricDefinition(m["name"], m["type"], [LabelExpression(l["key"], l["static"], l["expr"]) for l in m["labels"]],
                                             m["expr"], m["namespace"], m["help"], m["unit"]))
            action = LocationAction("tp-m", None, {"metrics": defs, "fire_count": "-1", "fire_period": "0"}, LocationAction.ActionType.Metric)
        world.install([Trigger(LineLocation("m.py", 7, Location.Position.START), [action])])
        hits = rng.choice([1, 1, 2, 3])
        clock_ok = True
        escaped = None
        for h in range(hits):
            _, exc = world.event(e2.mk_frame("/app/m.py", "g", 7, dict(loc), f_globals=dict(glb)), "line")
            escaped = escaped or exc
        calls = [p for w, _tp, _id, p in world.log if w == "metric"]
        cnt, _ = e2.stats_of(action)
        if len(firsts) < 12:
            firsts.append((jd, nproc, dict(loc), hits, calls))
        j = dict(metrics=jd, processors=nproc, hits=hits, wire=wire)
        if wire:
            for c in calls:      # an absent help / unit has no representation of its own on the wire
                c["help"], c["unit"] = c["help"] or "", c["unit"] or ""
        ctx.case(dict(metrics=jd, processors=nproc, wire=wire), nontrivial=nproc > 0 and any(m["expr"] or m["labels"] for m in jd),
                 bucket="procs=%d%s" % (nproc, " wire" if wire else ""))
        if escaped is not None:
            ctx.fail("the handler raised %r" % (escaped,), j, tag="raised")
            continue
        # ---- independent oracle
        want = []
        for h in range(hits):
            for m in jd:
                value = 1
                if m["expr"]:
                    try:
                        value = float(eval(m["expr"], dict(glb), dict(loc)))
                    except BaseException:
                        value = 1
                lab = {}
                for l in m["labels"]:
                    if l["expr"]:
                        try:
                            lab[l["key"]] = str(eval(l["expr"], dict(glb), dict(loc)))
                        except BaseException as e:
                            lab[l["key"]] = str(e)
                    else:
                        lab[l["key"]] = l["static"]
                for p in range(nproc):
                    want.append(dict(proc="metrics%d" % p, op=m["type"].lower(), name=m["name"], labels=lab,
                                     namespace=m["namespace"] or "deep", help=m["help"], unit=m["unit"], value=value))
        if calls != want:
            k = next((i for i, (a, b) in enumerate(zip(calls, want)) if a != b), min(len(calls), len(want)))
            ctx.fail("call %d to the metric processors is %r, the definitions ask for %r (%d calls, %d expected)" % (
                k, calls[k] if k < len(calls) else None, want[k] if k < len(want) else None, len(calls), len(want)), j, tag="dispatch")
        if nproc == 0 and cnt != 0:
            ctx.fail("no metric processor is active but %d fires were recorded" % cnt, j, tag="budget-without-processor")
        if nproc > 0 and cnt != hits:
            ctx.fail("%d fires recorded for %d permitted hits" % (cnt, hits), j, tag="fire-count")
        # ---- model case
        env = {}
        for e in EXPRS:
            try:
                v = eval(e, dict(glb), dict(loc))
                text = str(v)
                try:
                    num = str(float(v))
                except BaseException:
                    num = None
            except BaseException as ex:
                text, num = str(ex), None
            env[e] = "{| r_text := %s; r_num := %s |}" % (L.s(text), opt_s(num))
        mlits = []
        for m in jd:
            ll = L.lst("{| lb_key := %s; lb_static := %s; lb_expr := %s |}" % (
                L.s(l["key"]), opt_s(None if l["static"] is None else str(l["static"])), opt_s(l["expr"])) for l in m["labels"])
            mlits.append("{| m_name := %s; m_type := %s; m_labels := %s; m_expr := %s; m_namespace := %s; m_help := %s; m_unit := %s |}" % (
                L.s(m["name"]), L.s(m["type"]), ll, opt_s(m["expr"]), opt_s(m["namespace"]), opt_s(m["help"]), opt_s(m["unit"])))
        olits = []
        for c in calls:
            olits.append("{| c_proc := %s; c_op := %s; c_name := %s; c_labels := %s; c_namespace := %s; c_help := %s; c_unit := %s; c_value := %s |}" % (
                L.nat(int(c["proc"][7:])), L.s(c["op"]), L.s(c["name"]), L.lst(L.pair(L.s(k), L.s(str(v))) for k, v in c["labels"].items()),
                L.s(c["namespace"]), opt_s(c["help"]), opt_s(c["unit"]), L.s(str(c["value"]))))
        lits.append("{| mk_metrics := %s; mk_procs := %s; mk_env := %s; mk_hits := %s; mk_obs := %s; mk_obs_cnt := %s |}" % (
            L.lst(mlits), L.lst(L.nat(p) for p in range(nproc)), L.lst(L.pair(L.s(k), v) for k, v in env.items()),
            L.nat(hits), L.lst(olits), L.z(cnt)))
        cj.append(j)
        world.clear_pending()
    ctx.correspond("dispatch", IMPORTS, "metric_case", "check_metric_case", lits, cj, shard=100)
    # what is reported depends on the definitions and the frame, not on the history of the process: the first cases again
    for jd, nproc, loc, hits, calls in firsts:
        world = e2.World(logger=False, spans=0, metrics=nproc)
        defs = [MetricDefinition(m["name"], m["type"], [LabelExpression(l["key"], l["static"], l["expr"]) for l in m["labels"]],
                                 m["expr"], m["namespace"], m["help"], m["unit"]) for m in jd]
        action = LocationAction("tp-m", None, {"metrics": defs, "fire_count": "-1", "fire_period": "0"}, LocationAction.ActionType.Metric)
        world.install([Trigger(LineLocation("m.py", 7, Location.Position.START), [action])])
        for _h in range(hits):
            world.event(e2.mk_frame("/app/m.py", "g", 7, dict(loc), f_globals={"__name__": "hostmod"}), "line")
        again = [p for w, _tp, _id, p in world.log if w == "metric"]
        ctx.case(dict(repeated=True, metrics=jd, processors=nproc), nontrivial=True, bucket="repeated")
        if again != calls:
            ctx.fail("the same definitions on the same frame, reported again at the end of the run: %r; at first: %r" % (
                str(again)[:300], str(calls)[:300]), dict(metrics=jd, processors=nproc, hits=hits), kind="history", tag="depends-on-history")
        world.clear_pending()
    # the set of active processors is whatever it is AT THE HIT: processors added to / removed from the live plugin list
    _RL, _RS, RecMetrics = e2.plugin_classes()
    for k in range(120 if ctx.thorough else 30):
        world = e2.World(logger=False, spans=0, metrics=rng.choice([0, 1, 1]))
        action = LocationAction("tp-m", None, {"metrics": [MetricDefinition("hits", "COUNTER")], "fire_count": "2", "fire_period": "0"},
                                LocationAction.ActionType.Metric)
        world.install([Trigger(LineLocation("m.py", 7, Location.Position.START), [action])])
        history, want_calls = [], 0
        for step in range(rng.choice([2, 3, 4])):
            change = rng.choice(["none", "append", "remove"])
            if change == "append":
                world.cfg.plugins.append(RecMetrics(world.log, "metrics%d" % (10 + step)))
            elif change == "remove" and world.cfg.plugins:
                world.cfg.plugins.pop()
            nproc = len(world.cfg.plugins)
            fired_before = e2.stats_of(action)[0]
            world.event(e2.mk_frame("/app/m.py", "g", 7, {}), "line")
            if nproc and fired_before < 2:
                want_calls += nproc
            history.append((change, nproc))
            fired_after = e2.stats_of(action)[0]
            if fired_after != fired_before + (1 if nproc and fired_before < 2 else 0):
                ctx.fail("plugin list changed in place %r: the hit with %d active processors moved the fire count from %d to %d" % (
                    history, nproc, fired_before, fired_after), dict(in_place_plugin_changes=history), kind="history",
                    tag="budget-without-processor" if not nproc else "fire-count")
                break
        calls = len([1 for w, _t, _i, _p in world.log if w == "metric"])
        j = dict(in_place_plugin_changes=history, calls=calls)
        ctx.case(j, nontrivial=any(c != "none" for c, _n in history), bucket="live-plugin-list")
        if calls != want_calls:
            ctx.fail("plugin list changed in place between hits %r: %d reports reached the processors, %d are due (each permitted hit "
                     "reports to the processors active at that hit; a hit with none active uses no budget)" % (history, calls, want_calls), j,
                     kind="history", tag="stale-processor-flag")
        world.clear_pending()

    # "every ACTIVE metric processor": the processors as the agent itself loads them (api/plugin load_plugins), some switched off by
    # configuration (PLUGIN_<NAME>, the name upper-cased): a processor that is switched off receives nothing, and with none active the
    # hit reports nothing and uses no budget
    import sys as _sys, types as _types
    import deep.api.plugin as _pl
    shared = []
    mod = _types.ModuleType("verif_c17_plugins")

    def _mk(cname):
        def _init(self, name=None, config=None):
            RecMetrics.__init__(self, shared, cname)
            self.config = config
        return type(cname, (RecMetrics,), {"__init__": _init, "__module__": "verif_c17_plugins"})
    names = ["RecorderA", "RecorderB", "recorder_c"]
    for n_ in names:
        setattr(mod, n_, _mk(n_))
    _sys.modules["verif_c17_plugins"] = mod
    try:
        for k in range(2 ** len(names) * (2 if ctx.thorough else 1)):
            off = [n_ for i_, n_ in enumerate(names) if (k >> i_) & 1]
            custom = {("PLUGIN_%s" % n_.upper()): rng.choice(["false", "False", False]) for n_ in off}
            world = e2.World(logger=False, spans=0, metrics=0, custom=custom)
            del shared[:]
            loaded = _pl.load_plugins(world.cfg, ["verif_c17_plugins.%s" % n_ for n_ in names])
            world.cfg.plugins = [p_ for p_ in loaded if type(p_).__module__ == "verif_c17_plugins"]
            action = LocationAction("tp-m", None, {"metrics": [MetricDefinition("hits", "COUNTER"), MetricDefinition("g", "GAUGE", [], "1")],
                                                   "fire_count": "1", "fire_period": "0"}, LocationAction.ActionType.Metric)
            world.install([Trigger(LineLocation("m.py", 7, Location.Position.START), [action])])
            world.event(e2.mk_frame("/app/m.py", "g", 7, {}), "line")
            got = {}
            for w_, _t, _i, p_ in shared:
                if w_ == "metric":
                    got[p_["proc"]] = got.get(p_["proc"], 0) + 1
            want = {n_: 2 for n_ in names if n_ not in off}
            j = dict(loaded_by_the_agent=names, switched_off=off, reports=got)
            ctx.case(j, nontrivial=bool(off), bucket="loaded-processors")
            if got != want:
                ctx.fail("metric processors loaded by load_plugins with %r switched off by configuration: reports per processor %r, "
                         "expected %r (two definitions, one hit, each ACTIVE processor once per definition)" % (off, got, want), j,
                         tag="inactive-processor-reported")
            if len(off) == len(names) and e2.stats_of(action)[0] != 0:
                ctx.fail("no metric processor is active (all switched off), yet the hit used the fire budget of the metric tracepoint", j,
                         tag="budget-without-processor")
            world.clear_pending()
    finally:
        _sys.modules.pop("verif_c17_plugins", None)


def replay(ctx, data):
    ctx.fail("replay re-runs the seeded generation: VERIF_SEED=%s check.py C17" % data.get("seed"))
