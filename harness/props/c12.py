"""C12 -- installed tracepoints converge to the service's latest configuration (engine E5).
(Also the driver of C13: the same histories, weighted towards register / unregister.)

Tie: correspondence.  Generated histories of poll answers (update / no change / transport error /
malformed answer, through the real LongPoll.poll with a scripted stub), register / unregister calls and
task executions (a controlled task handler lets the harness choose which of the two running update tasks
installs first) drive the real TracepointConfigService + ConfigService + TriggerHandler; what the handler
has installed after every step, the reported hash, the live registrations and the number of pending tasks
are compared inside Coq with ConfigSvc.trace.  Plus physical runs on the real 2-worker TaskHandler."""
import threading
import time

from ..lib import coqlit as L
from ..lib import e5

IMPORTS = ["Base", "ConfigSvc"]


def gen_history(rng, weights):
    ops = []
    nreg = 0
    ts = 10
    h = 0
    for _ in range(rng.choice([3, 6, 12, 25])):
        r = rng.random()
        ts += 1
        if r < weights["update"]:
            h += 1
            ops.append(("update", ts, h, rng.sample(range(1, 9), rng.choice([0, 1, 2, 3]))))
        elif r < weights["update"] + weights["nochange"]:
            ops.append(("nochange", ts))
        elif r < weights["update"] + weights["nochange"] + weights["failed"]:
            ops.append(("failed", rng.choice(["error", "malformed", "bad-update"])))
        elif r < weights["update"] + weights["nochange"] + weights["failed"] + weights["register"]:
            if rng.random() < 0.15:
                ops.append(("register-refused",))                              # arguments the agent cannot interpret
            else:
                ops.append(("register", 100 + nreg, rng.choice([10, 10, 11])))     # number, line (shared locations)
                nreg += 1
        elif r < 1 - weights["run"]:
            ops.append(("unregister", rng.randrange(max(nreg, 1) + 1)))        # any handle ever returned, or a never-returned one
        else:
            ops.append(("run", rng.choice([0, 0, 1, 1, 2])))
    if rng.random() < 0.7:
        ops += [("run", 0)] * 30       # let everything settle
    return ops


def drive(ctx, ops, cid):
    w = e5.World()
    try:
        obs, cobs, fails = [], [], []
        last_hash, regs_live = None, {}
        polled = []
        for i, op in enumerate(ops):
            k = op[0]
            if k == "update":
                err = w.do_poll(e5.poll_update(op[1], op[2], op[3]))
                if err is not None:
                    fails.append(("poll-raised", "a well-formed update answer made poll() raise %r" % (err,)))
                last_hash, polled = op[2], list(op[3])
            elif k == "nochange":
                before = (w.installed(), w.svc.current_hash, list(w.svc._custom), len(w.tasks.pending))
                w.do_poll(e5.poll_no_change(op[1]))
                after = (w.installed(), w.svc.current_hash, list(w.svc._custom), len(w.tasks.pending))
                if before != after:
                    fails.append(("nochange-altered", "a 'no change' answer altered the state: %r -> %r" % (before[:2], after[:2])))
            elif k == "failed":
                before = (w.installed(), w.svc.current_hash, len(w.tasks.pending))
                if op[1] == "bad-update":
                    # a well-formed UPDATE carrying a NEW hash and a tracepoint that cannot be converted
                    from deepproto.proto.poll.v1.poll_pb2 import PollResponse, ResponseType
                    from deepproto.proto.tracepoint.v1.tracepoint_pb2 import TracePointConfig, Metric
                    answer = PollResponse(ts_nanos=5, current_hash="777", response_type=ResponseType.UPDATE,
                                          response=[TracePointConfig(ID="9", path="polled.py", line_number=9, metrics=[Metric(name="m", type=99)])])
                else:
                    answer = RuntimeError("unavailable") if op[1] == "error" else object()
                err = w.do_poll(answer)
                if err is None:
                    fails.append(("failed-poll-accepted", "an unintelligible poll answer was accepted"))
                if before != (w.installed(), w.svc.current_hash, len(w.tasks.pending)):
                    fails.append(("failed-poll-altered", "a failed poll altered the installed configuration or the hash"))
            elif k == "register-refused":
                before = (w.custom_numbers(), len(w.tasks.pending), w.installed())
                try:
                    w.svc.add_custom("reg.py", 10, {"stage": "no_such_stage"}, ["999"], [])
                    fails.append(("bad-accepted", "a registration with an unknown stage was accepted"))
                except ValueError:
                    pass
                except BaseException as e:
                    fails.append(("bad-raised", "a registration with an unknown stage raised %r" % (e,)))
                if before != (w.custom_numbers(), len(w.tasks.pending), w.installed()):
                    fails.append(("refused-left-trace", "a refused registration changed the registrations / pending tasks"))
            elif k == "register":
                try:
                    handle = w.svc.add_custom("reg.py", op[2], {"fire_count": "-1"}, [str(op[1])], [])
                except BaseException as e:
                    fails.append(("register-raised", "a well-formed registration raised %r" % (e,)))
                    handle = "registration-failed-%d" % len(w.handles)
                w.handles.append(handle)
                regs_live[len(w.handles) - 1] = op[1]
            elif k == "unregister":
                idx = op[1]
                if idx < len(w.handles):
                    before = w.custom_numbers()
                    try:
                        w.svc.remove_custom(w.handles[idx])
                    except BaseException as e:
                        fails.append(("unregister-raised", "unregistering a handle raised %r" % (e,)))
                    after = w.custom_numbers()
                    want = [n for n in before if n != regs_live.get(idx)]
                    if after != want:
                        fails.append(("unregister-wrong", "unregistering the handle of registration %s turned the registrations %r "
                                      "into %r (expected %r)" % (regs_live.get(idx, "(already removed)"), before, after, want)))
                    regs_live.pop(idx, None)
                else:
                    try:
                        w.svc.remove_custom("no-such-handle")
                    except BaseException as e:
                        fails.append(("unregister-raised", "unregistering a handle that was never returned raised %r" % (e,)))
            else:
                w.tasks.run(op[1])
            obs.append(w.installed())
            cobs.append(w.custom_numbers())
            # convergence oracle at every quiescent point: the handler acts on what the SERVICE holds now (its polled
            # configuration and its registrations; that the registrations are the right ones is C13)
            if not w.tasks.pending:
                want = polled + w.custom_numbers()
                if sorted(w.installed()) != sorted(want):
                    fails.append(("not-converged", "no update task pending, the handler acts on %r, the service holds the polled configuration %r "
                                  "and the registrations %r" % (w.installed(), polled, w.custom_numbers())))
                want_reg = [regs_live[i2] for i2 in sorted(regs_live)]
                got_reg = [n for n in w.installed() if n >= 100]
                if got_reg != want_reg:
                    fails.append(("registered-not-active", "no update task pending, the registered tracepoints the handler acts on are %r, "
                                  "the registrations not yet unregistered are %r" % (got_reg, want_reg)))
        # the hash reported by the next poll
        w.do_poll(e5.poll_no_change(999))
        req = e5.ScriptedStub.requests[-1][0]
        rep = req.current_hash
        if rep != ("" if last_hash is None else str(last_hash)):
            fails.append(("hash", "the next poll reports hash %r, the last update carried %r" % (rep, last_hash)))
        if len(set(w.handles)) != len(w.handles):
            fails.append(("handle-shared", "two registrations returned the same handle %r" % (w.handles,)))
        model_ops = []
        for op in ops:
            if op[0] == "register-refused":
                model_ops.append(("register-refused",))
            elif op[0] == "register":
                model_ops.append(("register", op[1]))
            elif op[0] == "unregister":
                model_ops.append(("unregister", op[1]))
            else:
                model_ops.append(op)
        lit = "{| sv_ops := %s; sv_obs_installed := %s; sv_obs_hash := %s; sv_obs_custom := %s; sv_obs_pending := %s; sv_obs_customs := %s |}" % (
            L.lst(e5.op_lit(o) for o in model_ops), L.lst(L.lst(L.nat(n) for n in o) for o in obs),
            L.opt(None if w.svc.current_hash is None else L.nat(int(w.svc.current_hash))),
            L.lst(L.nat(n) for n in w.custom_numbers()), L.nat(len(w.tasks.pending)),
            L.lst(L.lst(L.nat(n) for n in o) for o in cobs))
        return lit, fails
    finally:
        w.close()


def physical(ctx, cid):
    """The real TaskHandler (two workers): the first update's installation is held back so the second completes first."""
    from deep.config.tracepoint_config import TracepointConfigService, ConfigUpdateListener
    from deep.task import TaskHandler
    for round_ in range(3):
        svc = TracepointConfigService()
        th = TaskHandler()
        svc.set_task_handler(th)
        installed = []
        gate = threading.Event()
        first = [True]
        lock = threading.Lock()

        class Slow(ConfigUpdateListener):
            def config_change(me, ts, old_hash, current_hash, old_config, new_config):
                with lock:
                    mine = first[0]
                    first[0] = False
                if mine:
                    gate.wait(2)            # the task that got here first is held back
                installed.append(list(new_config))
        svc.add_listener(Slow())
        svc.update_new_config(1, "h1", ["cfg1"])
        time.sleep(0.05)
        svc.update_new_config(2, "h2", ["cfg2"])
        time.sleep(0.15)
        gate.set()
        th.flush()
        j = dict(physical=True, updates=["cfg1", "cfg2"], installations=installed)
        ctx.case(j, bucket="physical")
        if not installed or installed[-1] != ["cfg2"]:
            ctx.fail("two updates on the real 2-worker pool: the last installation is %r, the latest configuration is ['cfg2'] "
                     "(hash reported: %r)" % (installed[-1] if installed else None, svc.current_hash), j, kind="schedule", tag="stale-config")


def timer_continues(ctx):
    """A failing poll does not stop the polling loop (RepeatedTimer)."""
    from deep.utils import RepeatedTimer
    calls = []

    def fn():
        calls.append(1)
        raise RuntimeError("service unavailable")
    t = RepeatedTimer("verif", 0.02, fn)
    t.start()
    end = time.time() + 5            # generous: three calls are expected after 0.06 s, a loaded machine gets 5 s
    while len(calls) < 3 and time.time() < end and t.thread.is_alive():
        time.sleep(0.01)
    alive = t.thread.is_alive()
    t.stop()
    ctx.case(dict(timer="failing poll function", calls=len(calls)), bucket="timer")
    if len(calls) < 3 or not alive:
        ctx.fail("the poll loop stopped after a failing poll (%d calls, timer thread alive: %s)" % (len(calls), alive),
                 dict(calls=len(calls)), tag="timer-stopped")


# which oracle belongs to which property: C12 = the handler converges to what the service holds, failed polls change nothing,
# the reported hash; C13 = handles (refusal leaves no trace, unregister removes exactly its registration, handles are distinct)
OWN = {"C12": {"poll-raised", "nochange-altered", "failed-poll-accepted", "failed-poll-altered", "not-converged", "hash"},
       "C13": {"bad-accepted", "bad-raised", "refused-left-trace", "unregister-wrong", "handle-shared", "registered-not-active",
               "register-raised", "unregister-raised"}}
WEIGHTS_C12 = dict(update=0.3, nochange=0.1, failed=0.1, register=0.12, run=0.28)
WEIGHTS_C13 = dict(update=0.1, nochange=0.03, failed=0.02, register=0.35, run=0.2)


def run(ctx, cid="C12"):
    import logging
    from ..lib.quiet import quiet_logging
    quiet_logging()
    weights = WEIGHTS_C12 if cid == "C12" else WEIGHTS_C13
    ctx.rule = ("histories of 3-25 operations drawn from {poll update (new hash, 0-3 tracepoints), no change, transport error, "
                "malformed answer, register (3 registrations share 2 lines), unregister (any handle ever returned, repeated, or "
                "never returned), run pending task 0 / 1 / 2}, %s; 70%% of the histories end by draining the tasks; plus 3 "
                "physical runs on the real two-worker TaskHandler with the first installation held back, and the poll "
                "timer with a failing poll function. Non-trivial: at least two updates or two registrations." % (
                    "weighted to poll answers and task order" if cid == "C12" else "weighted to register / unregister"))
    ctx.assumptions = [
        "an update task performs its installation atomically (it holds the service's lock); the pool has two workers, so "
        "only the first two pending tasks can run",
        "the timer thread treats a raising poll as the code does (logs and continues)",
    ]
    ctx.prove()
    rng = ctx.rng
    lits, cj = [], []
    for i in range(1500 if ctx.thorough else 250):
        ops = gen_history(rng, weights)
        lit, fails = drive(ctx, ops, cid)
        j = dict(ops=[list(o) for o in ops if not (o[0] == "run" and ops.count(o) > 20)][:40])
        ctx.case(j, nontrivial=sum(1 for o in ops if o[0] == "update") >= 2 or sum(1 for o in ops if o[0] == "register") >= 2,
                 bucket="ops=%d" % min(len(ops), 30))
        seen = set()
        for tag, what in fails:
            if tag not in seen and tag in OWN[cid]:
                seen.add(tag)
                ctx.fail(what, j, kind="history", tag=tag)
        lits.append(lit)
        cj.append(j)
    # each property compares its own observables (ConfigSvc.check_svc_case_polled / _reg)
    ctx.correspond("service", IMPORTS, "svc_case", "check_svc_case_polled" if cid == "C12" else "check_svc_case_reg", lits, cj, shard=100)
    if cid == "C12":
        physical(ctx, cid)
        timer_continues(ctx)


def replay(ctx, data):
    ctx.fail("replay re-runs the seeded generation: VERIF_SEED=%s check.py C12" % data.get("seed"))
