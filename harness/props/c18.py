"""C18 -- Resource identity and the bounded attribute store.

Tie to the code: correspondence.  Random constructor arguments and operation sequences are run on
the real deep.api.attributes.BoundedAttributes and on the model (Attrs.run) inside Coq; resource
chains are run through the real Deep.start (plugins loaded by name) and Attrs.create/merge_all.
Search: step oracle written from the property text, applied to the implementation's own states."""
import os
import sys
import types
from urllib.parse import quote

from ..lib import coqlit as L

IMPORTS = ["Base", "Attrs"]


# ----------------------------------------------------------------------------- generators
class Obj:
    def __repr__(self):
        return "<Obj>"


def gen_prim(rng):
    k = rng.randrange(8)
    if k == 0:
        return rng.choice([True, False])
    if k in (1, 2):
        return "".join(rng.choice("abcxyzé中 ") for _ in range(rng.choice([0, 1, 2, 3, 5, 12])))
    if k == 3:
        return rng.choice([0, 1, -1, 7, 2 ** 40, -5])
    if k == 4:
        return rng.choice([0.5, 1.0, -2.25, 3.75])
    if k == 5:
        return "".join(rng.choice("abé") for _ in range(rng.randrange(6))).encode("utf-8")
    if k == 6:
        return rng.choice([b"\xff\xfe", b"ok\xc3", b"\x80"])
    return rng.choice(["v", 3])


def gen_value(rng):
    k = rng.randrange(10)
    if k <= 4:
        return gen_prim(rng)
    if k <= 7:
        n = rng.choice([0, 1, 2, 3, 4])
        mode = rng.randrange(4)
        if mode == 0:   # homogeneous
            proto = gen_prim(rng)
            seq = [proto if rng.random() < 0.5 else type(proto)(proto) if not isinstance(proto, bytes) else proto
                   for _ in range(n)]
        else:
            seq = [gen_prim(rng) if rng.random() < 0.8 else rng.choice([None, None, {"d": 1}, [1]]) for _ in range(n)]
        return tuple(seq) if rng.random() < 0.5 else seq
    return rng.choice([None, {"a": 1}, Obj(), {1, 2}])


KEYS = ["a", "b", "c", "d", "e", "service.name", "kéy"]


def gen_key(rng):
    r = rng.random()
    if r < 0.85:
        return rng.choice(KEYS)
    if r < 0.92:
        return ""
    return rng.choice([5, None, 2.5])


def gen_store_case(rng):
    cap = rng.choice([None, None, 0, 1, 2, 3, 5])
    vlimit = rng.choice([None, None, 0, 1, 3, 10])
    init = [(gen_key(rng), gen_value(rng)) for _ in range(rng.choice([0, 0, 1, 3, 6]))]
    imm = rng.random() < 0.2
    ops = []
    for _ in range(rng.choice([1, 3, 6, 12, 25])):
        r = rng.random()
        if r < 0.65:
            ops.append(("set", gen_key(rng), gen_value(rng)))
        elif r < 0.85:
            ops.append(("del", rng.choice(KEYS)))
        else:
            ops.append(("merge", [(gen_key(rng), gen_value(rng)) for _ in range(rng.randrange(4))]))
    return dict(cap=cap, vlimit=vlimit, init=init, imm=imm, ops=ops)


# ----------------------------------------------------------------------------- encoding
class Enc:
    def __init__(self):
        self.floats = {}

    def fl(self, f):
        return self.floats.setdefault(repr(f), len(self.floats))

    def prim(self, v):
        if type(v) is bool:
            return "(PBool %s)" % L.b(v)
        if isinstance(v, str):
            return "(PStr %s)" % L.s(v)
        if isinstance(v, int):
            return "(PInt %s)" % L.z(v)
        if isinstance(v, float):
            return "(PFloat %s)" % L.z(self.fl(v))
        if isinstance(v, bytes):
            try:
                return "(PBytes (Some %s))" % L.s(v.decode())
            except UnicodeDecodeError:
                return "(PBytes None)"
        return None

    def val(self, v):
        p = self.prim(v)
        if p is not None:
            return "(VPrim %s)" % p
        if isinstance(v, (list, tuple)):
            el = []
            for e in v:
                if e is None:
                    el.append("ENone")
                else:
                    pe = self.prim(e)
                    el.append("(EPrim %s)" % pe if pe is not None else "EBad")
            return "(VSeq %s)" % L.lst(el)
        return "VOther"

    def key(self, k):
        return "(KStr %s)" % L.s(k) if isinstance(k, str) else "KBad"

    def kvs(self, kvs):
        return L.lst(L.pair(self.key(k), self.val(v)) for k, v in kvs)

    def cprim(self, v):
        if type(v) is bool:
            return "(CBool %s)" % L.b(v)
        if isinstance(v, str):
            return "(CStr %s)" % L.s(v)
        if isinstance(v, int):
            return "(CInt %s)" % L.z(v)
        if isinstance(v, float):
            return "(CFloat %s)" % L.z(self.fl(v))
        raise ValueError("stored value of unexpected type %r" % type(v))

    def cval(self, v):
        if isinstance(v, tuple):
            return "(CSeq %s)" % L.lst("None" if e is None else "(Some %s)" % self.cprim(e) for e in v)
        return "(CP %s)" % self.cprim(v)

    def items(self, items):
        return L.lst(L.pair(L.s(k), self.cval(v)) for k, v in items)


def jsonable(v):
    if isinstance(v, bytes):
        return {"bytes": v.hex()}
    if isinstance(v, (list, tuple)):
        return {type(v).__name__: [jsonable(e) for e in v]}
    if isinstance(v, (set, Obj)):
        return repr(v)
    if isinstance(v, dict):
        return {"dict": {str(k): jsonable(x) for k, x in v.items()}}
    return v


def case_json(c):
    return dict(cap=c["cap"], vlimit=c["vlimit"], imm=c["imm"],
                init=[[jsonable(k), jsonable(v)] for k, v in c["init"]],
                ops=[[o[0]] + ([jsonable(o[1]), jsonable(o[2])] if o[0] == "set" else
                               [o[1]] if o[0] == "del" else [[[jsonable(k), jsonable(v)] for k, v in o[1]]])
                     for o in c["ops"]])


# ----------------------------------------------------------------------------- oracle helpers
VALID = (bool, str, bytes, int, float)


def ref_clean(key, value, limit):
    """The cleaning rule as the property text states it (independent of the Coq model)."""
    if not (isinstance(key, str) and key):
        return None

    def one(x):
        if isinstance(x, bytes):
            try:
                x = x.decode()
            except UnicodeDecodeError:
                return None
        if isinstance(x, str) and limit is not None:
            x = x[:limit]
        return x
    if isinstance(value, VALID):
        return one(value)
    if isinstance(value, (list, tuple)):
        out, ty = [], None
        for e in value:
            e = None if e is None else one(e)
            if e is None:
                out.append(None)
                continue
            if type(e) not in VALID:
                return None
            if ty is None:
                ty = type(e)
            elif type(e) is not ty:
                return None
            out.append(e)
        return tuple(out)
    return None


def state_of(ba):
    return list(ba._dict.items()), ba.dropped


def valid_state(items, cap, vlimit):
    if cap is not None and len(items) > cap:
        return "holds %d > capacity %d" % (len(items), cap)
    for k, v in items:
        if not (isinstance(k, str) and k):
            return "invalid key stored %r" % (k,)
        vs = v if isinstance(v, tuple) else (v,)
        if isinstance(v, tuple):
            tys = {type(e) for e in v if e is not None}
            if len(tys) > 1:
                return "mixed sequence stored %r" % (v,)
        elif v is None:
            return "None stored"
        for e in vs:
            if e is None:
                continue
            if type(e) not in (bool, str, int, float):
                return "uncleaned value stored %r" % (e,)
            if isinstance(e, str) and vlimit is not None and len(e) > vlimit:
                return "string longer than limit stored %r" % (e,)
    return None


def oracle_set(before, after, cap, vlimit, imm, k, v, outcome):
    (bi, bd), (ai, ad) = before, after
    if imm:
        if outcome != "TypeError" or (bi, bd) != (ai, ad):
            return "frozen store accepted or changed on set"
        return None
    if outcome != "Ok":
        return "set on mutable store raised %s" % outcome
    if cap == 0:
        return None if (ai == bi and ad == bd + 1) else "capacity 0: set must only count a drop"
    c = ref_clean(k, v, vlimit)
    if c is None:
        return None if (ai, ad) == (bi, bd) else "invalid key/value disturbed the store"
    bkeys = [x for x, _ in bi]
    if k in bkeys:
        exp = [(x, y) for x, y in bi if x != k] + [(k, c)]
        return None if (ai == exp and ad == bd) else "re-set must move key to the end, no drop"
    if cap is not None and len(bi) == cap:
        exp = bi[1:] + [(k, c)]
        return None if (ai == exp and ad == bd + 1) else "full store must evict the OLDEST key and count one drop"
    exp = bi + [(k, c)]
    return None if (ai == exp and ad == bd) else "new key must be appended without drop"


def run_store_case(ctx, c):
    from deep.api.attributes import BoundedAttributes
    try:
        ba = BoundedAttributes(max_length=c["cap"], attributes=dict_from(c["init"]), immutable=c["imm"],
                               max_value_len=c["vlimit"])
    except Exception as e:   # constructor must accept any attribute map
        ctx.fail("BoundedAttributes constructor raised %r" % (e,), case_json(c), tag="ctor")
        return None
    bad = valid_state(state_of(ba)[0], c["cap"], c["vlimit"])
    if bad:
        ctx.fail("after construction: " + bad, case_json(c), tag="ctor-state")
    outs = []
    for op in c["ops"]:
        before = state_of(ba)
        try:
            if op[0] == "set":
                ba[op[1]] = op[2]
            elif op[0] == "del":
                del ba[op[1]]
            else:
                src = dict_from(op[1])
                # the source of a merge may itself be a store (with its own, looser limits): the TARGET's limits apply.
                # Done when the source would hold the pairs unchanged (valid keys, plain values), so the model's operation is the same.
                if src and len(outs) % 2 == 0 and all(
                        isinstance(k, str) and k and type(v) in (str, int, bool, float) for k, v in src.items()):
                    src = BoundedAttributes(attributes=src, immutable=(len(outs) % 3 == 0), max_value_len=None)
                ba.merge_in(src)
            out = "Ok"
        except TypeError:
            out = "TypeError"
        except KeyError:
            out = "KeyError"
        except Exception as e:
            ctx.fail("operation %r raised %r" % (op[0], e), case_json(c), tag="op-raise")
            return None
        outs.append(out)
        after = state_of(ba)
        msg = valid_state(after[0], c["cap"], c["vlimit"])
        if msg is None and op[0] == "set":
            msg = oracle_set(before, after, c["cap"], c["vlimit"], c["imm"], op[1], op[2], out)
        if msg is None and op[0] == "del":
            if c["imm"]:
                msg = None if (out == "TypeError" and before == after) else "frozen store accepted delete"
            elif op[1] in [k for k, _ in before[0]]:
                exp = [(k, v) for k, v in before[0] if k != op[1]]
                msg = None if (out == "Ok" and after == (exp, before[1])) else "delete must remove exactly that key"
            else:
                msg = None if (out == "KeyError" and before == after) else "delete of a missing key"
        if msg is None and op[0] == "merge" and c["imm"] and before != after:
            msg = "frozen store changed by merge_in"
        if msg:
            ctx.fail("store: " + msg, dict(case=case_json(c), op=case_json(dict(c, ops=[op]))["ops"][0],
                                            before=repr(before), after=repr(after)), tag="store:" + msg)
    items, dropped = state_of(ba)
    return outs, items, dropped


def dict_from(kvs):
    d = {}
    for k, v in kvs:
        try:
            d[k] = v
        except TypeError:
            pass
    return d


def dedupe(kvs):
    """dict semantics of the harness' own attribute maps: last value wins, first position kept."""
    return list(dict_from(kvs).items())


def store_literal(c, obs):
    e = Enc()
    outs, items, dropped = obs
    ops = []
    for op in c["ops"]:
        if op[0] == "set":
            ops.append("(OSet %s %s)" % (e.key(op[1]), e.val(op[2])))
        elif op[0] == "del":
            ops.append("(ODel %s)" % L.s(op[1]))
        else:
            ops.append("(OMerge %s)" % e.kvs(dedupe(op[1])))
    return ("{| sc_cap := %s; sc_vlimit := %s; sc_init := %s; sc_imm := %s; sc_ops := %s; sc_outs := %s; "
            "sc_items := %s; sc_dropped := %s |}") % (
        L.opt(None if c["cap"] is None else L.nat(c["cap"])), L.opt(None if c["vlimit"] is None else L.nat(c["vlimit"])),
        e.kvs(dedupe(c["init"])), L.b(c["imm"]), L.lst(ops),
        L.lst({"Ok": "ROk", "TypeError": "RTypeError", "KeyError": "RKeyError"}[o] for o in outs),
        e.items(items), L.nat(dropped))


# ----------------------------------------------------------------------------- resources
def gen_res_attrs(rng, n=None):
    keys = ["service.name", "process.executable.name", "telemetry.sdk.name", "a", "b", "c", "team", ""]
    out = []
    for _ in range(rng.choice([0, 1, 2, 4]) if n is None else n):
        k = rng.choice(keys)
        r = rng.random()
        if r < 0.6:
            v = rng.choice(["", "svc", "x y", "café", "a=b", "1,2"])
        elif r < 0.8:
            v = gen_prim(rng)
        else:
            v = gen_value(rng)
        if k == "process.executable.name" and not isinstance(v, str):
            # documented as a string attribute; Resource.create concatenates it (domain restriction, see DESIGN)
            v = "exe"
        out.append((k, v))
    return out


def gen_res_case(rng):
    env_attrs = [(k, v) for k, v in gen_res_attrs(rng) if isinstance(v, str) and k and v == v.strip()]
    env_name = rng.choice([None, None, "", "env-svc"])
    malformed = rng.random() < 0.2
    schema = rng.choice(["", "", "http://s1", "http://s2"])
    plugins = []
    for i in range(rng.choice([0, 1, 2, 3])):
        plugins.append(dict(attrs=gen_res_attrs(rng), schema=rng.choice(["", "", "", "http://s1", "http://s2"]),
                            order=rng.choice([0, 0, 1, 2]), mode=rng.choice(["ok"] * 6 + ["none"])))
    return dict(env_attrs=dedupe(env_attrs), env_name=env_name, malformed=malformed, attrs=gen_res_attrs(rng),
                schema=schema, plugins=plugins, via=rng.choice(["start", "direct"]))


_PLUG_MOD = "verif_c18_plugins"


def _install_plugins(plugins):
    from deep.api.plugin import ResourceProvider
    from deep.api.resource import Resource
    mod = types.ModuleType(_PLUG_MOD)
    names = []
    for i, p in enumerate(plugins):
        def make(p=p, i=i):
            class P(ResourceProvider):
                def resource(self):
                    if p["mode"] == "none":
                        return None
                    return Resource(dict_from(p["attrs"]), p["schema"])

                def order(self):
                    return p["order"]
            P.__name__ = "P%d" % i
            return P
        setattr(mod, "P%d" % i, make())
        names.append("%s.P%d" % (_PLUG_MOD, i))
    sys.modules[_PLUG_MOD] = mod
    return names


def run_res_case(ctx, c):
    import platform
    import deep.version
    from deep.api.resource import Resource
    old = {k: os.environ.get(k) for k in ("DEEP_RESOURCE_ATTRIBUTES", "DEEP_SERVICE_NAME")}
    items = ["%s=%s" % (k, quote(v, safe="")) for k, v in c["env_attrs"]]
    if c["malformed"]:
        items.insert(len(items) // 2, "novalue")
    try:
        if items:
            os.environ["DEEP_RESOURCE_ATTRIBUTES"] = ",".join(items)
        else:
            os.environ.pop("DEEP_RESOURCE_ATTRIBUTES", None)
        if c["env_name"] is not None:
            os.environ["DEEP_SERVICE_NAME"] = c["env_name"]
        else:
            os.environ.pop("DEEP_SERVICE_NAME", None)
        plugin_expect = []
        if c["via"] == "start":
            from deep.api.deep import Deep
            from deep.config.config_service import ConfigService
            from deep.config.tracepoint_config import TracepointConfigService
            names = _install_plugins(c["plugins"])
            cfg = ConfigService({"PLUGINS": names, "SERVICE_SECURE": "False", "APP_ROOT": "/app"},
                                tracepoints=TracepointConfigService())
            d = Deep(cfg)
            d.trigger_handler.start = lambda: None
            d.grpc.start = lambda: None
            d.poll.start = lambda: None
            # Deep.start builds its resource with Resource.create() (no code attributes)
            c = dict(c, attrs=[], schema="")
            try:
                d.start()
            finally:
                d.task_handler._pool.shutdown(wait=False)
            res = cfg.resource
            loaded = [type(p).__name__ for p in cfg.plugins]
            builtin = [("PythonPlugin", dict(attrs=[("python_version", platform.python_version())], schema="",
                                             order=0, mode="ok"))] if "PythonPlugin" in loaded else []
            allp = builtin + [("P%d" % i, p) for i, p in enumerate(c["plugins"])]
            allp.sort(key=lambda np: np[1]["order"] or 0)
            plugin_expect = [p for _, p in allp if p["mode"] == "ok"]
            # resource providers among the loaded plugins, in loaded order, must be exactly these
            got = [n for n in loaded if n == "PythonPlugin" or (n[0] == "P" and n[1:].isdigit())]
            if got != [n for n, _ in allp]:
                ctx.skip("plugin order differs from expectation (C20's business): %r" % (got,))
                return None
        else:
            a_before = None
            res = Resource.create(dict_from(c["attrs"]), c["schema"] or None)
            for p in c["plugins"]:
                if p["mode"] != "ok":
                    continue
                other = Resource(dict_from(p["attrs"]), p["schema"])
                a_before = (list(res.attributes._dict.items()), res.schema_url)
                b_before = (list(other.attributes._dict.items()), other.schema_url)
                new = res.merge(other)
                if (list(res.attributes._dict.items()), res.schema_url) != a_before or \
                        (list(other.attributes._dict.items()), other.schema_url) != b_before:
                    ctx.fail("Resource.merge modified an operand", c, tag="merge-mutates")
                # key-by-key override (property text), when the schemas are compatible
                if not (res.schema_url and other.schema_url and res.schema_url != other.schema_url):
                    for k, v in a_before[0]:
                        exp = dict(b_before[0]).get(k, v)
                        if new.attributes.get(k) != exp:
                            ctx.fail("merge: key %r has %r, later source says %r" % (k, new.attributes.get(k), exp), c,
                                     tag="merge-precedence")
                res = new
                plugin_expect.append(p)
    finally:
        for k, v in old.items():
            if v is None:
                os.environ.pop(k, None)
            else:
                os.environ[k] = v
    attrs = list(res.attributes._dict.items())
    keys = [k for k, _ in attrs]
    for k in ("telemetry.sdk.language", "telemetry.sdk.name", "telemetry.sdk.version", "service.name"):
        if k not in keys:
            ctx.fail("resource lacks mandatory key %s" % k, c, observed=repr(attrs), tag="mandatory:" + k)
    overridden = any(k == "service.name" for p in plugin_expect for k, _ in p["attrs"])
    if not res.attributes.get("service.name") and not overridden:
        ctx.fail("resource has an empty service name", c, observed=repr(attrs), tag="mandatory:service.name")
    # the chain's expected values by the property text: last source holding a key wins
    # (only asserted when every schema in the chain is empty, where the text is unambiguous)
    if not c["schema"] and all(not p["schema"] for p in plugin_expect):
        expect = {}
        for src in ([("telemetry.sdk.language", "python"), ("telemetry.sdk.name", "deep"),
                     ("telemetry.sdk.version", deep.version.__version__)],
                    c["env_attrs"] + ([("service.name", c["env_name"])] if c["env_name"] else []),
                    c["attrs"]):
            for k, v in dedupe(src):
                cv = ref_clean(k, v, None)
                if cv is not None:
                    expect[k] = cv
        if not expect.get("service.name"):
            pe = expect.get("process.executable.name")
            expect["service.name"] = "unknown_service:" + (pe if pe else "python")
        for p in plugin_expect:
            for k, v in dedupe(p["attrs"]):
                cv = ref_clean(k, v, None)
                if cv is not None:
                    expect[k] = cv
        if dict(attrs) != expect:
            ctx.fail("resource chain: attributes differ from 'later source overrides earlier'", c,
                     observed=repr(attrs), required=repr(expect), tag="chain")
    env_map = list(c["env_attrs"]) + ([("service.name", c["env_name"])] if c["env_name"] else [])
    return dict(env=dedupe(env_map), attrs=dedupe(c["attrs"]), schema=c["schema"],
                plugins=[(dedupe(p["attrs"]), p["schema"]) for p in plugin_expect], items=attrs,
                out_schema=res.schema_url)


def res_literal(r):
    import deep.version
    e = Enc()
    dflt = [("telemetry.sdk.language", "python"), ("telemetry.sdk.name", "deep"),
            ("telemetry.sdk.version", deep.version.__version__)]
    return ("{| rc_dflt := %s; rc_env := %s; rc_attrs := %s; rc_schema := %s; rc_plugins := %s; rc_items := %s; "
            "rc_out_schema := %s |}") % (
        e.kvs(dflt), e.kvs(r["env"]), e.kvs(r["attrs"]), L.s(r["schema"]),
        L.lst(L.pair(e.kvs(a), L.s(s)) for a, s in r["plugins"]), e.items(r["items"]), L.s(r["out_schema"]))


# ----------------------------------------------------------------------------- entry points
def run(ctx):
    import logging
    from ..lib.quiet import quiet_logging
    quiet_logging()
    ctx.rule = ("store cases: random constructor (capacity in {None,0,1,2,3,5}, value limit, initial attributes, "
                "frozen flag) and 1..25 set/del/merge_in operations over keys {valid, empty, non-str} and values "
                "{bool,str,int,float,bytes ok/undecodable, homogeneous/mixed/None-holed sequences, invalid objects}; "
                "resource cases: DEEP_RESOURCE_ATTRIBUTES / DEEP_SERVICE_NAME environment x code attributes x schema "
                "x 0..3 resource-provider plugins, through Resource.create+merge or the real Deep.start. A case is "
                "non-trivial when at least one operation changed the store (or the resource has a non-default key); "
                "distinct = distinct canonical JSON of the case.")
    ctx.assumptions = [
        "floats are opaque to the cleaner (compared by repr); float-valued service names are not generated",
        "urllib.parse.unquote inverts quote(safe='') on the generated environment values",
        "Resource.merge's 'does not modify its operands' is decided on the implementation by the oracle; in the "
        "purely functional model it holds by construction",
    ]
    ctx.prove()
    n_store = 4000 if ctx.thorough else 700
    n_res = 1500 if ctx.thorough else 300
    lits, cj = [], []
    for _ in range(n_store):
        c = gen_store_case(ctx.rng)
        obs = run_store_case(ctx, c)
        j = case_json(c)
        changed = obs is not None and (obs[1] or obs[2])
        ctx.case(j, nontrivial=bool(changed), bucket="store cap=%s imm=%s" % (c["cap"], c["imm"]))
        if obs is not None:
            lits.append(store_literal(c, obs))
            cj.append(j)
    ctx.correspond("store", IMPORTS, "store_case", "check_store_case", lits, cj)
    lits, cj = [], []
    for _ in range(n_res):
        c = gen_res_case(ctx.rng)
        try:
            r = run_res_case(ctx, c)
        except Exception as e:
            ctx.fail("building the client resource raised %r" % (e,), jsonable_case(c), tag="resource-raise")
            r = None
        j = jsonable_case(c)
        ctx.case(j, nontrivial=bool(c["env_attrs"] or c["attrs"] or c["plugins"]), bucket="resource via=" + c["via"])
        if r is not None:
            lits.append(res_literal(r))
            cj.append(j)
    ctx.correspond("resource", IMPORTS, "res_case", "check_res_case", lits, cj)
    wide_resources(ctx)
    identified_on_the_wire(ctx)


def identified_on_the_wire(ctx):
    """What the resource holds is what the poll / snapshot message says: every attribute the store admitted (also instances of
    SUBCLASSES of the supported types: enum members with a str / int mixin, str / float subclasses) arrives with its value."""
    import enum
    from deep.api.resource import Resource
    from deep.grpc import convert_resource

    class Tier(enum.IntEnum):
        GOLD = 3

    class Region(str, enum.Enum):
        EU = "eu-west"

    class Name(str):
        pass

    class Ratio(float):
        pass
    attrs = {"service.name": Name("checkout"), "tier": Tier.GOLD, "region": Region.EU, "sample.ratio": Ratio(0.25), "canary": True,
             "plain": "x", "count": 7, "zones": (Name("a"), Name("b"))}
    res = Resource.create(dict(attrs))
    held = dict(res.attributes.items())
    wire = {kv.key: kv.value for kv in convert_resource(res).attributes}
    j = dict(on_the_wire=True, attributes={k: repr(v) for k, v in attrs.items()})
    ctx.case(j, nontrivial=True, bucket="resource-on-the-wire")
    for k, v in held.items():
        av = wire.get(k)
        which = None if av is None else av.WhichOneof("value")
        if which is None:
            ctx.fail("resource attribute %s=%r is held by the resource and arrives %s on the wire" % (
                k, v, "not at all" if av is None else "as a key without a value"), j, tag="wire-value-lost")
            continue
        got = getattr(av, which)
        if which == "array_value":
            got = tuple(getattr(x, x.WhichOneof("value")) for x in got.values)
        if got != v:
            ctx.fail("resource attribute %s=%r arrives as %r" % (k, v, got), j, tag="wire-value-differs")


def wide_resources(ctx):
    """However many keys the sources supply, the identity keys and every source's keys are there (later overriding)."""
    from deep.api.resource import Resource
    from deep.grpc import convert_resource
    for n_code, n_plugin in ((60, 10), (125, 2), (140, 30), (300, 300)):
        code = {"code.k%d" % i: "c%d" % i for i in range(n_code)}
        res = Resource.create(dict(code))
        plug = {"plug.k%d" % i: i for i in range(n_plugin)}
        plug["code.k0"] = "overridden"
        res = res.merge(Resource.create(dict(plug)) if False else Resource(dict(plug)))
        got = dict(res.attributes.items())
        wire = {kv.key for kv in convert_resource(res).attributes}
        j = dict(wide_resource=True, code_keys=n_code, plugin_keys=n_plugin, total=len(got))
        ctx.case(j, nontrivial=True, bucket="wide-resource")
        missing = [k for k in ("telemetry.sdk.language", "telemetry.sdk.name", "telemetry.sdk.version", "service.name") if k not in got or k not in wire]
        if missing:
            ctx.fail("with %d code and %d plugin attributes the resource lost its identity keys %r" % (n_code, n_plugin, missing), j,
                     tag="mandatory-evicted")
        lost = [k for k in list(code) + list(plug) if k not in got]
        if lost:
            ctx.fail("with %d code and %d plugin attributes %d supplied keys are missing from the resource (e.g. %r)" % (
                n_code, n_plugin, len(lost), lost[:3]), j, tag="keys-evicted")
        if got.get("code.k0") != "overridden":
            ctx.fail("a later source did not override the earlier one key by key: code.k0=%r" % (got.get("code.k0"),), j, tag="precedence")


def jsonable_case(c):
    return dict(env_attrs=c["env_attrs"], env_name=c["env_name"], malformed=c["malformed"], schema=c["schema"],
                via=c["via"], attrs=[[k, jsonable(v)] for k, v in c["attrs"]],
                plugins=[dict(p, attrs=[[k, jsonable(v)] for k, v in p["attrs"]]) for p in c["plugins"]])


def replay(ctx, data):
    ctx.fail("replay for C18 re-runs the whole seeded generation: use VERIF_SEED=%s check.py C18" % data.get("seed"))
