"""C04 -- rate limiting: fire_count, fire_period and the time window are never exceeded (engine E2/E5).

Tie: correspondence.  (a) sequential hit histories through the real TriggerHandler / ActionContext /
LocationAction under a virtual clock, compared inside Coq with Limiter.run; (b) N threads hitting one
tracepoint under FORCED schedules (each thread parks inside its condition expression and inside a
watch expression until the controller releases it), compared with the interleaving model Limiter.crun
under the same schedule."""
import threading

from ..lib import coqlit as L
from ..lib import e2
from .. import known

IMPORTS = ["Base", "Config", "Limiter"]
MS = 1_000_000


@known.matcher("window-args")
def _window_args(f):
    """window_start / window_end given as tracepoint ARGUMENTS (service or register_tracepoint): no action
    builder copies them into the action, so the window is never enforced."""
    return f.get("tag") == "window-args-ignored"


@known.matcher("clock-set-back")
def _clock_set_back(f):
    """exactly this history: a positive period, one collection, then a hit whose time lies at least a whole period BEFORE it"""
    c = f.get("case") or {}
    hits = c.get("hit_times_ms") or []
    return f.get("tag") == "stale-hit-positive-period" and len(hits) == 2 and c.get("fire_period_ms", 0) > 0 \
        and hits[0] - hits[1] >= c["fire_period_ms"]


def ref_int(v, dflt):
    """int(config value) as documented: numbers as they are, decimal text parsed, anything else -> default."""
    if v is None:
        return dflt
    if isinstance(v, int):
        return v
    t = v
    if t[:1] in "+-":
        t = t[1:]
    if t.isascii() and t.isdigit():
        return int(v)
    return dflt


def reference(count, period, ws, we, hits):
    """Independent reference limiter written from the property text."""
    fc, fp = ref_int(count, 1), ref_int(period, 1000)
    out, n, last = [], 0, None
    for ts, cond in hits:
        ok = (fc == -1 or n < fc)
        if ws and ts < ws:
            ok = False
        if we and ts > we:
            ok = False
        # "never two collections less than fire_period apart": without a period (0 or less) there is nothing to keep apart, also for a
        # hit that carries a time BEFORE the last collection (a thread that was overtaken, a clock that was set back)
        if last is not None and fp > 0 and ts - last < fp * MS:
            ok = False
        if ok and cond:
            n += 1
            last = ts
            out.append(True)
        else:
            out.append(False)
    return out


def gen_arg(rng, kind):
    r = rng.random()
    if kind == "count":
        vals = ["1", "2", "3", "5", "-1", "0", "10", "+2", "-2", "-3", "-17"]     # below -1 is NOT the unlimited sentinel
    else:
        vals = ["0", "1", "10", "1000", "5", "100", "+3", "-1", "-250"]
    if r < 0.6:
        return rng.choice(vals)
    if r < 0.72:
        return int(rng.choice(vals))
    if r < 0.82:
        return None
    return rng.choice(["abc", "", "1.5", "0x10", "--1", "ten", "1e3", "-"])


def seq_cases(ctx, world, clock, n):
    from deep.api.tracepoint.trigger import LocationAction, Trigger, LineLocation, Location
    rng = ctx.rng
    lits, cj = [], []
    for k in range(n):
        count, period = gen_arg(rng, "count"), gen_arg(rng, "period")
        fp = ref_int(period, 1000)
        wmode = rng.choice(["none"] * 3 + ["start", "end", "both"])
        t = e2.BASE_NS
        span = max(fp, 1) * MS * 6
        ws = t + rng.randrange(span) if wmode in ("start", "both") else 0
        we = (max(ws, t) + rng.randrange(span)) if wmode in ("end", "both") else 0
        hits = []
        last_fire_guess = t
        for i in range(rng.choice([1, 3, 6, 12, 25, 40 if ctx.thorough else 25])):
            r = rng.random()
            if r < 0.35:
                t = last_fire_guess + fp * MS + rng.choice([-1, 0, 0, 1])     # on / around the period boundary
            elif r < 0.5:
                t = t                                                         # same instant
            elif r < 0.58:
                t = t - rng.choice([1, 1000, MS, 5 * MS])                     # a time BEFORE the previous hit's (clock set back / overtaken)
            else:
                t = t + rng.choice([1, 1000, MS // 2, MS, fp * MS // 2 + 1, fp * MS, 3 * fp * MS + 7])
            if (ws or we) and rng.random() < 0.3:
                t = rng.choice([x for x in (ws, ws - 1, ws + 1, we, we - 1, we + 1) if x > 1])      # on / around the window's ends
            if t <= 0:
                t = 1
            cond = rng.random() < 0.8
            hits.append((t, cond))
            if cond:
                last_fire_guess = t
        conf = {"frame_type": "no_frame", "watches": []}
        if count is not None:
            conf["fire_count"] = count
        if period is not None:
            conf["fire_period"] = period
        if ws:
            conf["window_start"] = ws
        if we:
            conf["window_end"] = we
        action = LocationAction("tp", "c", conf, LocationAction.ActionType.Snapshot)
        world.install([Trigger(LineLocation("m.py", 7, Location.Position.START), [action])])
        world.push.snapshots.clear()
        obs, escaped = [], None
        for ts, cond in hits:
            clock.now = ts
            before = len(world.push.snapshots)
            _, exc = world.event(e2.mk_frame("/app/m.py", "f", 7, {"c": cond}), "line")
            escaped = escaped or exc
            obs.append(len(world.push.snapshots) > before)
        cnt, last = e2.stats_of(action)
        j = dict(fire_count=count, fire_period=period, window=[ws, we], hits=[[ts - e2.BASE_NS, c] for ts, c in hits])
        ctx.case(j, nontrivial=any(obs) and not all(obs), bucket="count=%r" % (count,))
        if escaped is not None:
            ctx.fail("the handler raised %r" % (escaped,), j, tag="raised")
            continue
        want = reference(count, period, ws, we, hits)
        if obs != want:
            i = [a != b for a, b in zip(obs, want)].index(True)
            ctx.fail("hit %d at +%d ns (condition %s): collected=%s, the limits say %s" % (
                i, hits[i][0] - e2.BASE_NS, hits[i][1], obs[i], want[i]), dict(j, observed=obs, required=want),
                tag="over-limit" if obs[i] else "not-live")
        lits.append("{| lc_count := %s; lc_period := %s; lc_ws := %s; lc_we := %s; lc_hits := %s; lc_obs := %s; "
                    "lc_obs_cnt := %s; lc_obs_last := %s |}" % (
                        e2.argv(count), e2.argv(period), L.z(ws), L.z(we),
                        L.lst("{| h_ts := %s; h_cond := %s |}" % (L.z(ts), L.b(c)) for ts, c in hits),
                        L.lst(L.b(x) for x in obs), L.z(cnt), L.z(last)))
        cj.append(j)
    ctx.correspond("limiter", IMPORTS, "lim_case", "check_lim_case", lits, cj, shard=200)


def window_args_case(ctx, world, clock):
    """The window given as tracepoint arguments, through build_trigger (the only way a user can give it)."""
    from deep.api.tracepoint.trigger import build_trigger
    trig = build_trigger("tp-w", "m.py", 7, {"window_start": "1", "window_end": "2", "fire_count": "-1", "fire_period": "0"}, [], [])
    world.install([trig])
    world.push.snapshots.clear()
    clock.now = e2.BASE_NS
    world.event(e2.mk_frame("/app/m.py", "f", 7, {}), "line")
    j = dict(args={"window_start": "1", "window_end": "2"}, hit_at_ns=e2.BASE_NS)
    ctx.case(j, bucket="window-args")
    if world.push.snapshots:
        ctx.fail("a tracepoint configured with window_start=1, window_end=2 (any unit: the hit is in 2023) collected; "
                 "window arguments are not copied into the action", j, tag="window-args-ignored")


def clock_set_back_case(ctx, world, clock):
    """A positive period, a collection, then a hit that carries a time MORE than a period before it (the clock was set back, or the
    thread read the clock long before it claimed its fire): the two collections would be more than a period apart - the limits allow
    the hit, so it has to collect."""
    from deep.api.tracepoint.trigger import LocationAction, Trigger, LineLocation, Location
    for period_ms, first_ms, second_ms in ((1000, 10_000, 5_000), (1, 50, 2)):
        action = LocationAction("tp-back", None, {"frame_type": "no_frame", "watches": [], "fire_count": "-1", "fire_period": str(period_ms)},
                                LocationAction.ActionType.Snapshot)
        world.install([Trigger(LineLocation("m.py", 7, Location.Position.START), [action])])
        world.push.snapshots.clear()
        got = []
        for t_ms in (first_ms, second_ms):
            clock.now = e2.BASE_NS + t_ms * MS
            before = len(world.push.snapshots)
            world.event(e2.mk_frame("/app/m.py", "f", 7, {}), "line")
            got.append(len(world.push.snapshots) > before)
        j = dict(fire_period_ms=period_ms, hit_times_ms=[first_ms, second_ms], collected=got)
        ctx.case(j, nontrivial=True, bucket="clock-set-back")
        if got != [True, True]:
            ctx.fail("fire_period=%d ms, hits at +%d ms and then at +%d ms (%d ms BEFORE the first): collected %r; the two collections are "
                     "more than a period apart, the limits allow the second hit" % (period_ms, first_ms, second_ms, first_ms - second_ms, got),
                     j, kind="history", tag="stale-hit-positive-period")


# ----------------------------------------------------------------------------- forced schedules
class Gates:
    def __init__(self):
        self.cv = threading.Condition()
        self.waiting = {}       # (thread index, stage) -> True while parked
        self.open = set()

    def park(self, i, stage, value):
        with self.cv:
            self.waiting[(i, stage)] = True
            self.cv.notify_all()
            while (i, stage) not in self.open:
                self.cv.wait(5)
        return value

    def wait_parked(self, i, stage, done):
        with self.cv:
            self.cv.wait_for(lambda: self.waiting.get((i, stage)) or done[i], timeout=10)
            return bool(self.waiting.get((i, stage)))

    def release(self, i, stage):
        with self.cv:
            self.open.add((i, stage))
            self.cv.notify_all()


def conc_cases(ctx, world, clock, n):
    from deep.api.tracepoint.trigger import LocationAction, Trigger, LineLocation, Location
    rng = ctx.rng
    lits, cj = [], []
    for k in range(n):
        nt = rng.choice([2, 2, 3, 4 if ctx.thorough else 3])
        count = rng.choice(["1", "1", "2", "-1", "3"])
        period = rng.choice(["0", "0", "1", "1000"])
        ths = [(e2.BASE_NS + rng.choice([0, 1, MS // 2, MS, 2 * MS]) + i, rng.random() < 0.85) for i in range(nt)]
        # a schedule is an order of the 3 controller actions of each thread: start (limits check, parks in the
        # condition), go1 (condition result, atomic claim, parks in the watch), go2 (collection completes)
        acts = []
        remaining = {i: ["start", "go1", "go2"] for i in range(nt)}
        while any(remaining.values()):
            i = rng.choice([i for i in remaining if remaining[i]])
            acts.append((i, remaining[i].pop(0)))
        gates = Gates()
        conf = {"frame_type": "no_frame", "watches": ["gate(i, 'w', 0)"], "fire_count": count, "fire_period": period}
        action = LocationAction("tp", "gate(i, 'c', c)", conf, LocationAction.ActionType.Snapshot)
        world.install([Trigger(LineLocation("m.py", 7, Location.Position.START), [action])])
        world.push.snapshots.clear()
        done = [False] * nt
        errs = []

        def body(i):
            clock.per_thread[threading.get_ident()] = ths[i][0]
            try:
                world.handler.trace_call(e2.mk_frame("/app/m.py", "f", 7, {"i": i, "c": ths[i][1], "gate": gates.park}), "line", None)
            except BaseException as e:
                errs.append(e)
            finally:
                done[i] = True
                with gates.cv:
                    gates.cv.notify_all()
        threads = [threading.Thread(target=body, args=(i,), daemon=True) for i in range(nt)]
        sched = []
        for i, what in acts:
            if what == "start":
                threads[i].start()
                gates.wait_parked(i, "c", done)
                sched.append(i)                         # PStart: limits check
            elif what == "go1":
                gates.release(i, "c")
                gates.wait_parked(i, "w", done)
                sched += [i, i]                         # PChecked: condition; PCondOk: atomic claim
            else:
                gates.release(i, "w")
                threads[i].join(10)
                sched.append(i)                         # PAcquired: collect
        for t in threads:
            t.join(10)
        clock.per_thread.clear()
        ncoll = len(world.push.snapshots)
        cnt, _ = e2.stats_of(action)
        j = dict(fire_count=count, fire_period=period, threads=[[ts - e2.BASE_NS, c] for ts, c in ths],
                 controller=["%d:%s" % a for a in acts], collected=ncoll)
        ctx.case(j, nontrivial=sum(1 for _, c in ths if c) >= 2, bucket="threads=%d count=%s" % (nt, count))
        if errs or not all(done):
            ctx.skip("forced schedule did not complete (%r)" % (errs[:1],))
            continue
        fc = int(count)
        if fc != -1 and ncoll > fc:
            ctx.fail("%d collections with fire_count=%d when %d threads hit the tracepoint together (schedule %s)" % (
                ncoll, fc, nt, j["controller"]), j, kind="schedule", tag="conc-count")
        # liveness, where the limits are out of the question (no count limit, no period): every hit whose condition holds collects,
        # however the threads interleave
        if fc == -1 and int(period) == 0 and ncoll != sum(1 for _, c in ths if c):
            ctx.fail("fire_count=-1 and fire_period=0 allow every hit; %d threads hit with a true condition and %d collected (schedule %s, "
                     "hit times %s)" % (sum(1 for _, c in ths if c), ncoll, j["controller"], [ts - e2.BASE_NS for ts, _ in ths]), j,
                     kind="schedule", tag="conc-live")
        times = sorted(s.ts_nanos for s in world.push.snapshots)
        for a, b in zip(times, times[1:]):
            if b - a < int(period) * MS:
                ctx.fail("two collections %d ns apart with fire_period=%s ms under concurrent hits" % (b - a, period), j,
                         kind="schedule", tag="conc-period")
                break
        lits.append("{| cc_count := %s; cc_period := %s; cc_threads := %s; cc_sched := %s; cc_obs_collected := %s; cc_obs_cnt := %s |}" % (
            e2.argv(count), e2.argv(period), L.lst(L.pair(L.z(ts), L.b(c)) for ts, c in ths),
            L.lst(L.nat(i) for i in sched), L.nat(ncoll), L.z(cnt)))
        cj.append(j)
    ctx.correspond("interleaving", IMPORTS, "conc_case", "check_conc_case", lits, cj, shard=200)


def inner_race(ctx, world, clock, n):
    """Two threads INSIDE the limit check at the same time.  After one earlier fire, two threads hit exactly one
    period later; the action's configuration parks each thread where the period is looked up, i.e. after the
    last fire time has been read.  With the check-and-record step atomic only one of them can be there while the
    other waits for the lock; whatever the code does, the two hits must not both collect."""
    from deep.api.tracepoint.trigger import LocationAction, Trigger, LineLocation, Location
    rng = ctx.rng
    for k in range(n):
        period = rng.choice([1, 5, 1000])
        count = rng.choice(["-1", "3", "2"])
        parked = {}
        cv = threading.Condition()
        opened = set()
        armed = [False]

        class GateDict(dict):
            def get(self, key, default=None):
                if armed[0] and key == "fire_period":
                    ident = threading.get_ident()
                    with cv:
                        nth = parked.get(ident, 0) + 1
                        parked[ident] = nth
                        cv.notify_all()
                        cv.wait_for(lambda: (ident, nth) in opened, timeout=5)
                return dict.get(self, key, default)
        conf = GateDict({"frame_type": "no_frame", "watches": [], "fire_count": count, "fire_period": str(period)})
        action = LocationAction("tp", None, conf, LocationAction.ActionType.Snapshot)
        world.install([Trigger(LineLocation("m.py", 7, Location.Position.START), [action])])
        world.push.snapshots.clear()
        t0 = e2.BASE_NS
        clock.now = t0
        world.event(e2.mk_frame("/app/m.py", "f", 7, {}), "line")          # the earlier fire
        first = len(world.push.snapshots)
        armed[0] = True
        hit = t0 + period * MS
        idents = {}

        def body(i):
            idents[i] = threading.get_ident()
            clock.per_thread[threading.get_ident()] = hit + i
            world.handler.trace_call(e2.mk_frame("/app/m.py", "f", 7, {}), "line", None)
        ths = [threading.Thread(target=body, args=(i,), daemon=True) for i in range(2)]
        for t in ths:
            t.start()
        # release every parked thread, round after round, until both hits are over; a thread waiting for the
        # lock is simply not parked yet
        import time as _t
        end = _t.time() + 8
        while any(t.is_alive() for t in ths) and _t.time() < end:
            with cv:
                cv.wait(0.05)
                # let both threads reach their parking point before releasing anybody
                waiting = [(ident, nth) for ident, nth in parked.items() if (ident, nth) not in opened]
            _t.sleep(0.05)
            with cv:
                waiting = [(ident, nth) for ident, nth in parked.items() if (ident, nth) not in opened]
                for w in waiting:
                    opened.add(w)
                cv.notify_all()
        for t in ths:
            t.join(2)
        armed[0] = False
        clock.per_thread.clear()
        extra = len(world.push.snapshots) - first
        j = dict(fire_count=count, fire_period_ms=period, earlier_fire=True, two_threads_hit_at="last fire + one period (+0 / +1 ns)",
                 collections_by_the_two=extra)
        ctx.case(j, bucket="inner-race")
        if first != 1:
            ctx.skip("inner race: the earlier hit did not collect")
            continue
        if extra > 1:
            ctx.fail("two threads inside the limit check together: both collected, %d ns apart, with fire_period=%d ms" % (1, period), j,
                     kind="schedule", tag="conc-period")


def run(ctx):
    import logging
    from ..lib.quiet import quiet_logging
    quiet_logging()
    ctx.rule = ("(a) hit histories (1-40 hits; times on / 1 ns around the period boundary, repeated instants, long gaps; "
                "condition true 80%) x fire_count/fire_period as decimal text, numbers, absent or unparsable text x window "
                "(none / start / end / both, as the action holds it) through the real handler under a virtual clock; "
                "(b) 2-4 threads hitting one tracepoint under forced schedules (park in the condition, park in a watch). "
                "Non-trivial: some hits collect and some do not / at least two threads with a true condition.")
    ctx.assumptions = [
        "hit times are positive (time_ns since 1970); 0 is the 'never fired' marker of the implementation",
        "fire_count / fire_period texts are plain decimal integers (optional sign) or not integers at all; blank-padded "
        "or underscore-separated numerals, which Python's int() also accepts, are outside the generated domain",
        "threads switch only where the harness parks them (condition and watch evaluation); the GIL makes the steps "
        "between two parking points atomic with respect to the other parked threads",
    ]
    ctx.prove()
    clock = e2.Clock().install()
    world = e2.World(logger=False, spans=0, metrics=0)
    try:
        seq_cases(ctx, world, clock, 2500 if ctx.thorough else 400)
        window_args_case(ctx, world, clock)
        clock_set_back_case(ctx, world, clock)
        conc_cases(ctx, world, clock, 400 if ctx.thorough else 60)
        inner_race(ctx, world, clock, 30 if ctx.thorough else 6)
    finally:
        clock.restore()
        world.clear_pending()


def replay(ctx, data):
    ctx.fail("replay re-runs the seeded generation: VERIF_SEED=%s check.py C04" % data.get("seed"))
