"""C02 -- a snapshot truthfully describes the paused frame (engine E1).

Tie: correspondence on (a) synthetic frame chains holding generated object graphs, through the real
TriggerHandler.trace_call, compared inside Coq with Collector.snapshot (table, frame variables,
watches) and Frames.frames_of (file / short path / function / line / class / app flag / which frames
carry variables); (b) live generated programs run under sys.settrace(handler.trace_call) with an
independent recorder that reads frame.f_locals and the f_back chain at the tracepoint."""
import os
import sys
import threading

from ..lib import coqlit as L
from ..lib import e1, objgen

CFG = dict(root="/app", incl=["/other/inc"], excl=["/app/lib"])


def ref_app(file):
    """is_app_frame, written from the documentation: exclude wins, then include, then app root."""
    for p in [sys.exec_prefix] + CFG["excl"]:
        if file.startswith(p):
            return False, p
    for p in CFG["incl"]:
        if file.startswith(p):
            return True, p
    if file.startswith(CFG["root"]):
        return True, CFG["root"]
    return False, None


def view_of(obs):
    """What a snapshot says (frames, names, types, texts, structure), without this run's ids."""
    tbl = {e["vid"]: e for e in obs["table"]}

    def ent(vid, depth=0):
        e = tbl.get(vid)
        if e is None or depth > 5:
            return None
        return (e["ty"], e["val"], e["trunc"], tuple((c["name"], ent(c["vid"], depth + 1)) for c in e["children"]))
    return ([(f["file"], f["short"], f["func"], f["line"], f["cls"], f["app"], [(v["name"], ent(v["vid"])) for v in f["vars"]]) for f in obs["frames"]],
            [(w["expr"], w["error"], None if w["ref"] is None else ent(w["ref"]["vid"])) for w in obs["watches"]])


def oracle(ctx, case, heap, snap, obs, desc, tp_id="tp-0", args=None, live=False):
    lim = case["limits"]
    flags = e1.collect_flags(case)
    # --- frames: real call stack, in order
    if len(obs["frames"]) != len(case["frames"]):
        ctx.fail("snapshot has %d frames, the call stack has %d" % (len(obs["frames"]), len(case["frames"])), desc, tag="frame-count")
        return
    for i, (f, fo) in enumerate(zip(case["frames"], obs["frames"])):
        slf = f["locals"].get("self")
        cls = type(slf).__name__ if slf is not None else None
        app, m = ref_app(f["file"])
        short = f["file"][len(m):] if m is not None else f["file"]
        want = dict(file=f["file"], func=f["func"], line=f["line"], cls=cls, app=app, short=short)
        got = {k: fo[k] for k in want}
        if got != want:
            ctx.fail("frame %d described as %r, the program is at %r" % (i, got, want), desc, tag="frame-meta")
        if not flags[i] and fo["vars"]:
            ctx.fail("frame %d carries variables although frame_type=%s" % (i, case["frame_type"]), desc, tag="frame-type")
    # --- variables of the selected frames: exactly the locals (when no limit cuts them)
    tbl = {e["vid"]: e for e in obs["table"]}
    total = len(heap.objs)
    unlimited = lim["max_vars"] >= total + 2 and lim["max_depth"] >= 2
    for i, (f, fo) in enumerate(zip(case["frames"], obs["frames"])):
        if not flags[i]:
            continue
        names = [v["name"] for v in fo["vars"]]
        if unlimited and sorted(names) != sorted(f["locals"].keys()):
            ctx.fail("frame %d lists variables %s, the locals are %s" % (i, sorted(names), sorted(f["locals"].keys())), desc,
                     tag="locals-set")
        for v in fo["vars"]:
            if v["name"] not in f["locals"]:
                ctx.fail("frame %d lists a variable %r that is not a local" % (i, v["name"]), desc, tag="locals-extra")
                continue
            ent = tbl.get(v["vid"])
            if ent is None:
                continue    # closure is C07
            o = f["locals"][v["name"]]
            if ent["oid"] != heap.of(o):
                ctx.fail("frame variable %r resolves to another object than the local holds" % v["name"], desc, tag="wrong-object")
    # --- entries: type, value text, identity, children by kind
    for e in obs["table"]:
        rec = heap.objs[e["oid"]] if e["oid"] is not None else None
        if rec is None:
            ctx.fail("entry %d (hash %s) is no object of the program" % (e["vid"], e["hash"]), desc, tag="unrelated")
            continue
        if e["ty"] != rec["ty"]:
            ctx.fail("entry type %r for an object of type %r" % (e["ty"], rec["ty"]), desc, tag="type")
        if not rec["unprintable"]:
            if e["val"] != rec["text"][:lim["max_str"]] or e["trunc"] != (len(rec["text"]) > lim["max_str"]):
                ctx.fail("entry value %r (truncated=%s) for text %r, limit %d" % (e["val"][:40], e["trunc"], rec["text"][:40], lim["max_str"]),
                         desc, tag="value")
        if str(id(rec["obj"])) != str(e["hash"]):
            ctx.fail("entry identity is not the object's identity", desc, tag="identity")
        kids = rec["children"]
        if e["children"]:
            if rec["kind"] == "seq":
                want = [str(k) for k in range(min(len(kids), lim["max_coll"]))]
                got = [c["name"] for c in e["children"]]
                if got != (want if unlimited else want[:len(got)]):
                    ctx.fail("%s children are named %s, expected indexes %s" % (e["ty"], [c["name"] for c in e["children"]], want),
                             desc, tag="children-seq")
                for c, (_, x) in zip(e["children"], kids):
                    ce = tbl.get(c["vid"])
                    if ce is not None and ce["oid"] != heap.of(x):
                        ctx.fail("element %s of %s resolves to another object" % (c["name"], e["ty"]), desc, tag="wrong-object")
            elif rec["kind"] in ("dict", "obj"):
                want = []
                for n, _ in kids:
                    pre = "_" + rec["ty"]
                    want.append((n[len(pre):], n) if rec["kind"] == "obj" and n.startswith(pre) else (n, None))
                got = [(c["name"], c["orig"]) for c in e["children"]]
                if got != (want if unlimited else want[:len(got)]):
                    ctx.fail("%s children are %s, the object holds %s" % (e["ty"], got, want), desc, tag="children-named")
                for c, (_, x) in zip(e["children"], kids):
                    ce = tbl.get(c["vid"])
                    if ce is not None and ce["oid"] != heap.of(x):
                        ctx.fail("member %s of %s resolves to another object" % (c["name"], e["ty"]), desc, tag="wrong-object")
            else:
                ctx.fail("a %s (no children by kind) has children %s" % (e["ty"], [c["name"] for c in e["children"]]), desc,
                         tag="children-leaf")
    # --- watches
    if not live:
        exprs = [w for w, _ in case["watches"]]
        if [w["expr"] for w in obs["watches"]][:len(exprs)] != exprs:
            ctx.fail("watch expressions %s reported as %s" % (exprs, [w["expr"] for w in obs["watches"]]), desc, tag="watch-expr")
        for (w, val), wo in zip(case["watches"], obs["watches"]):
            if wo["ref"] is not None:
                ent = tbl.get(wo["ref"]["vid"])
                if ent is not None and ent["oid"] != heap.of(val):
                    ctx.fail("watch %r resolves to another object than the expression's value" % w, desc, tag="watch-value")
    # --- tracepoint identity and arguments
    tp = snap.tracepoint
    top = case["frames"][0]
    if tp.id != tp_id or tp.path != os.path.basename(top["file"]) or tp.line_no != top["line"]:
        ctx.fail("tracepoint reported as (%r, %r, %r), configured (%r, %r, %r)" % (
            tp.id, tp.path, tp.line_no, tp_id, os.path.basename(top["file"]), top["line"]), desc, tag="tracepoint")
    if args is not None:
        for k, v in args.items():
            if tp.args.get(k) != v:
                ctx.fail("tracepoint argument %r reported as %r, configured %r" % (k, tp.args.get(k), v), desc, tag="tp-args")
    if list(tp.watches) != [w for w, _ in case["watches"]]:
        ctx.fail("tracepoint watches reported as %r" % (list(tp.watches),), desc, tag="tp-watches")


def frames_literal(case, obs):
    # the TEXT of the argument goes to Coq (Frames.frame_type_of_text reads it; None = the argument is absent)
    ft = "(frame_type_of_text %s)" % L.opt(None if case["frame_type"] is None else L.s(case["frame_type"]))

    def meta(f):
        slf = f["locals"].get("self")
        cls = type(slf).__name__ if slf is not None else None
        return "{| fm_file := %s; fm_func := %s; fm_line := %s; fm_class := %s |}" % (
            L.s(f["file"]), L.s(f["func"]), L.z(f["line"]), L.opt(None if cls is None else L.s(cls)))

    def out(fo):
        return "{| fo_file := %s; fo_short := %s; fo_func := %s; fo_line := %s; fo_class := %s; fo_app := %s |}" % (
            L.s(fo["file"]), L.s(fo["short"]), L.s(fo["func"]), L.z(fo["line"]),
            L.opt(None if fo["cls"] is None else L.s(fo["cls"])), L.b(fo["app"]))
    return ("{| fk_excl := VText %s; fk_incl := VText %s; fk_exec_prefix := %s; fk_root := %s; fk_stack := %s; fk_type := %s; "
            "fk_obs := %s; fk_obs_has_vars := %s; fk_locals_empty := %s |}") % (
        L.s(",".join(CFG["excl"])), L.s(",".join(CFG["incl"])), L.s(sys.exec_prefix), L.s(CFG["root"]),
        L.lst(meta(f) for f in case["frames"]), ft, L.lst(out(fo) for fo in obs["frames"]),
        L.lst(L.b(bool(fo["vars"])) for fo in obs["frames"]), L.lst(L.b(not f["locals"]) for f in case["frames"]))


# ----------------------------------------------------------------------------- live programs
LIVE_TEMPLATE = '''
a = "module-level a"
extra = "module-level extra"
class Box:
    def __init__(self, v):
        self.v = v
        self._w = [v, v]
        self.__z = {{"k": v}}
    def get(self, extra):
        local_in_method = (self.v, extra)
        return local_in_method      # TP-METHOD
    def walk(self):
        def step(k):
            seen = (self.v, k)
            return seen             # TP-CLOSURE   (self is a free variable of this frame, not an argument)
        return [step(k) for k in range(2)]

def leaf(a, b, *rest, **kw):
    {decls}
    marker = 1                      # TP-LEAF
    return marker

def mid(n, box):
    acc = []
    for i in range(n):
        acc.append(leaf(i, box, i + 1, key=str(i)))
    r = box.get(acc)
    box.walk()
    return r

def main():
    shared = [1, 2, 3]
    b = Box(shared)
    out = mid({n}, b)
    return out
'''
DECLS = ["x = 5", "s = 'text' * {k}", "d = {{'a': a, 'b': [b]}}", "t = (a, rest, kw)", "st = {{1, 2}}", "f = 1.5", "n = None",
         "o = Box(a)", "big = list(range({k}))", "cyc = []; cyc.append(cyc)", "e = ValueError('bad', a)", "flag = a > 0"]


def live_cases(ctx, n):
    from deep.api.resource import Resource
    from deep.api.tracepoint.trigger import LocationAction, Trigger, LineLocation, Location
    from deep.config.config_service import ConfigService
    from deep.config.tracepoint_config import TracepointConfigService
    from deep.processor.trigger_handler import TriggerHandler
    rng = ctx.rng
    d = os.path.join(e1.coqrun_build(), "live_c02")
    os.makedirs(d, exist_ok=True)
    for k in range(n):
        decls = rng.sample(DECLS, rng.choice([1, 2, 4, 6]))
        src = LIVE_TEMPLATE.format(decls="\n    ".join(x.format(k=rng.choice([1, 3, 30])) for x in decls), n=rng.choice([1, 2, 3]))
        path = os.path.join(d, "prog_%d_%d.py" % (os.getpid(), k))
        with open(path, "w") as fh:
            fh.write(src)
        lines = src.split("\n")
        which = rng.choice(["TP-LEAF", "TP-METHOD", "TP-CLOSURE"])
        line = [i + 1 for i, t in enumerate(lines) if which in t][0]
        ft = rng.choice(["single_frame", "all_frame", "no_frame"])
        cfg = ConfigService({"APP_ROOT": os.path.dirname(path)}, tracepoints=TracepointConfigService())
        cfg.resource = Resource.create()
        push = e1.FakePush()
        handler = TriggerHandler(cfg, push)
        args = {"frame_type": ft, "fire_count": "-1", "fire_period": "0"}
        # watches naming a local that SHADOWS a module global, a pure global, and an expression over both
        watch_exprs = ["a", "extra", "(a, extra)"]
        conf = dict(args, watches=watch_exprs, stack_type="stack", log_msg=None)
        handler.new_config([Trigger(LineLocation(os.path.basename(path), line, Location.Position.START),
                                    [LocationAction("live-%d" % k, None, conf, LocationAction.ActionType.Snapshot)])])
        recorded = []

        def tracer(frame, event, arg, handler=handler, path=path, line=line, recorded=recorded):
            if frame.f_code.co_filename != path:
                return None
            if event == "line" and frame.f_lineno == line:
                # independent reading, BEFORE the agent looks: the chain of frames of this program and their locals
                chain = []
                f = frame
                while f is not None:
                    chain.append(dict(file=f.f_code.co_filename, func=f.f_code.co_name, line=f.f_lineno, locals=dict(f.f_locals)))
                    f = f.f_back
                recorded.append(chain)
            r = handler.trace_call(frame, event, arg)
            return tracer if r is not None else None
        glb = {"__name__": "prog"}
        code = compile(src, path, "exec")
        exec(code, glb)
        # run in a fresh thread: the agent renders the locals of EVERY frame of the stack it walks, so the
        # harness's own (large) frames are kept off that stack
        def body(glb=glb, tracer=tracer):
            sys.settrace(tracer)
            try:
                glb["main"]()
            finally:
                sys.settrace(None)
        th = threading.Thread(target=body)
        th.start()
        th.join()
        os.remove(path)
        j = dict(live=True, tracepoint=which, frame_type=ft, decls=decls)
        ctx.case(j, nontrivial=bool(push.snapshots), bucket="live " + ft)
        if len(push.snapshots) != len(recorded):
            ctx.fail("%d snapshots for %d arrivals at the tracepoint line" % (len(push.snapshots), len(recorded)), j, tag="live-count")
            continue
        for snap, chain in zip(push.snapshots, recorded):
            # the agent sees the whole interpreter stack (harness frames included); the recorder does too
            case = dict(frames=chain, watches=[], frame_type=ft,
                        limits=dict(max_vars=1000, max_coll=10, max_depth=5, max_str=1024))
            for f in chain:
                if f["locals"].get("self") is not None and not isinstance(f["locals"]["self"], object):
                    pass
            heap = objgen.Heap()
            for f in chain[:1] if ft != "all_frame" else chain:
                heap.add(f["locals"])
            obs = e1.observe(snap, heap)
            # frames: compare metadata for the whole chain, variables for the program's own frames only
            if len(obs["frames"]) != len(chain):
                ctx.fail("live: %d frames reported, stack depth %d" % (len(obs["frames"]), len(chain)), j, tag="frame-count")
                continue
            for i, (f, fo) in enumerate(zip(chain, obs["frames"])):
                slf = f["locals"].get("self")
                cls = slf.__class__.__name__ if slf is not None else None
                if (fo["file"], fo["func"], fo["line"], fo["cls"]) != (f["file"], f["func"], f["line"], cls):
                    ctx.fail("live: frame %d described as %r" % (i, (fo["file"], fo["func"], fo["line"], fo["cls"])), j, tag="frame-meta")
                carries = ft == "all_frame" or (ft == "single_frame" and i == 0)
                if not carries and fo["vars"]:
                    ctx.fail("live: frame %d carries variables with frame_type=%s" % (i, ft), j, tag="frame-type")
                if carries and f["file"] == path:
                    got = sorted(v["name"] for v in fo["vars"])
                    # budget 1000 is ample for these programs unless all_frame drags in interpreter frames
                    if ft == "single_frame" and got != sorted(f["locals"].keys()):
                        ctx.fail("live: frame %d lists %s, locals are %s" % (i, got, sorted(f["locals"].keys())), j, tag="locals-set")
            if ft == "single_frame":
                tbl = {e["vid"]: e for e in obs["table"]}
                for v in obs["frames"][0]["vars"]:
                    ent = tbl.get(v["vid"])
                    o = chain[0]["locals"].get(v["name"])
                    if ent is None:
                        ctx.fail("live: variable %r has no entry" % v["name"], j, tag="dangling")
                    elif ent["ty"] != type(o).__name__ or str(ent["hash"]) != str(id(o)):
                        ctx.fail("live: variable %r recorded as %s, the local is a %s" % (v["name"], ent["ty"], type(o).__name__), j,
                                 tag="type")
            # watches are evaluated against that same frame: its locals first, then its module's globals
            for w in snap.watches:
                try:
                    want = eval(w.expression, dict(glb), dict(chain[0]["locals"]))
                except BaseException as e:
                    want = e
                if w.error is not None:
                    ctx.fail("live: watch %r failed with %r, in the frame it evaluates to %r" % (w.expression, w.error, want), j, tag="watch-scope")
                    continue
                var = snap.var_lookup.get(w.result.vid)
                if var is None or var.type != type(want).__name__ or (type(want) in (str, int) and var.value != str(want)):
                    ctx.fail("live: watch %r reported as %s %r, in the paused frame it is %s %r" % (
                        w.expression, var.type if var else None, var.value if var else None, type(want).__name__, want), j, tag="watch-scope")
            if [w.expression for w in snap.watches] != watch_exprs:
                ctx.fail("live: watches reported %r, configured %r" % ([w.expression for w in snap.watches], watch_exprs), j, tag="watch-expr")
            tp = snap.tracepoint
            if tp.id != "live-%d" % k or tp.line_no != line or tp.path != os.path.basename(path):
                ctx.fail("live: tracepoint reported as (%r,%r,%r)" % (tp.id, tp.path, tp.line_no), j, tag="tracepoint")
            for a, v in args.items():
                if tp.args.get(a) != v:
                    ctx.fail("live: tracepoint argument %r reported as %r" % (a, tp.args.get(a)), j, tag="tp-args")


def run(ctx):
    import logging
    from ..lib.quiet import quiet_logging
    quiet_logging()
    ctx.rule = ("(a) synthetic frame chains (1-3 frames, files inside/outside app root, include and exclude prefixes, self "
                "present/absent) whose locals hold generated object graphs x limits x frame_type x 0-3 watches, through "
                "the real TriggerHandler.trace_call; (b) live generated programs (method + nested calls + loops, locals "
                "of a dozen kinds) under sys.settrace with an independent recorder of frame.f_locals / f_back at the "
                "tracepoint. Non-trivial: a non-empty variable table; distinct: distinct heap/limits description.")
    ctx.assumptions = [
        "id() is injective on the objects alive during one trigger (all generated objects are kept alive)",
        "the reader (harness/lib/objgen.py Heap) observes the same str()/len()/keys()/__dict__ as the agent (side-effect free dunders)",
        "the per-trigger time budget is not hit (virtual clock); watch values are supplied by the harness in place of eval()",
        "frame order within a snapshot: current frame first, then callers (f_back chain)",
    ]
    ctx.prove()
    saved = e1.install_clock()
    lits, cj, flits, fcj = [], [], [], []
    first_cases = []
    try:
        n = 2500 if ctx.thorough else 400
        for i in range(n):
            friendly = ctx.rng.random() < 0.6
            limits = dict(max_vars=1000, max_coll=ctx.rng.choice([10, 20]), max_depth=ctx.rng.choice([3, 5, 8]),
                          max_str=ctx.rng.choice([64, 1024])) if friendly else None
            case = e1.gen_case(ctx.rng, hostile_p=0.04, limits=limits, max_nodes=ctx.rng.choice([8, 20, 40]))
            heap = e1.read_heap(case)
            desc = e1.describe(case, heap)
            args = {"fire_count": "-1", "fire_period": "0", "frame_type": case["frame_type"], "stack_type": "stack"}
            if case["frame_type"] is None:
                del args["frame_type"]
            n_act = ctx.rng.choice([1, 1, 1, 2, 3])      # several tracepoints on the line: EVERY snapshot describes the frame
            snaps, raised = e1.run_impl(case, n_actions=n_act)
            ctx.case(dict(limits=desc["limits"], frame_type=desc["frame_type"], files=[f["file"] for f in desc["frames"]], tracepoints=n_act,
                          heap=[(h["ty"], h["kind"], len(h["children"])) for h in desc["heap"]]),
                     nontrivial=bool(snaps and snaps[0].var_lookup), bucket="%s friendly=%s" % (case["frame_type"], friendly))
            if raised is not None or len(snaps) != n_act:
                e1.no_snapshot(ctx, desc, raised)       # the delivered ones are still examined
            if len(first_cases) < 15 and len(snaps) == n_act and raised is None:
                first_cases.append((case, n_act, [view_of(e1.observe(sn, heap)) for sn in snaps], desc))
            for snap in snaps:
                k = int(str(snap.tracepoint.id).rsplit("-", 1)[-1]) if str(snap.tracepoint.id).startswith("tp-") else 0
                dk = dict(desc, tracepoint="%d of %d on the line" % (k + 1, n_act)) if n_act > 1 else desc
                try:
                    obs = e1.observe(snap, heap)
                    oracle(ctx, case, heap, snap, obs, dk, args=args, tp_id="tp-%d" % k)
                    lits.append(e1.snap_literal(case, heap, obs, e1.collect_flags(case)))
                    cj.append(dk)
                    flits.append(frames_literal(case, obs))
                    fcj.append(dk)
                except ValueError as ex:
                    ctx.fail("snapshot cannot be related to the program's objects: %s" % ex, dk, tag="unrelated")
        # a snapshot describes the paused frame, not the history of the process: the first cases collected AGAIN after everything
        # else read exactly as they did the first time
        for case, n_act, views, desc in first_cases:
            snaps2, raised2 = e1.run_impl(case, n_actions=n_act)
            heap2 = e1.read_heap(case)
            views2 = [view_of(e1.observe(sn, heap2)) for sn in snaps2] if raised2 is None else None
            ctx.case(dict(recollected=True, limits=desc["limits"]), nontrivial=True, bucket="recollected")
            if views2 != views:
                ctx.fail("the same frame collected again at the end of the run reads differently: %r, at first %r" % (
                    str(views2)[:300], str(views)[:300]), desc, kind="history", tag="depends-on-history")
        live_cases(ctx, 120 if ctx.thorough else 24)
    finally:
        e1.restore_clock(saved)
    e1.too_many_skipped(ctx, ctx.evaluations)
    ctx.correspond("collector", e1.IMPORTS, "snap_case", "check_snap_case", lits, cj, shard=60)
    ctx.correspond("frames", ["Base", "Config", "Frames"], "frames_case", "check_frames_case", flits, fcj, shard=100)


def replay(ctx, data):
    ctx.fail("replay re-runs the seeded generation: VERIF_SEED=%s check.py C02" % data.get("seed"))
