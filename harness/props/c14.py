"""C14 -- lifecycle: hooks installed once, restored exactly; shutdown always completes (engine E5).

Tie: correspondence.  Generated sequences of start / shutdown / 'the host sets its own hooks' on the
real Deep object (real TriggerHandler.start/shutdown, real Deep.start/shutdown; gRPC channel, poller,
flush and plugins replaced by recording doubles that raise on demand), with tracing enabled or
disabled and arbitrary pre-existing sys/threading trace functions; the hooks read back with
sys.gettrace()/threading.gettrace(), the started flag, the handler's reaction to an event and the
steps attempted by each shutdown are compared inside Coq with Lifecycle.ltrace."""
import os
import sys
import threading

from ..lib import coqlit as L
from ..lib import e2

IMPORTS = ["Base", "Lifecycle"]


def host_a(frame, event, arg):
    return None


def host_b(frame, event, arg):
    return None


def host_c(frame, event, arg):
    return None


HOSTS = {0: None, 5: host_a, 6: host_b, 7: host_c}


def hook_no(fn, agent):
    if fn is None:
        return 0
    for k, v in HOSTS.items():
        if v is fn:
            return k
    if getattr(fn, "__self__", None) is agent and getattr(fn, "__name__", "") == "trace_call":
        return 1
    return 99


def run_sequence(ctx, rng):
    import deep.api.deep as api
    from deep.api.plugin import Plugin
    from deep.api.tracepoint.trigger import LocationAction, Trigger, LineLocation, Location
    from deep.config.config_service import ConfigService
    from deep.config.tracepoint_config import TracepointConfigService
    no_trace = rng.random() < 0.35
    nplug = rng.choice([0, 1, 2, 3])
    s0, t0 = rng.choice([0, 5, 6]), rng.choice([0, 5, 7])
    steps = []
    current = {"faults": None}

    class Plug(Plugin):
        def __init__(self, i):
            super().__init__("plug%d" % i, None)
            self.i = i

        def shutdown(self):
            steps.append(("plugin", self.i))
            if current["faults"] and current["faults"]["plugins"][self.i]:
                self.broken = True           # a plugin in this state cannot even say what it is
                raise RuntimeError("plugin %d cannot shut down" % self.i)
            super().shutdown()               # a well-behaved subclass lets its base class clean up too

        def __str__(self):
            if getattr(self, "broken", False) and self.i % 2 == 0:
                raise RuntimeError("plugin %d has no text form" % self.i)
            return "Plug(%d)" % self.i
        __repr__ = __str__
    plugs = [Plug(i) for i in range(nplug)]

    class Poll:
        def start(self):
            pass

        def shutdown(self):
            steps.append(("poll",))
            if current["faults"] and current["faults"]["poll"]:
                raise RuntimeError("poll cannot stop")
    saved_load = api.load_plugins
    api.load_plugins = lambda config, custom=None: list(plugs)
    old_sys, old_thr = sys.gettrace(), threading.gettrace()
    cfg = ConfigService({"APP_ROOT": "/app", "NO_TRACE": no_trace, "SERVICE_URL": "localhost:1"}, tracepoints=TracepointConfigService())
    for p_ in plugs:
        p_.config = cfg                  # as load_plugins constructs them: every plugin knows the configuration it serves
    d = api.Deep(cfg)
    d.grpc.start = lambda: None
    d.poll = Poll()
    real_flush = d.task_handler.flush

    def flush():
        steps.append(("flush",))
        try:
            real_flush()                 # the real drain: pending deliveries (one failing, one slow) are waited for
        finally:
            d.task_handler._open = True
        if current["faults"] and current["faults"]["flush"]:
            raise RuntimeError("delivery failed")
    d.task_handler.flush = flush
    delivered = []
    real_hshutdown = d.trigger_handler.shutdown

    def hshutdown():
        steps.append(("hooks",))
        real_hshutdown()
    d.trigger_handler.shutdown = hshutdown
    action = LocationAction("tp", None, {"fire_count": "-1", "fire_period": "0", "log_msg": "x"}, LocationAction.ActionType.Log)
    d.trigger_handler.new_config([Trigger(LineLocation("m.py", 7, Location.Position.START), [action])])
    recorded = []
    RecLogger, _s, _m = e2.plugin_classes()
    logger = RecLogger(recorded)
    ops, obs, problems = [], [], []
    try:
        sys.settrace(HOSTS[s0])
        threading.settrace(HOSTS[t0])
        before_start = None
        for _ in range(rng.choice([1, 2, 4, 7])):
            r = rng.random()
            if r < 0.12:
                # a start during which the channel cannot be created: it raises, and leaves the process as it found it
                hooks_now = (sys.gettrace(), threading.gettrace())
                was_started = d.started

                def refuse():
                    raise ConnectionError("service unreachable")
                d.grpc.start = refuse
                try:
                    d.start()
                    if not was_started:
                        problems.append(("failing-start-silent", "a start whose channel raised returned normally"))
                except ConnectionError:
                    pass
                except BaseException as e:
                    problems.append(("start-raised", "a failing start raised %r instead of the transport's error" % (e,)))
                d.grpc.start = lambda: None
                if not was_started and (sys.gettrace(), threading.gettrace()) != hooks_now:
                    problems.append(("failed-start-hooks", "after a start that failed the hooks are (%s, %s); before it they were (%s, %s)" % (
                        hook_no(sys.gettrace(), d.trigger_handler), hook_no(threading.gettrace(), d.trigger_handler),
                        hook_no(hooks_now[0], d.trigger_handler), hook_no(hooks_now[1], d.trigger_handler))))
                ops.append(dict(kind=3))
            elif r < 0.45:
                if not d.started:
                    before_start = (sys.gettrace(), threading.gettrace())
                try:
                    d.start()
                except BaseException as e:
                    problems.append(("start-raised", "start raised %r" % (e,)))
                cfg.plugins = list(cfg.plugins) + [logger] if logger not in cfg.plugins else cfg.plugins
                ops.append(dict(kind=0))
            elif r < 0.9:
                faults = dict(flush=rng.random() < 0.3, poll=rng.random() < 0.3, plugins=[rng.random() < 0.4 for _ in range(nplug)])
                current["faults"] = faults
                del steps[:]
                was_started = d.started
                del delivered[:]
                if was_started:
                    # two deliveries are in flight when shutdown begins: one fails shortly after, one takes a while
                    import time as _t

                    def bad_send():
                        _t.sleep(0.02)              # fails while shutdown is already waiting
                        raise RuntimeError("send failed")

                    def slow_send():
                        _t.sleep(0.06)
                        delivered.append("slow")
                    d.task_handler.submit_task(bad_send)
                    d.task_handler.submit_task(slow_send)
                try:
                    d.shutdown()
                except BaseException as e:
                    problems.append(("shutdown-raised", "shutdown raised %r with faults %r" % (e, faults)))
                current["faults"] = None
                if was_started and delivered != ["slow"]:
                    problems.append(("not-drained", "shutdown returned while a delivery was still in progress (one delivery failed, "
                                     "another was still being sent)"))
                if was_started:
                    want = [("hooks",), ("flush",), ("poll",)] + [("plugin", i) for i in range(nplug)]
                    got = [s for s in steps]
                    if got != want:
                        problems.append(("steps-skipped", "shutdown with faults %r attempted %r, all of %r are due" % (faults, got, want)))
                    if d.started:
                        problems.append(("still-started", "after shutdown (faults %r) the agent is still marked started" % (faults,)))
                    if before_start is not None and (sys.gettrace(), threading.gettrace()) != before_start:
                        problems.append(("hooks-not-restored", "after shutdown the hooks are (%s, %s), before start they were (%s, %s)" % (
                            hook_no(sys.gettrace(), d.trigger_handler), hook_no(threading.gettrace(), d.trigger_handler),
                            hook_no(before_start[0], d.trigger_handler), hook_no(before_start[1], d.trigger_handler))))
                ops.append(dict(kind=1, **faults))
            else:
                s, t = rng.choice([0, 5, 6]), rng.choice([0, 6, 7])
                if d.started and not no_trace:
                    continue            # the host replacing the agent's hooks while it runs is not part of the property
                sys.settrace(HOSTS[s])
                threading.settrace(HOSTS[t])
                # the hooks the host holds now are what a later shutdown has to leave in place
                before_start = (sys.gettrace(), threading.gettrace()) if d.started else None
                ops.append(dict(kind=2, s=s, t=t))
            # does the handler act on an event, here and in another thread?
            del recorded[:]
            res = []
            th = threading.Thread(target=lambda: res.append(d.trigger_handler.trace_call(e2.mk_frame("/app/m.py", "f", 7, {}), "line", None)))
            saved = (sys.gettrace(), threading.gettrace())
            threading.settrace(None)
            th.start()
            th.join()
            threading.settrace(saved[1])
            acted = bool(recorded)
            shut = bool(ops) and not d.started and any(o["kind"] == 1 for o in ops) and (ops[-1]["kind"] != 0)
            was_ever_started = any(o["kind"] == 0 for o in ops)
            inert_obs = (not acted) and res == [None]
            if not d.started and was_ever_started and any(o["kind"] == 1 for o in ops) and acted:
                problems.append(("acts-after-shutdown", "after shutdown a tracepoint still acted on an event delivered in another thread"))
            if no_trace and (hook_no(sys.gettrace(), d.trigger_handler) == 1 or hook_no(threading.gettrace(), d.trigger_handler) == 1):
                problems.append(("notrace-installed", "tracing is disabled but the agent's trace function is installed"))
            obs.append(dict(sys=hook_no(sys.gettrace(), d.trigger_handler), thr=hook_no(threading.gettrace(), d.trigger_handler),
                            started=bool(d.started), inert=inert_obs, attempted=list(steps)))
    finally:
        sys.settrace(old_sys)
        threading.settrace(old_thr)
        api.load_plugins = saved_load
        try:
            d.task_handler._pool.shutdown(wait=False)
        except BaseException:
            pass
        e2_clear()

    def step_lit(s):
        return {"hooks": "SHooks", "flush": "SFlush", "poll": "SPoll"}.get(s[0]) or "(SPlugin %s)" % L.nat(s[1])
    oplits = []
    for o in ops:
        oplits.append("{| co_kind := %s; co_flush := %s; co_poll := %s; co_plugins := %s; co_s := %s; co_t := %s |}" % (
            L.nat(o["kind"]), L.b(o.get("flush", False)), L.b(o.get("poll", False)), L.lst(L.b(x) for x in o.get("plugins", [])),
            L.nat(o.get("s", 0)), L.nat(o.get("t", 0))))
    oblits = []
    last_attempted = []
    for o, ob in zip(ops, obs):
        if o["kind"] == 1 and ob["attempted"]:
            last_attempted = ob["attempted"]
        oblits.append("{| ob_sys := %s; ob_thr := %s; ob_started := %s; ob_inert := %s; ob_attempted := %s |}" % (
            L.nat(ob["sys"]), L.nat(ob["thr"]), L.b(ob["started"]), L.b(ob["inert"]), L.lst(step_lit(s) for s in last_attempted)))
    lit = "{| lc_conf := {| no_trace := %s; nplugins := %s |}; lc_s0 := %s; lc_t0 := %s; lc_ops := %s; lc_obs := %s |}" % (
        L.b(no_trace), L.nat(nplug), L.nat(s0), L.nat(t0), L.lst(oplits), L.lst(oblits))
    return lit, dict(no_trace=no_trace, plugins=nplug, hooks_before=[s0, t0], ops=ops), problems


def restart_with_real_poller(ctx):
    """start / shutdown / start / shutdown ... on ONE agent with the real poller (its timer thread) and the real task handler:
    every start installs the hooks, every shutdown puts back exactly what was there, and nothing raises."""
    import deep.api.deep as api
    from deep.config.config_service import ConfigService
    from deep.config.tracepoint_config import TracepointConfigService
    saved_load = api.load_plugins
    api.load_plugins = lambda config, custom=None: []
    old_sys, old_thr = sys.gettrace(), threading.gettrace()
    problems = []
    try:
        cfg = ConfigService({"APP_ROOT": "/app", "SERVICE_URL": "localhost:1", "POLL_TIMER": 3600}, tracepoints=TracepointConfigService())
        d = api.Deep(cfg)
        d.grpc.start = lambda: None
        sys.settrace(host_a)
        threading.settrace(host_b)
        for cycle in range(3):
            try:
                d.start()
            except BaseException as e:
                problems.append(("restart-start-raised", "start number %d on the same agent raised %r" % (cycle + 1, e)))
            if sys.gettrace() is host_a or not d.started:
                problems.append(("restart-not-started", "after start number %d the agent is not tracing (started=%s)" % (cycle + 1, d.started)))
            try:
                d.shutdown()
            except BaseException as e:
                problems.append(("restart-shutdown-raised", "shutdown number %d raised %r" % (cycle + 1, e)))
            if sys.gettrace() is not host_a or threading.gettrace() is not host_b or d.started:
                problems.append(("restart-hooks", "after start / shutdown number %d the trace hooks are (%s, %s) and started=%s; before "
                                 "the first start they were (host_a, host_b)" % (cycle + 1, hook_no(sys.gettrace(), d.trigger_handler.trace_call),
                                                                                  hook_no(threading.gettrace(), d.trigger_handler.trace_call), d.started)))
            if problems:
                break
    finally:
        sys.settrace(old_sys)
        threading.settrace(old_thr)
        api.load_plugins = saved_load
    j = dict(history="start, shutdown, start, shutdown, start, shutdown on one agent; real LongPoll and TaskHandler; hooks before: host_a, host_b")
    ctx.case(j, nontrivial=True, bucket="restart")
    seen = set()
    for tag, what in problems:
        if tag not in seen:
            seen.add(tag)
            ctx.fail(what, j, kind="history", tag=tag)


def poll_in_flight(ctx):
    """Shutdown while a poll is in flight (the normal case for a LONG poll): after shutdown has returned no further poll is started,
    however the one in flight ends (real LongPoll and its timer; the channel is a double that holds each poll open for a while)."""
    import time as _t
    import deep.api.deep as api
    import deep.poll.poll as poll_mod
    from deep.config.config_service import ConfigService
    from deep.config.tracepoint_config import TracepointConfigService
    from deepproto.proto.poll.v1.poll_pb2 import PollResponse, ResponseType
    started_at, in_flight = [], threading.Event()

    class Stub:
        def __init__(self, channel):
            pass

        def poll(self, request, metadata=None):
            started_at.append(_t.monotonic())
            in_flight.set()
            _t.sleep(0.25)
            return PollResponse(ts_nanos=1, current_hash="", response_type=ResponseType.NO_CHANGE)
    saved = poll_mod.PollConfigStub, api.load_plugins
    poll_mod.PollConfigStub = Stub
    api.load_plugins = lambda config, custom=None: []
    old_sys, old_thr = sys.gettrace(), threading.gettrace()
    try:
        cfg = ConfigService({"APP_ROOT": "/app", "SERVICE_URL": "localhost:1", "POLL_TIMER": 0.1, "NO_TRACE": True},
                            tracepoints=TracepointConfigService())
        d = api.Deep(cfg)
        d.grpc.start = lambda: None
        d.grpc.metadata = lambda: []
        d.start()                               # the initial poll, then the timer
        del started_at[:]
        in_flight.clear()
        reached = in_flight.wait(3.0)           # a timer poll is in flight now
        outcome = None
        try:
            d.shutdown()
        except BaseException as e:
            outcome = e
        t_down = _t.monotonic()
        _t.sleep(0.9)
        late = [round(t - t_down, 2) for t in started_at if t > t_down]
        j = dict(history="start; a timer poll is in flight (held 0.25 s, interval 0.1 s); shutdown; wait 0.9 s",
                 polls_started_after_shutdown_returned=late)
        ctx.case(j, nontrivial=True, bucket="poll-in-flight")
        if not reached:
            ctx.skip("no timer poll was started within 3 s: the schedule could not be set up")
        elif outcome is not None:
            ctx.fail("shutdown raised %r while a poll was in flight" % (outcome,), j, kind="schedule", tag="poll-in-flight-raised")
        elif late:
            ctx.fail("%d polls were started after shutdown had returned (%s s after it): the agent does not stop polling" % (len(late), late), j,
                     kind="schedule", tag="polls-after-shutdown")
    finally:
        poll_mod.PollConfigStub, api.load_plugins = saved
        sys.settrace(old_sys)
        threading.settrace(old_thr)


def failed_start(ctx):
    """A start that FAILS (the channel cannot be created: a service address that is not text, given in code; or the transport raising)
    leaves nothing behind: after it - and after the shutdown a careful application still calls - the process has exactly the trace
    hooks it had before, and a later start / shutdown of the same agent works and restores them again."""
    import deep.api.deep as api
    from deep.config.config_service import ConfigService
    from deep.config.tracepoint_config import TracepointConfigService
    saved_load = api.load_plugins
    api.load_plugins = lambda config, custom=None: []
    old_sys, old_thr = sys.gettrace(), threading.gettrace()
    try:
        for how in ("SERVICE_URL=5 given in code", "the transport raises ConnectionError"):
            cfg = ConfigService({"APP_ROOT": "/app", "SERVICE_URL": 5 if how.startswith("SERVICE_URL") else "localhost:1", "POLL_TIMER": 3600,
                                 "SERVICE_SECURE": "False"}, tracepoints=TracepointConfigService())
            d = api.Deep(cfg)
            d.poll = type("Poll", (), {"start": lambda self: None, "shutdown": lambda self: None})()
            real_grpc_start = d.grpc.start
            if not how.startswith("SERVICE_URL"):
                def refuse():
                    raise ConnectionError("service unreachable")
                d.grpc.start = refuse
            sys.settrace(host_a)
            threading.settrace(host_b)
            raised = None
            try:
                d.start()
            except BaseException as e:
                raised = e
            after_start = (hook_no(sys.gettrace(), d.trigger_handler.trace_call), hook_no(threading.gettrace(), d.trigger_handler.trace_call))
            try:
                d.shutdown()
            except BaseException as e:
                raised = ("shutdown", e)
            after_shutdown = (sys.gettrace() is host_a, threading.gettrace() is host_b)
            j = dict(history="hooks host_a / host_b; start fails (%s); shutdown" % how, start_raised=repr(raised),
                     hooks_after_failed_start=after_start, host_hooks_back_after_shutdown=after_shutdown)
            ctx.case(j, nontrivial=True, bucket="failed-start")
            if raised is None:
                ctx.skip("start did not fail with %s: nothing to examine" % how)
            elif after_shutdown != (True, True):
                ctx.fail("start failed (%r); after the following shutdown the trace hooks are %r, before start they were (host_a, host_b): "
                         "the agent's hook stays installed for good" % (raised, after_start), j, kind="history", tag="failed-start-hooks")
            else:
                # the same agent, the fault gone: a normal cycle
                d.grpc.start = lambda: None
                try:
                    d.start()
                    ok_started = d.started and sys.gettrace() is not host_a
                    d.shutdown()
                except BaseException as e:
                    ctx.fail("after a failed start, a later start / shutdown of the same agent raised %r" % (e,), j, kind="history",
                             tag="failed-start-restart")
                    continue
                if not ok_started or sys.gettrace() is not host_a or threading.gettrace() is not host_b:
                    ctx.fail("after a failed start, a later start / shutdown cycle: started and tracing=%s, hooks restored=%s" % (
                        ok_started, (sys.gettrace() is host_a, threading.gettrace() is host_b)), j, kind="history", tag="failed-start-restart")
    finally:
        sys.settrace(old_sys)
        threading.settrace(old_thr)
        api.load_plugins = saved_load


def notrace_from_environment(ctx):
    """Tracing disabled BY CONFIGURATION means by the code-supplied map or by the DEEP_NO_TRACE variable alike: the process's trace hooks
    stay untouched through start, a second start and shutdown."""
    import deep.api.deep as api
    from deep.config.config_service import ConfigService
    from deep.config.tracepoint_config import TracepointConfigService
    saved_load = api.load_plugins
    api.load_plugins = lambda config, custom=None: []
    old_sys, old_thr = sys.gettrace(), threading.gettrace()
    saved_env = os.environ.get("DEEP_NO_TRACE")
    try:
        for how in ("code", "environment"):
            for word in ("True", "1", "yes"):
                if how == "environment":
                    os.environ["DEEP_NO_TRACE"] = word
                    custom = {"APP_ROOT": "/app", "SERVICE_URL": "localhost:1"}
                else:
                    os.environ.pop("DEEP_NO_TRACE", None)
                    custom = {"APP_ROOT": "/app", "SERVICE_URL": "localhost:1", "NO_TRACE": word}
                cfg = ConfigService(custom, tracepoints=TracepointConfigService())
                d = api.Deep(cfg)
                d.grpc.start = lambda: None
                d.poll = type("Poll", (), {"start": lambda self: None, "shutdown": lambda self: None})()
                sys.settrace(host_a)
                threading.settrace(host_b)
                seen = []
                for op in (d.start, d.start, d.shutdown):
                    op()
                    seen.append((sys.gettrace() is host_a, threading.gettrace() is host_b))
                j = dict(tracing_disabled_by="%s NO_TRACE=%s" % (how, word), host_hooks_in_place_after_start_start_shutdown=seen)
                ctx.case(j, nontrivial=True, bucket="notrace-" + how)
                if seen != [(True, True)] * 3:
                    ctx.fail("tracing is disabled (%s) and the process's trace hooks did not stay untouched: host hooks in place after "
                             "start / start / shutdown: %r" % (j["tracing_disabled_by"], seen), j, kind="history", tag="notrace-" + how)
    finally:
        if saved_env is None:
            os.environ.pop("DEEP_NO_TRACE", None)
        else:
            os.environ["DEEP_NO_TRACE"] = saved_env
        sys.settrace(old_sys)
        threading.settrace(old_thr)
        api.load_plugins = saved_load


def failing_delivery_at_shutdown(ctx):
    """A delivery that the service refuses is pending when shutdown begins: shutdown drains it (a failure is an end too) and afterwards
    the agent sends nothing more.  Real PushService / TaskHandler; the stub raises grpc.RpcError on every send."""
    import time as _t
    import grpc
    import deep.api.deep as api
    import deep.push.push_service as ps
    import deep.push as push_mod
    from deep.config.config_service import ConfigService
    from deep.config.tracepoint_config import TracepointConfigService
    attempts = []

    class Stub:
        def __init__(self, channel):
            pass

        def send(self, converted, metadata=None):
            attempts.append(_t.monotonic())
            raise grpc.RpcError()
    saved = ps.SnapshotServiceStub, push_mod.convert_snapshot, api.load_plugins
    ps.SnapshotServiceStub = Stub
    push_mod.convert_snapshot = lambda s_: dict(id=s_.id)
    api.load_plugins = lambda config, custom=None: []
    old_sys, old_thr = sys.gettrace(), threading.gettrace()
    try:
        cfg = ConfigService({"APP_ROOT": "/app", "NO_TRACE": True, "SERVICE_URL": "localhost:1"}, tracepoints=TracepointConfigService())
        d = api.Deep(cfg)
        d.grpc.start = lambda: None
        d.grpc.metadata = lambda: []
        d.poll = type("Poll", (), {"start": lambda self: None, "shutdown": lambda self: None})()
        d.start()
        d.push.push_snapshot(type("S", (), {"id": 1})())
        t0 = _t.monotonic()
        d.shutdown()
        t_down = _t.monotonic()
        if t_down - t0 > 3.0:
            _t.sleep(6.0)               # shutdown took suspiciously long: is something still being retried?
        else:
            _t.sleep(0.3)
        late = [round(t - t_down, 1) for t in attempts if t > t_down]
        j = dict(history="start; one snapshot handed over, the service refuses it (RpcError); shutdown", send_attempts=len(attempts),
                 shutdown_took_s=round(t_down - t0, 1), send_attempts_after_shutdown_returned=late)
        ctx.case(j, nontrivial=True, bucket="failing-delivery")
        if late:
            ctx.fail("the agent sent to the service %s s AFTER shutdown had returned (shutdown took %.1f s): a refused delivery is still "
                     "being retried - it was not drained, and the agent still acts" % (late, t_down - t0), j, kind="schedule",
                     tag="sends-after-shutdown")
        try:
            d.task_handler._pool.shutdown(wait=False)
        except BaseException:
            pass
    finally:
        ps.SnapshotServiceStub, push_mod.convert_snapshot, api.load_plugins = saved
        sys.settrace(old_sys)
        threading.settrace(old_thr)


def e2_clear():
    from deep.thread_local import ThreadLocal
    ThreadLocal._ThreadLocal__store.clear()


def run(ctx):
    import logging
    from ..lib.quiet import quiet_logging
    quiet_logging()
    ctx.rule = ("sequences of 1-7 operations from {start, shutdown with a random subset of {flush, poll stop, each plugin} failing, "
                "the host sets its own hooks (only while the agent does not own them)} x tracing enabled/disabled x 0-3 plugins x "
                "pre-existing sys/threading trace functions from {none, three host functions}. Non-trivial: a shutdown of a "
                "started agent with at least one fault, or with pre-existing hooks.")
    ctx.assumptions = [
        "'fail' means raise; a peer that never answers (no deadline on the poll call, join without timeout) is liveness "
        "outside what the model exhibits",
        "the host does not replace the agent's hooks while the agent owns them",
        "gRPC channel creation, the poller and delivery are doubles; plugin loading is C20",
    ]
    ctx.prove()
    rng = ctx.rng
    lits, cj = [], []
    for i in range(1200 if ctx.thorough else 200):
        lit, j, problems = run_sequence(ctx, rng)
        nt = any(o["kind"] == 1 and (o.get("flush") or o.get("poll") or any(o.get("plugins", []))) for o in j["ops"]) or j["hooks_before"] != [0, 0]
        ctx.case(j, nontrivial=nt, bucket="no_trace=%s" % j["no_trace"])
        seen = set()
        for tag, what in problems:
            if tag not in seen:
                seen.add(tag)
                ctx.fail(what, j, kind="history", tag=tag)
        lits.append(lit)
        cj.append(j)
    ctx.correspond("lifecycle", IMPORTS, "life_case", "check_life_case", lits, cj, shard=100)
    restart_with_real_poller(ctx)
    poll_in_flight(ctx)
    failed_start(ctx)
    notrace_from_environment(ctx)
    failing_delivery_at_shutdown(ctx)


def replay(ctx, data):
    ctx.fail("replay re-runs the seeded generation: VERIF_SEED=%s check.py C14" % data.get("seed"))
