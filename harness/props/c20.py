"""C20 -- plugins are optional: ordered, skipped when inactive, isolated when faulty (engines E5 + E3).

Tie: (T) the bodies of the nine loops over plugins / callbacks / results / listeners are regenerated from
/repo/src on every run and props/C20.v re-proves that each contains every Exception-class failure and
never leaves the loop; (K) generated candidate sets (importable or not, failing to construct, switched off
by configuration, any order values) through the real load_plugins, compared inside Coq with Plugins.load.
Search: plugins of every kind raising at every callback, differentially against the fault-free run."""
import collections
import importlib
import os
import sys

from ..lib import coqlit as L
from ..lib import e2

IMPORTS = ["Base", "Plugins"]


def loader_cases(ctx, n):
    import deep.api.plugin as pl
    from deep.config.config_service import ConfigService
    from deep.config.tracepoint_config import TracepointConfigService
    rng = ctx.rng
    build = os.path.join(os.path.dirname(os.path.dirname(os.path.dirname(os.path.abspath(__file__)))), "build", "plugmods")
    os.makedirs(build, exist_ok=True)
    if build not in sys.path:
        sys.path.insert(0, build)
    saved = pl.DEEP_PLUGINS
    lits, cj = [], []
    try:
        for k in range(n):
            mod = "%splug_%d_%d" % ("av"[k % 2], os.getpid(), k)       # module names that sort before / after the bundled `deep.` plugins
            cands, src = [], ["from deep.api.plugin import Plugin, DidNotEnable", ""]
            custom_cfg = {"APP_ROOT": "/app"}
            for i in range(rng.choice([0, 1, 2, 4, 6])):
                kind = rng.choice(["ok"] * 5 + ["no_module", "no_class", "ctor_raises", "did_not_enable", "switched_off", "inactive"])
                order = rng.choice([0, 0, 1, 2, 5, -1, None])
                name = "P%s%d" % ("zqkfcb"[i], i)        # class names whose alphabetical order is NOT the order in which they are listed
                c = dict(id=i, kind=kind, order=order)
                if kind == "no_module":
                    c["path"] = "no_such_module_%d.%s" % (k, name)
                elif kind == "no_class":
                    c["path"] = "%s.Missing%d" % (mod, i)
                else:
                    c["path"] = "%s.%s" % (mod, name)
                    src += ["class %s(Plugin):" % name,
                            "    def __init__(self, config=None):",
                            "        super().__init__('%s', config)" % name]
                    if kind == "ctor_raises":
                        src.append("        raise RuntimeError('cannot construct')")
                    if kind == "did_not_enable":
                        src.append("        raise DidNotEnable('dependency missing')")
                    if kind == "inactive":
                        src += ["    def is_active(self):", "        return False"]
                    src += ["    def order(self):", "        return %r" % (order,), ""]
                    if kind == "switched_off":
                        custom_cfg["PLUGIN_%s" % name.upper()] = rng.choice(["false", "False", "no", False])
                cands.append(c)
            with open(os.path.join(build, mod + ".py"), "w") as fh:
                fh.write("\n".join(src) + "\n")
            importlib.invalidate_caches()
            pl.DEEP_PLUGINS = []
            cfg = ConfigService(custom_cfg, tracepoints=TracepointConfigService())
            j = dict(candidates=[dict(c) for c in cands])
            again = None
            try:
                loaded = pl.load_plugins(cfg, [c["path"] for c in cands])
                # a second load in the same process with NO custom plugins: only the default list (empty here) is loaded -
                # what an earlier load was given must not have become part of the defaults
                again = [p.name for p in pl.load_plugins(cfg, [])]
            except BaseException as e:
                ctx.fail("load_plugins raised %r: one candidate stopped the others from loading" % (e,), j, tag="loader-raised")
                continue
            finally:
                os.remove(os.path.join(build, mod + ".py"))
                sys.modules.pop(mod, None)
            got = [int(p.name[2:]) for p in loaded]
            usable = [c for c in cands if c["kind"] == "ok"]
            want = [c["id"] for c in sorted(usable, key=lambda c: c["order"] or 0)]
            ctx.case(j, nontrivial=len(usable) >= 2 and len(usable) < len(cands), bucket="loader n=%d" % len(cands))
            if got != want:
                ctx.fail("loaded plugins %r, the usable candidates in declared order are %r" % (got, want), j, tag="loader")
            if again or pl.DEEP_PLUGINS != []:
                ctx.fail("a second load without custom plugins loaded %r (the default list is now %r): the custom plugins of the earlier "
                         "load were kept" % (again, pl.DEEP_PLUGINS), j, kind="history", tag="loader-remembers")
            lits.append("{| ld_cands := %s; ld_obs := %s |}" % (
                L.lst("{| cd_id := %s; cd_imports := %s; cd_constructs := %s; cd_active := %s; cd_order := %s |}" % (
                    L.nat(c["id"]), L.b(c["kind"] not in ("no_module", "no_class")), L.b(c["kind"] not in ("ctor_raises", "did_not_enable")),
                    L.b(c["kind"] not in ("switched_off", "inactive")), L.z(c["order"] or 0)) for c in cands),
                L.lst(L.nat(i) for i in got)))
            cj.append(j)
    finally:
        pl.DEEP_PLUGINS = saved
    ctx.correspond("loader", IMPORTS, "load_case", "check_load_case", lits, cj, shard=200)


def bundled_switches(ctx):
    """The plugins that come with the agent are switched off by configuration too - given in code OR as the DEEP_ environment
    variable: the one switched off is skipped, the rest are loaded as before."""
    import deep.api.plugin as pl
    from deep.config.config_service import ConfigService
    from deep.config.tracepoint_config import TracepointConfigService
    base = [p.name for p in pl.load_plugins(ConfigService({"APP_ROOT": "/app"}, tracepoints=TracepointConfigService()), [])]
    for name in base:
        key = "PLUGIN_%s" % name.upper()
        for how in ("code", "environment"):
            for word in ("false", "False"):
                saved = os.environ.get("DEEP_" + key)
                try:
                    if how == "environment":
                        os.environ["DEEP_" + key] = word
                        cfg = ConfigService({"APP_ROOT": "/app"}, tracepoints=TracepointConfigService())
                    else:
                        cfg = ConfigService({"APP_ROOT": "/app", key: word}, tracepoints=TracepointConfigService())
                    try:
                        got = [p.name for p in pl.load_plugins(cfg, [])]
                    except BaseException as e:
                        got = "raised %r" % (e,)
                finally:
                    if saved is None:
                        os.environ.pop("DEEP_" + key, None)
                    else:
                        os.environ["DEEP_" + key] = saved
                j = dict(bundled=base, switched_off=name, how="%s %s=%s" % (how, ("DEEP_" if how == "environment" else "") + key, word), loaded=got)
                ctx.case(j, nontrivial=True, bucket="bundled-switch")
                if got != [n_ for n_ in base if n_ != name]:
                    ctx.fail("with %s switched off (%s) the loaded plugins are %r; the others, %r, are expected" % (
                        name, j["how"], got, [n_ for n_ in base if n_ != name]), j, tag="bundled-switch")


def isolation(ctx, n):
    """Plugins of every kind raising at their callbacks: the others still run, the snapshot is still delivered."""
    from deep.api.attributes import BoundedAttributes
    from deep.api.plugin import SnapshotDecorator, ResourceProvider
    from deep.api.resource import Resource
    from deep.api.tracepoint.trigger import LocationAction, Trigger, LineLocation, Location
    from deep.api.tracepoint.tracepoint_config import MetricDefinition
    _healthy = []

    def healthy_metrics_complete():
        """Two definitions x three healthy processors, one hit: are all six reports made?  (computed once)"""
        if not _healthy:
            from deep.api.tracepoint.trigger import LocationAction as LA, Trigger as TR, LineLocation as LL, Location as LO
            w2 = e2.World(logger=False, spans=0, metrics=3)
            w2.install([TR(LL("m.py", 7, LO.Position.START), [LA("tp-met", None, {"fire_count": "-1", "fire_period": "0", "metrics": [
                MetricDefinition("m1", "COUNTER"), MetricDefinition("m2", "COUNTER")]}, LA.ActionType.Metric)])])
            w2.event(e2.mk_frame("/app/m.py", "g", 7, {}), "line")
            _healthy.append(len([1 for w, _t, _i, _p in w2.log if w == "metric"]) == 6)
            w2.clear_pending()
        return _healthy[0]
    import deep.api.deep as api
    rng = ctx.rng
    RecLogger, RecSpans, RecMetrics = e2.plugin_classes()

    class Deco(SnapshotDecorator):
        def __init__(self, i, bad, log):
            super().__init__("deco%d" % i, None)
            self.i, self.bad, self.log = i, bad, log

        def decorate(self, snapshot_id, context):
            self.log.append(("decorate", None, 0, self.i))
            if self.bad:
                raise RuntimeError("decorator %d fails" % self.i)
            return BoundedAttributes(attributes={"deco%d" % self.i: "yes"})

    class Prov(ResourceProvider):
        def __init__(self, i, bad):
            super().__init__("prov%d" % i, None)
            self.i, self.bad = i, bad

        def resource(self):
            if self.bad:
                raise RuntimeError("provider %d fails" % self.i)
            return Resource.create({"prov%d" % self.i: "yes"})
    for k in range(n):
        world = e2.World(logger=False, spans=0, metrics=0)
        world.clear_pending()
        nspan, nmet, ndeco = rng.choice([1, 2, 3]), rng.choice([1, 2, 3]), rng.choice([1, 2, 3])
        bad_span_create = [rng.random() < 0.4 for _ in range(nspan)]
        bad_span_close = [rng.random() < 0.4 for _ in range(nspan)]
        bad_met = [rng.random() < 0.4 for _ in range(nmet)]
        bad_deco = [rng.random() < 0.4 for _ in range(ndeco)]
        bad_logger = rng.random() < 0.4
        plugins = []
        for i in range(nspan):
            sp = RecSpans(world.log, "spans%d" % i)
            orig_create = sp.create_span

            def create(name, ctx_id, tp_id, sp=sp, i=i, orig=orig_create):
                if bad_span_create[i]:
                    world.log.append(("span-create-failed", tp_id, 0, i))
                    raise RuntimeError("span plugin %d cannot create" % i)
                s = orig(name, ctx_id, tp_id)
                if bad_span_close[i]:
                    real_close = s.close

                    def close(s=s, real_close=real_close):
                        real_close()
                        raise RuntimeError("span of plugin %d cannot close" % i)
                    s.close = close
                    if (i + len(world.log)) % 2 == 0:
                        # a span of a broken plugin: reading anything from it fails too (name, text)
                        failing_close = close

                        class HostileSpan:
                            def close(self, _c=failing_close):
                                _c()

                            @property
                            def name(self):
                                raise RuntimeError("span has no name")

                            def __str__(self):
                                raise RuntimeError("span has no text")
                            __repr__ = __str__
                        return HostileSpan()
                return s
            sp.create_span = create
            plugins.append(sp)
        for i in range(nmet):
            mp = RecMetrics(world.log, "metrics%d" % i)
            if bad_met[i]:
                def counter(*a, i=i, **kw):
                    world.log.append(("metric-failed", None, 0, i))
                    raise RuntimeError("metric processor %d fails" % i)
                mp.counter = counter
            plugins.append(mp)
        for i in range(ndeco):
            plugins.append(Deco(i, bad_deco[i], world.log))
        # a faulty plugin may also be an object that cannot be hashed (a dataclass-style plugin: __eq__ without __hash__)
        for pobj, bad in list(zip(plugins[:nspan], [a or b for a, b in zip(bad_span_create, bad_span_close)])) + \
                list(zip(plugins[nspan:nspan + nmet], bad_met)) + list(zip(plugins[nspan + nmet:], bad_deco)):
            if bad and rng.random() < 0.5:
                pobj.__class__ = type("Unhashable" + type(pobj).__name__, (type(pobj),), {"__hash__": None, "__eq__": lambda a, b: a is b})
        lg = RecLogger(world.log)
        if bad_logger:
            def log_tracepoint(*a, **kw):
                raise RuntimeError("logger fails")
            lg.log_tracepoint = log_tracepoint
        plugins.append(lg)
        rng.shuffle(plugins)
        world.cfg.plugins = plugins
        conf = {"fire_count": "-1", "fire_period": "0"}
        acts = [LocationAction("tp-span", None, dict(conf, span="line"), LocationAction.ActionType.Span),
                LocationAction("tp-met", None, dict(conf, metrics=[MetricDefinition("m1", "COUNTER"), MetricDefinition("m2", "COUNTER")]),
                               LocationAction.ActionType.Metric),
                LocationAction("tp-snap", None, dict(conf, frame_type="single_frame", watches=[], log_msg="hello"), LocationAction.ActionType.Snapshot)]
        world.install([Trigger(LineLocation("m.py", 7, Location.Position.START), acts)])
        fr = e2.mk_frame("/app/m.py", "f", 7, {"a": 1})
        _, e1 = world.event(fr, "line")
        fr.f_lineno = 8
        _, e2_ = world.event(fr, "line")
        j = dict(span_plugins=dict(create_fails=bad_span_create, close_fails=bad_span_close), metric_fails=bad_met, decorator_fails=bad_deco,
                 logger_fails=bad_logger)
        ctx.case(j, nontrivial=any(bad_span_create + bad_span_close + bad_met + bad_deco + [bad_logger]), bucket="isolation")
        if e1 is not None or e2_ is not None:
            ctx.fail("a failing plugin callback reached the application: %r" % (e1 or e2_,), j, tag="escaped")
            continue
        opened = {p.pname for w, _t, _i, p in world.log if w == "span-open"}
        closed = {p.pname for w, _t, _i, p in world.log if w == "span-close"}
        want_open = {"spans%d" % i for i in range(nspan) if not bad_span_create[i]}
        if opened != want_open:
            ctx.fail("spans created by %r, every span plugin that does not fail is %r" % (sorted(opened), sorted(want_open)), j, tag="span-create")
        if closed != want_open:
            ctx.fail("spans closed for %r, opened for %r: a failing close() of one plugin left another's span open" % (
                sorted(closed), sorted(want_open)), j, tag="span-close")
        # ... and each healthy plugin is asked for ONE span for the one hit, which is closed ONCE (a neighbour that fails must
        # not make the agent hand a healthy plugin's span around a second time)
        n_open = collections.Counter(p.pname for w, _t, _i, p in world.log if w == "span-open")
        n_close = collections.Counter(p.pname for w, _t, _i, p in world.log if w == "span-close")
        for name in sorted(want_open & opened & closed):
            if n_open[name] != 1 or n_close[name] != 1:
                ctx.fail("plugin %s: %d span(s) created and %d close() call(s) for one hit; next to a failing plugin it is still "
                         "one span, closed once" % (name, n_open[name], n_close[name]), j, tag="span-once")
        mets = [(p["proc"], p["name"]) for w, _t, _i, p in world.log if w == "metric"]
        want_m = [("metrics%d" % i, m) for m in ("m1", "m2") for i in range(nmet) if not bad_met[i]]
        if sorted(mets) != sorted(want_m) and not healthy_metrics_complete():
            ctx.skip("metric reporting is incomplete even when no processor fails (C17): isolation of metric processors cannot be examined")
        elif sorted(mets) != sorted(want_m):
            ctx.fail("metric reports %r, expected every definition at every healthy processor: %r" % (sorted(mets), sorted(want_m)), j,
                     tag="metric-isolation")
        snaps = [p for w, _t, _i, p in world.log if w == "snapshot"]
        if len(snaps) != 1:
            ctx.fail("%d snapshots delivered when decorators %r / logger %s fail" % (len(snaps), bad_deco, bad_logger), j, tag="snapshot-lost")
        else:
            for i in range(ndeco):
                has = snaps[0].attributes.get("deco%d" % i) == "yes"
                if has == bad_deco[i]:
                    ctx.fail("decoration of decorator %d %s (fails=%s)" % (i, "present" if has else "missing", bad_deco[i]), j, tag="decorations")
        logs = [p for w, _t, _i, p in world.log if w == "log"]
        if not bad_logger and len(logs) != 1:
            ctx.fail("%d log lines emitted" % len(logs), j, tag="log-lost")
        world.clear_pending()
    # resource providers and shutdown through the real Deep.start / Deep.shutdown
    from deep.config.config_service import ConfigService
    from deep.config.tracepoint_config import TracepointConfigService
    for k in range(max(3, n // 5)):
        bad = [rng.random() < 0.5 for _ in range(3)]
        provs = [Prov(i, bad[i]) for i in range(3)]
        saved = api.load_plugins
        api.load_plugins = lambda config, custom=None: list(provs)
        cfg = ConfigService({"APP_ROOT": "/app", "NO_TRACE": True}, tracepoints=TracepointConfigService())
        d = api.Deep(cfg)
        d.grpc.start = lambda: None
        d.poll = type("P", (), {"start": lambda s: None, "shutdown": lambda s: None})()
        j = dict(resource_providers_fail=bad)
        ctx.case(j, nontrivial=any(bad), bucket="providers")
        try:
            d.start()
        except BaseException as e:
            ctx.fail("the agent did not start because a resource provider failed: %r" % (e,), j, tag="start-aborted")
            continue
        finally:
            api.load_plugins = saved
        attrs = dict(cfg.resource.attributes.items())
        for i in range(3):
            if ("prov%d" % i in attrs) == bad[i]:
                ctx.fail("resource attribute of provider %d %s (fails=%s)" % (i, "present" if not bad[i] else "missing", bad[i]), j,
                         tag="resource-isolation")
        d.shutdown()
        d.task_handler._pool.shutdown(wait=False)


def shutdown_reaches_every_plugin(ctx, n):
    """Deep.shutdown: every loaded plugin is shut down exactly once, whichever of them fail and whatever a plugin's base class does."""
    import deep.api.deep as api
    from deep.api.plugin import Plugin
    from deep.config.config_service import ConfigService
    from deep.config.tracepoint_config import TracepointConfigService
    rng = ctx.rng
    for _ in range(n):
        nplug = rng.choice([2, 3, 4, 5])
        bad = [rng.random() < 0.3 for _k in range(nplug)]
        calls = []

        class Plug(Plugin):
            def __init__(self, i, config):
                super().__init__("plug%d" % i, config)
                self.i = i

            def shutdown(self):
                calls.append(self.i)
                if bad[self.i]:
                    raise RuntimeError("plugin %d cannot shut down" % self.i)
                super().shutdown()
        cfg = ConfigService({"APP_ROOT": "/app", "NO_TRACE": True}, tracepoints=TracepointConfigService())
        plugs = [Plug(i, cfg) for i in range(nplug)]
        saved = api.load_plugins
        api.load_plugins = lambda config, custom=None: list(plugs)
        d = api.Deep(cfg)
        d.grpc.start = lambda: None
        d.poll = type("P", (), {"start": lambda s: None, "shutdown": lambda s: None})()
        j = dict(plugins=nplug, shutdown_fails=bad)
        ctx.case(j, nontrivial=True, bucket="shutdown")
        try:
            d.start()
            d.shutdown()
        except BaseException as e:
            ctx.fail("start / shutdown raised %r" % (e,), j, tag="shutdown-raised")
        finally:
            api.load_plugins = saved
            d.task_handler._pool.shutdown(wait=False)
        if sorted(calls) != list(range(nplug)):
            ctx.fail("%d plugins loaded; shutdown() was called on %r (each must be shut down exactly once, whichever of them fail: %r)" % (
                nplug, calls, bad), j, kind="history", tag="plugin-not-shut-down")


def run(ctx):
    import logging
    from ..lib.quiet import quiet_logging
    quiet_logging()
    ctx.rule = ("loader: 0-6 candidates each one of {usable, module missing, class missing, constructor raises, DidNotEnable, "
                "switched off by PLUGIN_<NAME> (text or bool), is_active false} with order in {None,-1,0,1,2,5}, through the real "
                "load_plugins; isolation: 1-3 span plugins (create / close failing), 1-3 metric processors, 1-3 snapshot "
                "decorators, a tracepoint logger, each failing with probability 0.4, one event through the real handler with a "
                "span + metric + collecting-log tracepoint; resource providers through Deep.start. Non-trivial: a usable and an "
                "unusable candidate together / at least one failing callback.")
    ctx.assumptions = [
        "a plugin 'fails' by raising an Exception subclass (a BaseException raised by a plugin is contained by the handler, C01, "
        "but may cost more than the plugin's own contribution)",
        "the translator's no-raise whitelist (see C01)",
    ]
    ctx.prove()
    ctx.extra_trusted.append("translator harness/translate/exnflow.py (loop bodies regenerated from /repo/src)")
    loader_cases(ctx, 600 if ctx.thorough else 120)
    isolation(ctx, 300 if ctx.thorough else 60)
    bundled_switches(ctx)
    shutdown_reaches_every_plugin(ctx, 60 if ctx.thorough else 15)


def replay(ctx, data):
    ctx.fail("replay re-runs the seeded generation: VERIF_SEED=%s check.py C20" % data.get("seed"))
