"""C06 -- collection is total and per-tracepoint independent (engine E1)."""
from ..lib import e1, objgen
from . import c07


def gen(ctx):
    rng = ctx.rng
    case = e1.gen_case(rng, hostile_p=rng.choice([0.15, 0.3, 0.5]), max_nodes=rng.choice([8, 20, 40]),
                       limits=dict(max_vars=rng.choice([3, 10, 1000, 1000]), max_coll=rng.choice([2, 10]),
                                   max_depth=rng.choice([2, 3, 5]), max_str=rng.choice([5, 64, 1024])))
    top = case["frames"][0]["locals"]
    # make sure hostile values also sit directly in the locals, as watch values and as dict keys
    for k in range(rng.choice([1, 2, 3])):
        top["h%d" % k] = objgen.hostile(rng)
    if rng.random() < 0.3:
        case["watches"].append(("hostile()", objgen.hostile(rng)))
    case["keep"].append(top)
    return case


def run(ctx):
    import logging
    from ..lib.quiet import quiet_logging
    quiet_logging()
    ctx.rule = ("synthetic frames whose locals / watch values / captured value hold hostile objects (bytes, datetime, deque, "
                "Enum, slotted objects, generators, iterators, raising __str__/__repr__/__getattr__/__len__, exceptions, "
                "int/tuple/None-keyed dicts, lone surrogates, modules, classes, builtins) mixed with ordinary graphs; 1-3 "
                "snapshot tracepoints on the same event; line, return and exception events. Non-trivial: at least one "
                "hostile object reachable; distinct: distinct heap description.")
    ctx.assumptions = [
        "raising dunder methods raise Exception subclasses (not KeyboardInterrupt/SystemExit)",
        "watch values are supplied by the harness in place of eval(); the time budget is not hit",
    ]
    ctx.prove()
    from deep.push import convert_snapshot
    saved = e1.install_clock()
    lits, cj = [], []
    try:
        n = 2000 if ctx.thorough else 350
        for i in range(n):
            case = gen(ctx)
            n_actions = ctx.rng.choice([1, 1, 2, 3])
            event = ctx.rng.choice(["line", "line", "return", "exception"])
            arg = None
            if event == "return":
                arg = objgen.hostile(ctx.rng) if ctx.rng.random() < 0.6 else [1, 2]
            elif event == "exception":
                arg = (ValueError, ValueError("x", objgen.hostile(ctx.rng)), None)
            case["keep"].append(arg)
            mcase = dict(case)
            if event != "line":
                # the captured value is collected like a watch, after the configured watches
                mcase["watches"] = case["watches"] + [(event, arg)]
            heap = e1.read_heap(mcase)
            desc = e1.describe(mcase, heap)
            desc.update(event=event, n_actions=n_actions)
            # tracepoints sharing the event collect DIFFERENTLY half of the time (own watches, own limits)
            per_action = None
            if n_actions > 1 and ctx.rng.random() < 0.5:
                per_action = []
                for k in range(n_actions):
                    ws = list(case["watches"])
                    ctx.rng.shuffle(ws)
                    ws = ws[:ctx.rng.randrange(len(ws) + 1)] + [("own%d()" % k, ctx.rng.choice(["billing", "shipping", [k, k + 1], {"k": k}]))]
                    lk = dict(case["limits"], max_vars=ctx.rng.choice([case["limits"]["max_vars"], 2, 1000]),
                              max_str=ctx.rng.choice([case["limits"]["max_str"], 3]))
                    per_action.append(dict(watches=ws, limits=lk))
                    case["keep"].append(ws)
            snaps, raised = e1.run_impl(case, n_actions=n_actions, event=event, arg=arg, per_action=per_action)
            hostile_reach = any(r["unprintable"] or r["ty"] in ("bytes", "datetime", "deque", "Color", "Slotted", "generator",
                                                                "list_iterator", "BadGetattr", "BadLen", "MyErr", "OD")
                                for r in heap.objs)
            ctx.case(dict(event=event, n_actions=n_actions, heap=[(h["ty"], h["kind"], len(h["children"])) for h in desc["heap"]]),
                     nontrivial=hostile_reach, bucket="%s x%d" % (event, n_actions))
            if raised is not None:
                ctx.fail("the handler raised %r into the program" % (raised,), desc, tag="raised")
                continue
            if len(snaps) != n_actions:
                ctx.fail("%d snapshot(s) produced for %d due tracepoint(s) on a %s event" % (len(snaps), n_actions, event), desc,
                         tag="snapshot-lost")
                continue
            views, mcases, heaps = [], [], []
            for k, s in enumerate(snaps):
                mk = dict(mcase)
                if per_action is not None:
                    mk["watches"] = per_action[k]["watches"] + ([(event, arg)] if event != "line" else [])
                    mk["limits"] = per_action[k]["limits"]
                hk = e1.read_heap(mk) if per_action is not None else heap
                mcases.append(mk)
                heaps.append(hk)
                try:
                    obs = e1.observe(s, hk)
                except Exception as ex:
                    ctx.fail("snapshot cannot be related to the program's objects: %r" % (ex,), desc, tag="unrelated")
                    obs = None
                views.append(obs)
                if convert_snapshot(s) is None:
                    ctx.fail("snapshot could not be converted for delivery (dropped)", desc, tag="undeliverable")
            if any(v is None for v in views):
                continue
            # every snapshot complete on its own: closed table, its own watches; identical tracepoints give identical snapshots
            for k, obs in enumerate(views):
                c07.oracle(ctx, mcases[k], heaps[k], obs, desc)
                if per_action is None and (obs["frames"] != views[0]["frames"] or obs["table"] != views[0]["table"] or obs["watches"] != views[0]["watches"]):
                    ctx.fail("snapshot %d of %d on one event differs from the first (shared/emptied state)" % (k + 1, n_actions),
                             desc, tag="not-independent")
                if any(snaps[k].var_lookup is snaps[q].var_lookup for q in range(len(snaps)) if q != k):
                    ctx.fail("two snapshots of one event hold the SAME variable table object", desc, tag="shared-table")
                top = case["frames"][0]["locals"]
                flags = e1.collect_flags(case)
                if flags[0] and len(top) < mcases[k]["limits"]["max_vars"] and mcases[k]["limits"]["max_depth"] > 1:
                    got = {v["name"] for v in obs["frames"][0]["vars"]}
                    if got != set(top.keys()):
                        ctx.fail("locals %s missing from the frame" % sorted(set(top.keys()) - got), desc, tag="locals-missing")
                # every entry carries the real type name; printable values carry their text
                for e in obs["table"]:
                    rec = heaps[k].objs[e["oid"]] if e["oid"] is not None else None
                    if rec is not None and e["ty"] != rec["ty"]:
                        ctx.fail("entry type %r for an object of type %r" % (e["ty"], rec["ty"]), desc, tag="type")
                try:
                    lits.append(e1.snap_literal(mcases[k], heaps[k], obs, e1.collect_flags(mcases[k])))
                    cj.append(desc)
                except ValueError as ex:
                    ctx.fail("snapshot cannot be related to the program's objects: %s" % ex, desc, tag="unrelated")
        history_independence(ctx)
    finally:
        e1.restore_clock(saved)
    ctx.correspond("collector", e1.IMPORTS, "snap_case", "check_snap_case_types", lits, cj, shard=60)


def _view(obs):
    """What a snapshot says, without the ids of this particular run's objects."""
    tbl = {e["vid"]: e for e in obs["table"]}

    def ent(vid, depth=0):
        e = tbl.get(vid)
        if e is None or depth > 6:
            return None
        return (e["ty"], e["val"], e["trunc"], tuple((c["name"], ent(c["vid"], depth + 1)) for c in e["children"]))
    return [[(v["name"], ent(v["vid"])) for v in f["vars"]] for f in obs["frames"]]


def history_independence(ctx):
    """A snapshot does not depend on what was collected BEFORE it in the process: the same frame collected before and after
    frames holding same-named but different classes (one of them cannot be looked into), and after everything else."""
    def mk_classes():
        class Item:                      # an ordinary class ...
            def __init__(self):
                self.name, self.price = "pen", 3

        ordinary = Item

        class Item:                      # ... and another class of the same NAME whose attribute dictionary cannot be read
            __slots__ = ()

            def __getattr__(self, k):
                raise RuntimeError("no attributes")
        return ordinary, Item
    ordinary, slotted = mk_classes()
    limits = dict(max_vars=100, max_coll=10, max_depth=5, max_str=64)

    def case_of(obj, file):
        return dict(frames=[dict(file=file, func="f", line=5, locals={"item": obj, "n": 1})], watches=[], limits=limits,
                    frame_type="single_frame", keep=[obj])

    def collect(case):
        snaps, raised = e1.run_impl(case)
        if raised is not None or len(snaps) != 1:
            return None
        return _view(e1.observe(snaps[0], e1.read_heap(case)))
    seq = [("ordinary", case_of(ordinary(), "/app/shop.py")), ("unreadable", case_of(slotted(), "/app/wire.py")),
           ("ordinary", case_of(ordinary(), "/app/shop.py")), ("unreadable", case_of(slotted(), "/app/wire.py")),
           ("ordinary", case_of(ordinary(), "/app/shop.py"))]
    views = [(k, collect(c)) for k, c in seq]
    j = dict(history=[k for k, _ in seq], note="two classes both named Item: an ordinary one and one whose attribute lookup raises")
    ctx.case(j, nontrivial=True, bucket="history")
    firsts = {}
    for i, (k, v) in enumerate(views):
        if v is None:
            ctx.fail("no snapshot for the %s frame at step %d of %s" % (k, i, [x for x, _ in seq]), j, kind="history", tag="history-no-snapshot")
        elif k in firsts and v != firsts[k]:
            ctx.fail("the %s frame collected at step %d reads %r; the same frame collected first read %r - a collection left something behind "
                     "in the process" % (k, i, v, firsts[k]), j, kind="history", tag="depends-on-history")
        else:
            firsts.setdefault(k, v)


def replay(ctx, data):
    ctx.fail("replay re-runs the seeded generation: VERIF_SEED=%s check.py C06" % data.get("seed"))
