"""C08 -- wire fidelity: the service receives every snapshot field intact, with auth (engine E6).

Tie: TRANSLATOR for the mapping (coq/gen/WireMap.v: the (message field, record field) tables read off the
converter functions of push/__init__.py and the field lists of the record classes, regenerated on every run;
props/C08.v re-proves that each table equals the intended pairing and is lossless) + search: snapshots
produced by the real collector on generated (also hostile) object graphs and synthetic variations go
through the real convert_snapshot, SerializeToString and FromString, and every field of the parsed message
is compared with the snapshot (an oracle written from the .proto field names, independent of the tables).
Auth: real GRPCService.metadata() with the configured provider; the requests of LongPoll.poll and
PushService._push_task are captured at scripted stubs."""
import base64
import enum
import http
import threading

from ..lib import e1
from ..lib import e5


class _Colour(str, enum.Enum):
    RED = "red"


class _Ratio(float):
    pass


class _Label(str):
    pass


def sanitize(t):
    """What a protobuf string can carry of t: itself, or lone surrogates escaped."""
    if t is None:
        return ""
    try:
        t.encode("utf-8")
        return t
    except UnicodeEncodeError:
        return t.encode("utf-8", "backslashreplace").decode("utf-8")


def any_value(v):
    kind = v.WhichOneof("value")
    if kind is None:
        return None
    if kind == "array_value":
        return tuple(any_value(x) for x in v.array_value.values)
    if kind == "kvlist_value":
        return {kv.key: any_value(kv.value) for kv in v.kvlist_value.values}
    return getattr(v, kind)


def compare(ctx, snap, msg, j):
    def bad(what, got, want):
        ctx.fail("%s arrives as %r, the snapshot holds %r" % (what, got, want), j, tag="field:" + what.split("[")[0].split(" ")[0])
    if int.from_bytes(msg.ID, "big") != snap.id:
        bad("snapshot id", msg.ID, snap.id)
    if msg.ts_nanos != snap.ts_nanos:
        bad("ts_nanos", msg.ts_nanos, snap.ts_nanos)
    if msg.duration_nanos != snap.duration_nanos:
        bad("duration_nanos", msg.duration_nanos, snap.duration_nanos)
    if msg.log_msg != sanitize(snap.log_msg):
        bad("log_msg", msg.log_msg, snap.log_msg)
    tp = snap.tracepoint
    if (msg.tracepoint.ID, msg.tracepoint.path, msg.tracepoint.line_number) != (tp.id, tp.path, tp.line_no):
        bad("tracepoint id/path/line", (msg.tracepoint.ID, msg.tracepoint.path, msg.tracepoint.line_number), (tp.id, tp.path, tp.line_no))
    if dict(msg.tracepoint.args) != {str(k): str(v) for k, v in tp.args.items()}:
        bad("tracepoint args", dict(msg.tracepoint.args), tp.args)
    if list(msg.tracepoint.watches) != list(tp.watches):
        bad("tracepoint watches", list(msg.tracepoint.watches), tp.watches)

    def vid_ok(m, v, what):
        if v is None:
            return
        got = (m.ID, m.name, list(m.modifiers), m.original_name)
        want = (v.vid, sanitize(v.name), list(v.modifiers), sanitize(v.original_name))
        if got != want:
            bad("variable reference of %s" % what, got, want)
    if len(msg.frames) != len(snap.frames):
        bad("frames count", len(msg.frames), len(snap.frames))
    for i, (m, f) in enumerate(zip(msg.frames, snap.frames)):
        got = (m.file_name, m.short_path, m.method_name, m.line_number, m.class_name, m.is_async, m.column_number, m.app_frame,
               m.transpiled_file_name, m.transpiled_line_number, m.transpiled_column_number)
        want = (f.file_name, f.short_path, f.method_name, f.line_number, f.class_name or "", bool(f.is_async), f.column_number or 0,
                bool(f.app_frame), f.transpiled_file_name or "", f.transpiled_line_number or 0, f.transpiled_column_number or 0)
        if got != want:
            bad("frame[%d]" % i, got, want)
        if len(m.variables) != len(f.variables):
            bad("frame variables count", len(m.variables), len(f.variables))
        for mv, fv in zip(m.variables, f.variables):
            vid_ok(mv, fv, "frame %d" % i)
    if set(msg.var_lookup.keys()) != {str(k) for k in snap.var_lookup.keys()}:
        bad("var_lookup ids", sorted(msg.var_lookup.keys()), sorted(snap.var_lookup.keys()))
    for k, v in snap.var_lookup.items():
        m = msg.var_lookup.get(str(k))
        if m is None:
            continue
        got = (m.type, m.value, m.hash, m.truncated, len(m.children))
        want = (v.type, sanitize(v.value), v.hash, bool(v.truncated), len(v.children))
        if got != want:
            bad("var_lookup entry", got, want)
        for mc, vc in zip(m.children, v.children):
            vid_ok(mc, vc, "entry %s" % k)
    if len(msg.watches) != len(snap.watches):
        bad("watches count", len(msg.watches), len(snap.watches))
    from deepproto.proto.tracepoint.v1.tracepoint_pb2 import WatchSource
    for m, w in zip(msg.watches, snap.watches):
        if m.expression != sanitize(w.expression) or WatchSource.Name(m.source) != w.source:
            bad("watch expression/source", (m.expression, WatchSource.Name(m.source)), (w.expression, w.source))
        which = m.WhichOneof("result")
        if w.error is not None:
            if which != "error_result" or m.error_result != sanitize(w.error):
                bad("watch error", (which, m.error_result), w.error)
        else:
            if which != "good_result":
                bad("watch result kind", which, "good_result")
            else:
                vid_ok(m.good_result, w.result, "watch %s" % w.expression)
    for name, pairs, src in (("attributes", msg.attributes, snap.attributes), ("resource", msg.resource, snap.resource.attributes)):
        got = {kv.key: any_value(kv.value) for kv in pairs}
        want = {k: (tuple(v) if isinstance(v, (list, tuple)) else v) for k, v in src.items()}
        if got != want:
            diff = {k: (got.get(k), want.get(k)) for k in set(got) | set(want) if got.get(k) != want.get(k)}
            bad("%s" % name, diff, "(see left: message vs snapshot)")


def text_cases(ctx, n):
    """The text sanitiser of push/__init__.py against Wire.sanitize (in Coq)."""
    import deep.push as push_mod
    from ..lib import coqlit as L
    fn = getattr(push_mod, "_%s__text" % "push", None) or push_mod.__dict__.get("__text")
    rng = ctx.rng
    lits, cj = [], []
    alphabet = ["a", "é", "日", "\ud800", "\udfff", "\udc00", "\U0001F600", "\\", "u", "d", "8", "0", " ", "\ud7ff", "\ue000"]
    for _ in range(n):
        t = "".join(rng.choice(alphabet) for _ in range(rng.choice([0, 1, 3, 8, 20])))
        try:
            out = fn(t)
        except BaseException as e:
            ctx.fail("text sanitiser raised %r on %r" % (e, t), dict(text=repr(t)), tag="text-raised")
            continue
        ctx.case(dict(text=repr(t)), nontrivial=any(0xD800 <= ord(c) <= 0xDFFF for c in t), bucket="text")
        try:
            out.encode("utf-8")
        except UnicodeEncodeError:
            ctx.fail("sanitised text %r is still not valid unicode" % (out,), dict(text=repr(t)), tag="text-invalid")
        lits.append("{| tx_in := %s; tx_obs := %s |}" % (L.s(t), L.s(out)))
        cj.append(dict(text=repr(t)))
    ctx.correspond("text", ["Base", "Wire"], "text_case", "check_text_case", lits, cj, shard=300)


def auth_cases(ctx):
    import deep.push.push_service as ps
    import deep.poll.poll as pollmod
    from deep.api.auth import AuthProvider
    from deep.api.resource import Resource
    from deep.config.config_service import ConfigService
    from deep.config.tracepoint_config import TracepointConfigService
    from deep.grpc.grpc_service import GRPCService
    from deep.poll import LongPoll
    from deep.push.push_service import PushService
    import harness.props.c08 as me

    class Token(AuthProvider):
        def provide(self):
            return [("authorization", "Bearer tok-%s" % self._config.APP_ROOT), ("x-extra", "1")]
    me.Token = Token
    sent = []

    class Stub:
        def __init__(self, channel):
            pass

        def send(self, converted, metadata=None):
            sent.append(("send", metadata))

        def poll(self, request, metadata=None):
            sent.append(("poll", metadata))
            return e5.poll_no_change(1)
    saved = (ps.SnapshotServiceStub, pollmod.PollConfigStub)
    ps.SnapshotServiceStub, pollmod.PollConfigStub = Stub, Stub
    try:
        configs = [
            ({"SERVICE_AUTH_PROVIDER": None}, []),
            ({"SERVICE_AUTH_PROVIDER": ""}, []),
            ({"SERVICE_AUTH_PROVIDER": "deep.api.auth.BasicAuthProvider", "SERVICE_USERNAME": "bob", "SERVICE_PASSWORD": "pw:é"},
             [("authorization", "Basic%20" + base64.b64encode("bob:pw:é".encode()).decode())]),
            ({"SERVICE_AUTH_PROVIDER": "deep.api.auth.BasicAuthProvider"}, []),
            ({"SERVICE_AUTH_PROVIDER": "harness.props.c08.Token"}, [("authorization", "Bearer tok-/app"), ("x-extra", "1")]),
            # what the provider provides is attached whatever the transport setting says
            ({"SERVICE_AUTH_PROVIDER": "harness.props.c08.Token", "SERVICE_SECURE": "False"}, [("authorization", "Bearer tok-/app"), ("x-extra", "1")]),
            ({"SERVICE_AUTH_PROVIDER": "harness.props.c08.Token", "SERVICE_SECURE": False}, [("authorization", "Bearer tok-/app"), ("x-extra", "1")]),
            ({"SERVICE_AUTH_PROVIDER": "deep.api.auth.BasicAuthProvider", "SERVICE_USERNAME": "u", "SERVICE_PASSWORD": "p", "SERVICE_SECURE": "no"},
             [("authorization", "Basic%20" + base64.b64encode(b"u:p").decode())]),
        ]
        for custom, want in configs:
            cfg = ConfigService(dict(custom, APP_ROOT="/app", SERVICE_URL="localhost:1"), tracepoints=TracepointConfigService())
            cfg.resource = Resource.create()
            grpc = GRPCService(cfg)
            del sent[:]
            j = dict(auth=custom)
            ctx.case(j, bucket="auth")
            try:
                LongPoll(cfg, grpc).poll()
                LongPoll(cfg, grpc).poll()
                case = e1.gen_case(ctx.rng, max_nodes=5, n_frames=1, n_watch=0)
                snaps, _ = e1.run_impl(case)
                PushService(grpc, None)._push_task(snaps[0])
            except BaseException as e:
                ctx.fail("request with auth configuration %r raised %r" % (custom, e), j, tag="auth-raised")
                continue
            kinds = [k for k, _m in sent]
            if kinds != ["poll", "poll", "send"]:
                ctx.fail("requests made: %r" % kinds, j, tag="auth-requests")
            for k, md in sent:
                if list(md or []) != want:
                    ctx.fail("%s request carries metadata %r, the configured provider provides %r" % (k, md, want), j, tag="auth-metadata")
        # a provider that fails once, and a provider that is slow while another thread asks: every request that
        # LEAVES must still carry the provider's metadata
        state = {"calls": 0, "fail_first": True, "gate": None}

        class Flaky(AuthProvider):
            def provide(self):
                state["calls"] += 1
                if state["fail_first"] and state["calls"] == 1:
                    raise RuntimeError("token service unavailable")
                if state["gate"] is not None:
                    state["entered"].set()
                    state["gate"].wait(2)
                return [("authorization", "Bearer s3cr3t")]
        me.Flaky = Flaky
        for scenario in ("provider fails on its first call", "provider is slow while another thread sends"):
            cfg = ConfigService({"SERVICE_AUTH_PROVIDER": "harness.props.c08.Flaky", "APP_ROOT": "/app", "SERVICE_URL": "localhost:1"},
                                tracepoints=TracepointConfigService())
            cfg.resource = Resource.create()
            grpc = GRPCService(cfg)
            del sent[:]
            state.update(calls=0, fail_first=scenario.startswith("provider fails"), gate=None)
            j = dict(auth=scenario)
            ctx.case(j, bucket="auth-faulty-provider")
            if state["fail_first"]:
                for _ in range(3):
                    try:
                        LongPoll(cfg, grpc).poll()
                    except BaseException:
                        pass            # the request did not leave: fine
            else:
                state["gate"], state["entered"] = threading.Event(), threading.Event()
                t = threading.Thread(target=lambda: LongPoll(cfg, grpc).poll(), daemon=True)
                t.start()
                state["entered"].wait(2)
                t2 = threading.Thread(target=lambda: LongPoll(cfg, grpc).poll(), daemon=True)
                state["entered"].clear()
                t2.start()
                state["entered"].wait(0.3)
                state["gate"].set()
                t.join(3)
                t2.join(3)
            for k, md in sent:
                if list(md or []) != [("authorization", "Bearer s3cr3t")]:
                    ctx.fail("%s: a %s request left with metadata %r instead of the provider's" % (scenario, k, md), j, tag="auth-metadata")
            if not sent:
                ctx.fail("%s: no request was ever sent" % scenario, j, tag="auth-requests")
    finally:
        ps.SnapshotServiceStub, pollmod.PollConfigStub = saved


def run(ctx):
    import logging
    from ..lib.quiet import quiet_logging
    quiet_logging()
    from deep.push import convert_snapshot
    from deep.api.tracepoint.eventsnapshot import WatchResult, VariableId, Variable
    from deepproto.proto.tracepoint.v1.tracepoint_pb2 import Snapshot
    ctx.rule = ("snapshots produced by the real collector on generated object graphs (20% hostile values: lone surrogates, non-UTF-8 "
                "bytes, raising dunders, non-string keys; 1-3 frames, 0-3 watches, limits from tiny to large) plus synthetic "
                "variations (error watches, log message with a lone surrogate, tuple / list / bool / float / int attributes, "
                "numeric tracepoint arguments, empty table, a 3000-entry table), converted with the real convert_snapshot, "
                "serialised and parsed back; 5 auth configurations x (2 polls + 1 send). Non-trivial: a non-empty table.")
    ctx.assumptions = [
        "protobuf's encoder / decoder and gRPC are exercised, not modelled (partial)",
        "text that is not valid unicode cannot be carried by a protobuf string: it arrives with its lone surrogates escaped "
        "(the repair recorded for C06); every other field arrives unchanged",
        "absent optional text / numbers arrive as the protobuf defaults ('' / 0)",
    ]
    ctx.prove()
    ctx.extra_trusted.append("translator harness/translate/wiremap.py (keyword arguments of the protobuf constructor calls; property getters of the record classes)")
    saved = e1.install_clock()
    rng = ctx.rng
    try:
        n = 1500 if ctx.thorough else 250
        for i in range(n):
            case = e1.gen_case(rng, hostile_p=rng.choice([0.0, 0.2, 0.4]), max_nodes=rng.choice([5, 20, 60]))
            extra = {}
            if rng.random() < 0.3:
                extra["fire_count"] = rng.choice([5, "7", -1])
            snaps, raised = e1.run_impl(case, extra_cfg=extra)
            if raised is not None or not snaps:
                continue
            s = snaps[0]
            variation = rng.choice(["none", "none", "error-watch", "log", "attrs", "huge", "empty", "method-tracepoint"])
            if variation == "method-tracepoint":
                # a tracepoint placed on a METHOD has no line of its own: the agent holds -1 for it (FunctionLocation.line)
                from deep.api.tracepoint.tracepoint_config import TracePointConfig
                tp_ = s.tracepoint
                s._tracepoint = TracePointConfig(tp_.id, tp_.path, -1, dict(tp_.args, method_name="handler"), list(tp_.watches), [])
            if variation == "error-watch":
                s.add_watch_result(WatchResult("WATCH", "bad \ud800 expr", None, rng.choice(["boom", "lone \udfff", ""])))
            elif variation == "log":
                s.log_msg = rng.choice(["[deep] plain", "[deep] \ud83d alone", "", "[deep] é日本"])
            elif variation == "attrs":
                s.attributes.merge_in({"t": ("a", "b"), "n": 5, "f": 1.5, "b": True, "seq": [1, 2, 3], "s": "x"})
                # values that are instances of SUBCLASSES of the supported types are admitted by the store: they arrive too
                s.attributes.merge_in({"status": http.HTTPStatus.OK, "colour": _Colour.RED, "ratio": _Ratio(2.5), "label": _Label("lbl"),
                                       "codes": (http.HTTPStatus.OK, http.HTTPStatus.NOT_FOUND)})
            elif variation == "huge":
                for q in range(3000):
                    s.var_lookup[str(10000 + q)] = Variable("int", str(q), str(q), [VariableId(str(10000 + q), "self%d" % q)], False)
            elif variation == "empty":
                s.var_lookup.clear()
            j = dict(variation=variation, limits=case["limits"], frames=len(case["frames"]), watches=[w for w, _ in case["watches"]],
                     table=len(s.var_lookup))
            ctx.case(j, nontrivial=bool(s.var_lookup), bucket=variation)
            msg = convert_snapshot(s)
            if msg is None:
                ctx.fail("the snapshot could not be converted: it is dropped instead of delivered", j, tag="unconvertible")
                continue
            try:
                back = Snapshot.FromString(msg.SerializeToString())
            except BaseException as e:
                ctx.fail("the converted snapshot does not survive serialisation: %r" % (e,), j, tag="serialisation")
                continue
            compare(ctx, s, back, j)
    finally:
        e1.restore_clock(saved)
    auth_cases(ctx)
    text_cases(ctx, 1500 if ctx.thorough else 300)


def replay(ctx, data):
    ctx.fail("replay re-runs the seeded generation: VERIF_SEED=%s check.py C08" % data.get("seed"))
