"""C01 -- host transparency: the agent never changes what the host program does (engines E3 + E2).

Tie: TRANSLATOR.  coq/gen/Skeleton.v is regenerated from /repo/src/deep on every run (Python ast ->
ExnFlow term for TriggerHandler.trace_call with everything it calls inlined, unknown calls opaque and
raising anything); props/C01.v re-proves on it that no exception class escapes and that every return hands
the trace function back except on the two documented branches.
Search: (a) fault injection at ~35 named sites inside the handler's call tree x {Exception, BaseException}
x scenarios (tracepoints of every kind, hostile values, malformed configurations): nothing may escape and
the trace function must be returned; (b) differential live runs of host programs (recursion, generator,
caught and propagating exceptions, threads, objects with raising dunders) with and without the agent:
same results, same exceptions, same output, same final data, trace function still installed."""
import contextlib
import io
import os
import sys
import threading

from ..lib import e2
from ..lib import objgen


class Boom(BaseException):
    """A BaseException that is not an Exception (stands for KeyboardInterrupt / SystemExit / GeneratorExit)."""


SITES = [
    ("deep.processor.frame_collector", "FrameCollector.collect"),
    ("deep.processor.frame_collector", "FrameCollector._process_frame"),
    ("deep.processor.frame_collector", "FrameCollector.parse_short_name"),
    ("deep.processor.variable_set_processor", "VariableSetProcessor.process_variable"),
    ("deep.processor.variable_set_processor", "VariableSetProcessor.search_function"),
    ("deep.processor.variable_set_processor", "VariableSetProcessor.check_var_count"),
    ("deep.processor.context.trigger_context", "TriggerContext.evaluate_expression"),
    ("deep.processor.context.trigger_context", "TriggerContext.action_context"),
    ("deep.processor.context.trigger_context", "TriggerContext.__exit__"),
    ("deep.processor.context.trigger_context", "TriggerContext.attach_result"),
    ("deep.processor.context.trigger_context", "uuid.uuid4"),
    ("deep.processor.context.trigger_context", "time_ns"),
    ("deep.processor.context.callback_context", "CallbackContext.process"),
    ("deep.processor.context.callback_context", "CallbackContext.at_location"),
    ("deep.processor.context.callback_context", "CallbackContext.__init__"),
    ("deep.api.tracepoint.trigger", "Trigger.at_location"),
    ("deep.api.tracepoint.trigger", "LineLocation.at_location"),
    ("deep.api.tracepoint.trigger", "FunctionLocation.at_location"),
    ("deep.api.tracepoint.trigger", "LocationAction.can_trigger"),
    ("deep.api.tracepoint.trigger", "LocationAction.try_trigger"),
    ("deep.api.tracepoint.trigger", "inspect.getsourcelines"),
    ("deep.processor.context.action_context", "ActionContext.process"),
    ("deep.processor.context.action_context", "ActionContext.can_trigger"),
    ("deep.processor.context.action_context", "ActionContext.eval_watch"),
    ("deep.processor.context.action_context", "ActionContext.process_capture_variable"),
    ("deep.processor.context.action_context", "ActionContext.__exit__"),
    ("deep.processor.context.snapshot_action", "SnapshotActionContext._process_action"),
    ("deep.processor.context.snapshot_action", "DeferredSnapshotActionResult._decorate_snapshot"),
    ("deep.processor.context.snapshot_action", "DeferredSnapshotActionCallback.process"),
    ("deep.processor.context.snapshot_action", "EventSnapshot"),
    ("deep.processor.context.log_action", "LogActionContext.process_log"),
    ("deep.processor.context.log_action", "LogActionResult.process"),
    ("deep.processor.context.span_action", "SpanActionContext._process_action"),
    ("deep.processor.context.span_action", "SpanActionCallback.process"),
    ("deep.processor.context.metric_action", "MetricActionContext._process_metric"),
    ("deep.processor.trigger_handler", "TriggerHandler.location_from_event"),
    ("deep.processor.trigger_handler", "TriggerContext"),
    ("deep.thread_local", "ThreadLocal.get"),
    ("deep.thread_local", "ThreadLocal.clear"),
    ("deep.config.config_service", "ConfigService.is_app_frame"),
]


class Inject:
    """Replace module.path by a wrapper that raises `exc` at its k-th call (then behaves normally)."""

    def __init__(self, module, path, exc, k):
        import importlib
        self.mod = importlib.import_module(module)
        parts = path.split(".")
        self.owner = self.mod
        for p in parts[:-1]:
            self.owner = getattr(self.owner, p)
        self.name = parts[-1]
        self.exc, self.k = exc, k
        self.calls = 0
        self.fired = False

    def __enter__(self):
        self.orig = self.owner.__dict__[self.name] if self.name in getattr(self.owner, "__dict__", {}) else getattr(self.owner, self.name)
        orig, me = self.orig, self
        target = orig.fget if isinstance(orig, property) else orig

        def wrapper(*a, **kw):
            me.calls += 1
            if me.calls == me.k:
                me.fired = True
                raise me.exc("injected at %s (call %d)" % (me.name, me.k))
            return target(*a, **kw)
        if isinstance(orig, type):
            class Sub(orig):
                def __init__(s, *a, **kw):
                    me.calls += 1
                    if me.calls == me.k:
                        me.fired = True
                        raise me.exc("injected at %s" % me.name)
                    super().__init__(*a, **kw)
            setattr(self.owner, self.name, Sub)
        else:
            setattr(self.owner, self.name, wrapper)
        return self

    def __exit__(self, *a):
        setattr(self.owner, self.name, self.orig)


def scenario(kind):
    """(triggers, event list) -- every action kind, deferred work, hostile values."""
    from deep.api.tracepoint.trigger import LocationAction, Trigger, LineLocation, FunctionLocation, Location
    from deep.api.tracepoint.tracepoint_config import MetricDefinition, LabelExpression
    conf = {"fire_count": "-1", "fire_period": "0"}
    snap = LocationAction("tp-s", "a > 0", dict(conf, frame_type="all_frame", watches=["a", "missing", "bad.x"], log_msg="v={a} {boom()}"),
                          LocationAction.ActionType.Snapshot)
    log = LocationAction("tp-l", None, dict(conf, log_msg="plain {s}"), LocationAction.ActionType.Log)
    metric = LocationAction("tp-m", None, dict(conf, metrics=[MetricDefinition("m", "COUNTER", [LabelExpression("k", None, "a")], "a")]),
                            LocationAction.ActionType.Metric)
    span = LocationAction("tp-sp", None, dict(conf, span="line"), LocationAction.ActionType.Span)
    mspan = LocationAction("tp-ms", None, dict(conf, span="method"), LocationAction.ActionType.Span)
    mcap = LocationAction("tp-mc", None, dict(conf, stage="method_capture", frame_type="single_frame", watches=[]), LocationAction.ActionType.Snapshot)
    trigs = [Trigger(LineLocation("m.py", 7, Location.Position.START), [snap, log, metric, span]),
             Trigger(FunctionLocation("m.py", "f", Location.Position.START), [mspan, mcap])]
    if kind == "nameless":
        trigs.append(Trigger(FunctionLocation("m.py", None, Location.Position.START), [log]))

    def boom():
        raise ValueError("boom")
    loc = {"a": 3, "s": "txt", "bad": objgen.BadGetattr(), "h": objgen.BadStr(), "r": objgen.BadRepr(), "boom": boom,
           "d": {1: "x", (2, 3): objgen.BadLen()}, "g": (i for i in range(3)), "self": objgen.Plain()}
    fr = e2.mk_frame("/app/m.py", "f", 1, loc, back=e2.mk_frame("/app/caller.py", "main", 20, {"z": 1}))
    events = [("call", 1, None), ("line", 6, None), ("line", 7, None), ("line", 8, None), ("exception", 8, (ValueError, ValueError("x"), None)),
              ("line", 7, None), ("return", 9, objgen.BadStr())]
    return trigs, fr, events


def fault_enumeration(ctx):
    cases = 0
    for kind in (["plain", "nameless"] if not ctx.thorough else ["plain", "nameless", "plain"]):
        for module, path in SITES:
            for exc in (RuntimeError, Boom):
                for k in ((1, 2, 3) if ctx.thorough else (1, 2)):
                    world = e2.World(logger=True, spans=2, metrics=1)
                    world.clear_pending()
                    trigs, fr, events = scenario(kind)
                    world.install(trigs)
                    j = dict(scenario=kind, site="%s:%s" % (module, path), raises=exc.__name__, at_call=k)
                    try:
                        inj = Inject(module, path, exc, k)
                    except (AttributeError, ImportError):
                        ctx.skip("fault site %s:%s not found in the current source" % (module, path))
                        break
                    escaped, wrong_ret = None, None
                    with inj:
                        for (ev, line, arg) in events:
                            fr.f_lineno = line
                            ret, e = world.event(fr, ev, arg)
                            if e is not None:
                                escaped = (ev, line, e)
                                break
                            if ret is None or getattr(ret, "__name__", "") != "trace_call":
                                wrong_ret = (ev, line, ret)
                    world.clear_pending()
                    cases += 1
                    ctx.case(j, nontrivial=inj.fired, bucket="fault %s" % exc.__name__)
                    if escaped is not None:
                        ctx.fail("a %s injected at %s (call %d) was raised into the application at the %s event of line %d: %r" % (
                            exc.__name__, path, k, escaped[0], escaped[1], escaped[2]), j, kind="fault", tag="escaped:" + path)
                    elif wrong_ret is not None:
                        ctx.fail("after a %s injected at %s the handler returned %r at the %s event: tracing of the frame is switched off" % (
                            exc.__name__, path, wrong_ret[2], wrong_ret[0]), j, kind="fault", tag="untraced:" + path)
    return cases


HOST_SRC = '''
import threading
import random
import traceback
class Session(dict):
    """a mapping that notices being read (as web sessions do)"""
    accessed = False
    def __getitem__(self, k):
        self.accessed = True
        return dict.__getitem__(self, k)
    def __iter__(self):
        self.accessed = True
        return dict.__iter__(self)
    def __len__(self):
        self.accessed = True
        return dict.__len__(self)
    def keys(self):
        self.accessed = True
        return dict.keys(self)

class Walked(list):
    walks = 0
    def __iter__(self):
        self.walks += 1
        return list.__iter__(self)
    def __len__(self):
        self.walks += 1
        return list.__len__(self)

def handle(session, walked):
    user = "u-7"                                # the session and the list are only passed through, never read
    reply = user.upper()
    return reply

def draws():
    random.seed(7)                              # a seeded host: the numbers it draws are part of its result
    a = random.random()
    b = random.randint(1, 100)
    return (a, b, random.random())
class Weird:
    def __init__(self, n):
        self.n = n
    def __str__(self):
        raise ValueError("no str")
    def __repr__(self):
        raise ValueError("no repr")
    def __len__(self):
        raise TypeError("no len")
    def __getattr__(self, item):
        raise KeyError(item)
    def __eq__(self, other):
        return isinstance(other, Weird) and other.__dict__["n"] == self.__dict__["n"]
    def __hash__(self):
        return 7

class Base:
    def area(self):
        return 1

class Shape(Base):
    def __init__(self, s):
        super().__init__()
        self.s = s
    def area(self):
        extra = self.s * 2
        return super().area() + extra            # zero-argument super(): needs the frame's __class__ cell

def counter():
    count = 0
    def bump(k):
        nonlocal count
        count += k                               # a cell shared with the enclosing frame
        return count
    return [bump(i) for i in range(4)], count

rate = 2
bonus_total = 0

def priced(items):
    global bonus_total
    rate = 10                      # a local that shadows the module global
    bonus = 3
    total = sum(i + bonus for i in items) * rate
    bonus_total += bonus
    return total

API_TOKEN = "tok-123"

def login(user, password):
    secret = password[::-1]                     # variables whose NAMES look like credentials: the host goes on using them
    token = "%s:%s" % (user, secret)
    api_key = len(token)
    credential = {"user": user, "passwd": password}
    ok = password == "hunter2" and credential["passwd"] == password
    return (ok, token, api_key, API_TOKEN, sorted(credential.items()))

def stream():
    it = iter([1, 2, 3])                        # one-shot iterators held in locals while the function goes on
    pairs = zip("ab", [1, 2])
    squares = (i * i for i in range(3))
    first = next(it)
    rest = list(it)
    return (first, rest, list(pairs), sum(squares))

def fib(n):
    w = Weird(n)
    if n < 2:
        return n
    return fib(n - 1) + fib(n - 2)

def gen(n):
    for i in range(n):
        yield i * i

def risky(k):
    data = {"k": k, 1: Weird(k)}
    if k % 2:
        raise KeyError(k)
    return data

def worker(out, k):
    try:
        out.append(("ok", sorted(str(x) for x in risky(k).keys())))
    except KeyError as e:
        out.append(("err", e.args, [f.name for f in traceback.extract_tb(e.__traceback__)]))

def main():
    out = []
    print("start")
    out.append(fib(6))
    out.append(sum(gen(5)))
    out.append((priced([1, 2, 3]), rate))
    out.append([Shape(i).area() for i in range(3)])
    sess, walked = Session(k=1), Walked([1, 2, 3])
    out.append(handle(sess, walked))
    out.append((sess.accessed, walked.walks))
    out.append(draws())
    out.append(login("ann", "hunter2"))
    out.append(stream())
    out.append(counter())
    out.append([Shape(i).area() for i in range(2)])
    ts = [threading.Thread(target=worker, args=(out, k)) for k in range(4)]
    for t in ts:
        t.start()
    for t in ts:
        t.join()
    try:
        risky(3)
    except KeyError as e:
        out.append(repr(e))
        out.append(("raised through", [f.name for f in traceback.extract_tb(e.__traceback__)]))     # the host reads its own traceback
    print("done", len(out))
    return sorted(out, key=repr)
'''


def differential(ctx, n):
    import os
    from deep.api.tracepoint.trigger import build_trigger
    from deep.api.tracepoint.tracepoint_config import MetricDefinition
    rng = ctx.rng
    d = os.path.join(os.path.dirname(os.path.dirname(os.path.dirname(os.path.abspath(__file__)))), "build", "live_c01")
    os.makedirs(d, exist_ok=True)
    lines = HOST_SRC.split("\n")
    code_lines = [i + 1 for i, t in enumerate(lines) if t.strip() and not t.strip().startswith(("class", "def", "import"))]

    def run_host(tracer):
        glb = {"__name__": "hostprog"}
        buf = io.StringIO()
        res = {}

        def body():
            if tracer:
                threading.settrace(tracer)
                sys.settrace(tracer)
            try:
                with contextlib.redirect_stdout(buf):
                    res["value"] = glb["main"]()
            except BaseException as e:
                res["raised"] = repr(e)
            finally:
                # the host's final data: its module namespace (functions and classes by name, values by repr)
                res["globals"] = {k: (repr(v) if not callable(v) and not isinstance(v, type(sys)) else "<callable/module>")
                                  for k, v in glb.items() if k != "__builtins__"}
                res["trace_after"] = sys.gettrace()
                sys.settrace(None)
                threading.settrace(None)
        exec(compile(HOST_SRC, path, "exec"), glb)
        t = threading.Thread(target=body)
        t.start()
        t.join()
        return res, buf.getvalue()
    for k in range(n):
        path = os.path.join(d, "hostprog_%d_%d.py" % (os.getpid(), k))
        base = os.path.basename(path)
        with open(path, "w") as fh:
            fh.write(HOST_SRC)
        world = e2.World(logger=True, spans=rng.choice([0, 1, 2]), metrics=rng.choice([0, 1]))
        world.clear_pending()
        trigs, tdesc = [], []
        for i in range(rng.choice([1, 3, 6])):
            args = {"fire_count": rng.choice(["-1", "2", "abc"]), "fire_period": "0"}
            r = rng.random()
            if r < 0.2:
                args["log_msg"] = rng.choice(["n={n} w={w}", "{", "{n!r:>5}", "}{", "{w.x}", "{1/0}"])
            if r < 0.4:
                args["condition"] = rng.choice(["n > 1", "w", "w.x", "1/0", "undefined_name", ""])
            if rng.random() < 0.3:
                args["span"] = rng.choice(["line", "method", "weird"])
            if rng.random() < 0.3:
                args["snapshot"] = rng.choice(["no_collect", "collect"])
            if rng.random() < 0.3:
                args["frame_type"] = rng.choice(["all_frame", "no_frame", "x"])
            if rng.random() < 0.3:
                args["method_name"] = rng.choice(["fib", "gen", "risky", "worker", "nope"])
            if rng.random() < 0.15:
                args["stage"] = rng.choice(["method_start", "method_capture", "line_capture", "line_end", "what"])
            watches = rng.sample(["n", "w", "w.x", "len(w)", "data", "k", "1/0", "str(w)", "sum(i + bonus for i in items)",
                                  "[rate * i for i in items]", "(lambda: bonus)()", "undefined_thing"], rng.choice([0, 1, 3, 5]))
            metrics = [MetricDefinition("m", rng.choice(["COUNTER", "GAUGE", "odd"]), [], rng.choice([None, "n", "w", "1/0"]))] if rng.random() < 0.3 else []
            line = rng.choice(code_lines)
            try:
                t = build_trigger("tp%d" % i, base, line, args, watches, metrics)
            except BaseException as e:
                ctx.fail("build_trigger raised %r for %r" % (e, args), dict(args=args), tag="build-raised")
                t = None
            if t is not None:
                trigs.append(t)
            tdesc.append(dict(line=line, args=args, watches=watches, metrics=len(metrics)))
        # plain snapshot tracepoints (no watches / log / condition) on ALL lines of two groups of the host's functions - run k takes
        # groups k and k+2 of five, so that every group is visited whatever the random choices above were: the methods that use
        # cells, the pass-through of the noticing containers, the seeded draws, the credential-named variables, the one-shot iterators
        groups = [("extra", "count += k", "return count", "self.s = s"), ("reply = user.upper()", "return reply"),
                  ("b = random.randint", "a = random.random()", "return (a, b"), ("secret = password", "token = ", "api_key = len", "credential = {", "ok = password"),
                  ("pairs = zip", "squares = (", "first = next(it)", "rest = list(it)", "return (first, rest")]
        for g in (groups[k % 5], groups[(k + 2) % 5]):
            for hl in [i + 1 for i, t in enumerate(lines) if any(m in t for m in g)]:
                trigs.append(build_trigger("tph%d" % hl, base, hl, {"fire_count": rng.choice(["-1", "1"]), "fire_period": "0"}, [], []))
                tdesc.append(dict(line=hl, args="plain snapshot", watches=[], metrics=0))
        if rng.random() < 0.5:
            # deferred captures (the stage in the action's configuration, as the agent's own tests set it) on the functions an exception
            # passes through and on the generator: the value / exception is collected when the invocation ends
            from deep.api.tracepoint.trigger import LocationAction, Trigger, FunctionLocation, Location
            for fn in rng.sample(["risky", "fib", "gen", "worker", "login"], rng.choice([1, 2, 3])):
                conf = {"fire_count": rng.choice(["-1", "2"]), "fire_period": "0", "stage": "method_capture", "watches": [],
                        "frame_type": rng.choice(["single_frame", "no_frame"])}
                trigs.append(Trigger(FunctionLocation(base, fn, Location.Position.CAPTURE),
                                     [LocationAction("cap-" + fn, None, conf, LocationAction.ActionType.Snapshot)]))
                tdesc.append(dict(method=fn, args="method capture", watches=[], metrics=0))
        world.install(trigs)
        ref, ref_out = run_host(None)
        raised_in_handler = []

        def tracer(frame, event, arg):
            try:
                r = world.handler.trace_call(frame, event, arg)
            except BaseException as e:
                raised_in_handler.append(repr(e))
                raise
            return tracer if r is not None else None
        got, got_out = run_host(tracer)
        os.remove(path)
        j = dict(tracepoints=tdesc)
        ctx.case(j, nontrivial=bool(world.log), bucket="differential")
        if raised_in_handler:
            ctx.fail("the handler raised %s into the host program" % raised_in_handler[0], j, tag="escaped-live")
        if got.get("value") != ref.get("value") or got.get("raised") != ref.get("raised"):
            ctx.fail("host program result with the agent: %r / %r, without: %r / %r" % (
                got.get("value"), got.get("raised"), ref.get("value"), ref.get("raised")), j, tag="host-result")
        if got.get("globals") != ref.get("globals"):
            a, b = got.get("globals") or {}, ref.get("globals") or {}
            diff = {k: (a.get(k), b.get(k)) for k in set(a) | set(b) if a.get(k) != b.get(k)}
            ctx.fail("the host module's final data differs with the agent attached (name: with agent, without): %r" % (diff,), j,
                     tag="host-data")
        if got_out != ref_out:
            ctx.fail("host program output differs with the agent attached: %r vs %r" % (got_out, ref_out), j, tag="host-output")
        if got.get("trace_after") is not tracer:
            ctx.fail("tracing was switched off for the thread (sys.gettrace() is %r at the end)" % (got.get("trace_after"),), j,
                     tag="trace-dropped")
        world.clear_pending()


def pristine_logging_differential(ctx):
    """The same small application in two FRESH interpreters, with and without the agent as its trace function, its logging
    untouched by this harness: what it prints, what its own (later) logging configuration captures and how many handlers the
    root logger ends up with must be the same."""
    import shutil
    import subprocess
    here = os.path.dirname(os.path.dirname(os.path.abspath(__file__)))
    d = os.path.join(os.path.dirname(here), "build", "live_c01")
    os.makedirs(d, exist_ok=True)
    host = os.path.join(d, "host_logging_%d.py" % os.getpid())
    shutil.copy(os.path.join(here, "data", "c01_host_logging.py"), host)
    env = dict(os.environ, PYTHONPATH=os.environ.get("VERIF_DEV_SRC", "/repo/src"), PYTHONHASHSEED="0")
    outs = {}
    try:
        for mode in ("plain", "agent"):
            p = subprocess.run([sys.executable, host, mode], env=env, stdout=subprocess.PIPE, stderr=subprocess.PIPE, text=True, timeout=120)
            outs[mode] = (p.returncode, p.stdout, p.stderr)
    finally:
        os.remove(host)
    j = dict(host="harness/data/c01_host_logging.py", note="snapshot tracepoint on a line whose frame holds bytes and a generator; "
             "the application logs a warning before configuring logging, then calls logging.basicConfig(stream=...) and logs again")
    ctx.case(j, nontrivial=True, bucket="fresh-interpreter")
    if outs["plain"] != outs["agent"]:
        ctx.fail("fresh interpreters: without the agent the application gives (exit, stdout, stderr) = %r, with the agent %r" % (
            outs["plain"], outs["agent"]), j, tag="host-output")


def run(ctx):
    import logging
    from ..lib.quiet import quiet_logging
    quiet_logging()
    ctx.rule = ("(a) 2 scenarios (7 events: call, lines, caught exception, return of an unprintable value; snapshot with watches "
                "and log, log, metric, line span, method span, method capture, optionally a nameless method location; locals "
                "with raising __str__/__repr__/__len__/__getattr__, a generator, non-string keys) x %d fault sites inside the "
                "handler's call tree x {RuntimeError, a BaseException} x call number 1-2(3); (b) a host program (recursion, "
                "generator, caught/propagating exceptions, 4 threads, objects with raising dunders, prints) run with and without "
                "the agent under 1-6 generated tracepoints incl. malformed ones. Non-trivial: the injected fault fired / an "
                "action acted." % len(SITES))
    ctx.assumptions = [
        "expressions in conditions / watches / templates are side-effect free (the property's own restriction)",
        "the translator's no-raise whitelist (logging, isinstance/callable/id/type, container methods of agent-made "
        "containers, attribute reads of names the agent's classes define) - listed in the evidence",
        "MemoryError / RecursionError / signals delivered inside the handler are out of scope",
        "partial: that the agent's OBSERVATIONS leave host data unchanged is checked by the differential runs only; "
        "CPython's trace machinery and user dunder methods with side effects are runtime behaviour the model does not exhibit",
    ]
    ctx.prove()
    ctx.extra_trusted.append("translator harness/translate/exnflow.py (fail-closed ast -> ExnFlow; call resolution by name inside deep; "
                             "no-raise whitelist in coverage.notes.translated.Skeleton.whitelist)")
    fault_enumeration(ctx)
    differential(ctx, 60 if ctx.thorough else 10)
    pristine_logging_differential(ctx)


def replay(ctx, data):
    ctx.fail("replay re-runs the seeded generation: VERIF_SEED=%s check.py C01" % data.get("seed"))
