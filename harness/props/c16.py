"""C16 -- log tracepoints emit the template with every field evaluated in place (engine E2).

Tie: correspondence.  Generated templates (literal text incl. non-ASCII, doubled braces, fields naming
locals / attribute / index / call expressions / failing expressions) on generated frames go through
the real handler as log-only tracepoints and as collecting tracepoints with a log message; the
message, the labels received by the tracepoint logger, snapshot.log_msg and the LOG watches are
compared inside Coq with Template.render / fields, and with an independent renderer.  The scanner model
is validated against CPython's string.Formatter on the same templates."""
import string

from ..lib import coqlit as L
from ..lib import e2
from ..lib import lograce

IMPORTS = ["Base", "Config", "Limiter", "Cond", "Template"]
EXPRS_OK = ["a", "b", "s", "p.name", "d['k']", "len(s)", "a + b", "s.upper()", "lst[0]", "p", "d", "None", "a*2", "G", "(a,b)",
            " a", " p.name ", "\tlen(s)", "  a + b",
            "big", "rows",                                    # values whose text is longer than any collection limit (1024)
            "mixed", "odd"]                                   # sets whose members cannot be ordered          # blanks around a field's expression are legal (eval skips leading blanks)
EXPRS_BAD = ["missing", "1/0", "d['nope']", "s.nope", "boom()", "lst[9]", "a +", "exit_()"]
LITS = ["", "x", "hello ", " = ", "é ü", "100%", "[", "] ", "a.b", "\n", "日本", "$"]


class P:
    def __init__(self):
        self.name = "bob"

    def __repr__(self):
        return "P(bob)"


def gen_segments(rng):
    segs = []
    for _ in range(rng.choice([1, 2, 3, 5, 8])):
        r = rng.random()
        if r < 0.35:
            segs.append(("lit", rng.choice(LITS)))
        elif r < 0.45:
            segs.append(("lit", rng.choice(["{", "}", "{}", "}{", "{{"])))
        elif r < 0.85:
            segs.append(("field", rng.choice(EXPRS_OK)))
        else:
            segs.append(("field", rng.choice(EXPRS_BAD)))
    return segs


def to_template(segs):
    out = []
    for k, v in segs:
        out.append(v.replace("{", "{{").replace("}", "}}") if k == "lit" else "{" + v + "}")
    return "".join(out)


def frame_state(rng):
    def boom():
        raise RuntimeError("boom!")

    def exit_():
        raise SystemExit("bye")
    loc = {"a": rng.choice([1, 5, -2]), "b": rng.choice([2, 10]), "s": rng.choice(["txt", "", "Zz"]), "p": P(),
           "d": {"k": rng.choice([1, "v", [1, 2]])}, "lst": [rng.choice([7, "q"]), 2], "boom": boom, "exit_": exit_,
           "mixed": {1, "a"}, "odd": frozenset([None, 2]),
           "big": "select " + "c%d, " * 1 + "x" * rng.choice([1100, 1500]) + " from t;", "rows": list(range(rng.choice([300, 420])))}
    glb = {"__name__": "hostmod", "G": rng.choice([42, "gg"])}
    return loc, glb


def ref_eval(expr, loc, glb):
    """(text, is_error, class name)"""
    try:
        v = eval(expr, dict(glb), dict(loc))
        return str(v), False, type(v).__name__
    except BaseException as e:
        return str(e), True, type(e).__name__


def builtin_logger(ctx, n):
    """The built-in tracepoint logger (deep.api.plugin.python.PythonPlugin): the rendered message reaches the log with
    the tracepoint id and the context id each in its own place, whatever characters it holds ('%', braces, ...)."""
    import logging as pylog
    from deep.api.plugin.python import PythonPlugin
    from deep.api.tracepoint.trigger import LocationAction, Trigger, LineLocation, Location
    rng = ctx.rng
    records = []

    class Capture(pylog.Handler):
        def emit(self, record):
            try:
                records.append(record.getMessage())
            except Exception as e:          # what logging itself would print as '--- Logging error ---'
                records.append("UNRENDERABLE: %r" % (e,))
    handler = Capture()
    handler.setLevel(pylog.DEBUG)
    lg = pylog.getLogger("deep")
    saved = (lg.level, lg.propagate, list(lg.handlers), lg.disabled)
    lg.setLevel(pylog.INFO)
    lg.disabled = False
    lg.addHandler(handler)
    try:
        for k in range(n):
            world = e2.World(logger=False, spans=0, metrics=0)
            world.cfg.plugins = [PythonPlugin(config=world.cfg)]
            tpl = rng.choice(["{done}% done", "100%", "rate %s of {a}", "%d items", "plain", "{s}", "a=%(a)s {a}", "50%% {{x}}", "{pct}"])
            loc = {"done": 40, "a": 3, "s": rng.choice(["%s", "100%", "ok"]), "pct": "%"}
            action = LocationAction("tp-py", None, {"fire_count": "-1", "fire_period": "0", "log_msg": tpl}, LocationAction.ActionType.Log)
            world.install([Trigger(LineLocation("m.py", 7, Location.Position.START), [action])])
            del records[:]
            _, exc = world.event(e2.mk_frame("/app/m.py", "g", 7, loc), "line")
            want = "[deep] " + tpl.replace("{{", "\x00").replace("}}", "\x01").format(**loc).replace("\x00", "{").replace("\x01", "}")
            j = dict(builtin_logger=True, template=tpl, s=loc["s"])
            ctx.case(j, nontrivial="%" in want, bucket="builtin-logger")
            mine = [r for r in records if "tracepoint=" in r or "UNRENDERABLE" in r or want in r]
            if exc is not None:
                ctx.fail("the handler raised %r" % (exc,), j, tag="raised")
            elif len(mine) != 1 or not mine[0].startswith(want + " ") or not mine[0].endswith("tracepoint=tp-py") or " ctx=" not in mine[0]:
                ctx.fail("built-in logger emitted %r for the message %r of tracepoint 'tp-py'" % (mine, want), j, tag="builtin-logger")
    finally:
        lg.removeHandler(handler)
        lg.setLevel(saved[0])
        lg.disabled = saved[3]


def run(ctx):
    import logging
    from ..lib.quiet import quiet_logging
    quiet_logging()
    from deep.api.tracepoint.trigger import LocationAction, Trigger, LineLocation, Location
    ctx.rule = ("templates of 1-8 segments: literal text (ASCII, non-ASCII, newline, single and paired braces, all escaped by "
                "doubling), fields from 15 evaluating expressions (names, attribute, index, call, arithmetic, module global) "
                "and 8 failing ones (NameError, ZeroDivisionError, KeyError, AttributeError, RuntimeError, IndexError, "
                "SyntaxError, SystemExit) x generated frame states; each as a log-only tracepoint and as a collecting "
                "tracepoint with log_msg; plus malformed templates (single brace, unterminated field) for the scanner; plus a forced "
                "two-thread schedule (one thread parked inside a field while another logs). "
                "Non-trivial: at least one field; distinct: distinct template.")
    ctx.assumptions = [
        "field expressions hold no brace, colon or exclamation mark (format specs / conversions are outside the statement)",
        "the error text of a failing field is str(exception) as Python produces it",
        "CPython's string.Formatter scanner is trusted; the model's scanner is compared with it on every generated template",
    ]
    ctx.prove()
    rng = ctx.rng
    world = e2.World(logger=True, spans=0, metrics=0)
    lits, cj, flits, fcj = [], [], [], []
    n = 1500 if ctx.thorough else 300
    for i in range(n):
        segs = gen_segments(rng)
        tpl = to_template(segs)
        malformed = False
        if rng.random() < 0.08:
            tpl = rng.choice(["{", "}", "a{b", "x}y", "{a}{", "{a{b}}", "}}{", "{ {a} }"]) if rng.random() < 0.6 else tpl + rng.choice(["{", "}"])
            malformed = True
        loc, glb = frame_state(rng)
        collecting = rng.random() < 0.5
        if collecting:
            conf = {"fire_count": "-1", "fire_period": "0", "log_msg": tpl, "frame_type": rng.choice(["no_frame", "single_frame"]), "watches": []}
            if rng.random() < 0.4:
                conf["MAX_VARIABLES"] = rng.choice([0, 1, 3])       # the frame (or the first field) uses up the budget
            action = LocationAction("tp-log", None, conf, LocationAction.ActionType.Snapshot)
        else:
            action = LocationAction("tp-log", None, {"fire_count": "-1", "fire_period": "0", "log_msg": tpl}, LocationAction.ActionType.Log)
        # a third of the hits carry a SECOND log tracepoint on the same line (before or after this one): each tracepoint's message
        # is logged once, whatever else is installed on the line
        second = rng.choice([None, None, "before", "after"])
        acts = [action]
        if second:
            other = LocationAction("tp-other", None, {"fire_count": "-1", "fire_period": "0", "log_msg": "other {a}"}, LocationAction.ActionType.Log)
            acts = [other, action] if second == "before" else [action, other]
        world.install([Trigger(LineLocation("m.py", 7, Location.Position.START), acts)])
        start = len(world.log)
        _, exc = world.event(e2.mk_frame("/app/m.py", "g", 7, loc, f_globals=glb), "line")
        logs = [p for w, _tp, _id, p in world.log[start:] if w == "log" and p["tp_id"] != "tp-other"]
        others = [p for w, _tp, _id, p in world.log[start:] if w == "log" and p["tp_id"] == "tp-other"]
        snaps = [p for w, _tp, _id, p in world.log[start:] if w == "snapshot"]
        if second and exc is None and len(others) != 1:
            ctx.fail("a second log tracepoint on the line (%s this one) logged %d messages for the one hit" % (second, len(others)),
                     dict(template=tpl, second=second), tag="log-count-second")
        # independent expectation
        try:
            parsed = list(string.Formatter().parse(tpl))
            cpy_fields = [f for _l, f, _s, _c in parsed if f is not None]
            cpy_ok = all((s or "") == "" and c is None for _l, f, s, c in parsed if f is not None)
        except ValueError:
            parsed, cpy_fields, cpy_ok = None, None, True
        j = dict(template=tpl, collecting=collecting, malformed=malformed, fields=cpy_fields)
        ctx.case(dict(template=tpl, collecting=collecting), nontrivial=bool(cpy_fields), bucket=("malformed" if parsed is None else
                 "fields=%d" % min(len(cpy_fields), 3)) + (" snap" if collecting else " log"))
        if exc is not None:
            ctx.fail("the handler raised %r for template %r" % (exc,), j, tag="raised")
            continue
        env = {}
        obs_msg = logs[0]["msg"] if logs else None
        if not malformed:
            want = "[deep] " + "".join(v if k == "lit" else ref_eval(v, loc, glb)[0] for k, v in segs)
            for k, v in segs:
                if k == "field":
                    t, err, cls = ref_eval(v, loc, glb)
                    env[v] = "(EErr %s %s)" % (L.s(cls), L.s(t)) if err else "(EVal %s)" % L.s(t)
            if len(logs) != 1:
                ctx.fail("%d log messages for one permitted hit of template %r" % (len(logs), tpl), j, tag="log-count")
                continue
            if obs_msg != want:
                ctx.fail("template %r rendered as %r, expected %r" % (tpl, obs_msg, want), j, tag="render")
            rec = logs[0]
            if rec["tp_id"] != "tp-log":
                ctx.fail("the logger received %r as tracepoint id (tracepoint is 'tp-log')" % (rec["tp_id"],), j, tag="labels")
            if rec["ctx_id"] == "tp-log" or len(str(rec["ctx_id"])) != 36:
                ctx.fail("the logger received %r as context id" % (rec["ctx_id"],), j, tag="labels")
            if collecting:
                if len(snaps) != 1:
                    ctx.fail("%d snapshots for a collecting log tracepoint" % len(snaps), j, tag="snapshot-count")
                    continue
                s = snaps[0]
                if s.log_msg != want:
                    ctx.fail("snapshot.log_msg is %r, the message is %r" % (s.log_msg, want), j, tag="snapshot-log")
                if s.attributes.get("context") != rec["ctx_id"]:
                    ctx.fail("context id given to the logger (%r) is not the snapshot's context (%r)" % (
                        rec["ctx_id"], s.attributes.get("context")), j, tag="labels")
                lw = [w for w in s.watches if w.source == "LOG"]
                exprs = [v for k, v in segs if k == "field"]
                if [w.expression for w in lw] != exprs:
                    ctx.fail("LOG watches %r for fields %r" % ([w.expression for w in lw], exprs), j, tag="log-watches")
                for w, e in zip(lw, exprs):
                    t, err, cls = ref_eval(e, loc, glb)
                    if w.error is None:
                        var = s.var_lookup.get(w.result.vid)
                        if var is None:
                            ctx.fail("LOG watch %r refers to a missing variable" % e, j, tag="log-watches")
                        elif var.type != cls:
                            ctx.fail("LOG watch %r has type %r, the value is a %s" % (e, var.type, cls), j, tag="log-watches")
        else:
            if parsed is None and logs:
                ctx.fail("malformed template %r still produced the message %r" % (tpl, obs_msg), j, tag="malformed-logged")
            if parsed is not None and cpy_ok:
                # the mutation happened to be well formed: evaluate its fields for the model
                for f in cpy_fields:
                    t, err, cls = ref_eval(f, loc, glb) if f != "" else ("", True, "")
                    env[f] = "(EErr %s %s)" % (L.s(cls), L.s(t)) if err else "(EVal %s)" % L.s(t)
                if any(f == "" or ":" in f or "!" in f or "[" in f and "]" not in f for f in cpy_fields):
                    continue
            elif parsed is not None:
                continue
        lits.append("{| tc_tpl := %s; tc_env := %s; tc_obs := %s |}" % (
            L.s(tpl), L.lst(L.pair(L.s(k), v) for k, v in env.items()), L.opt(None if obs_msg is None else L.s(obs_msg))))
        cj.append(j)
        if parsed is not None:
            flits.append("{| fc_tpl := %s; fc_obs_fields := %s |}" % (L.s(tpl), L.lst(L.s(f) for f in cpy_fields)))
            fcj.append(j)
    world.clear_pending()
    builtin_logger(ctx, 120 if ctx.thorough else 30)
    from ..lib.quiet import quiet_logging
    quiet_logging()
    ctx.correspond("render", IMPORTS, "tpl_case", "check_tpl_case", lits, cj, shard=150)
    ctx.correspond("scanner_vs_cpython", IMPORTS, "fields_case", "check_fields_case", flits, fcj, shard=150)
    # forced schedule: thread A parked inside one field of its message while thread B logs (each field "in the paused frame")
    lograce.run_cases(ctx, 60 if ctx.thorough else 12, "c16")


def replay(ctx, data):
    ctx.fail("replay re-runs the seeded generation: VERIF_SEED=%s check.py C16" % data.get("seed"))
