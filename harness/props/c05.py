"""C05 -- collection is bounded and spends its budget breadth-first (engine E1)."""
from ..lib import e1, objgen

SEQ_TYPES = {"list", "tuple", "set", "frozenset"}


def oracle(ctx, case, heap, obs, desc):
    lim = case["limits"]
    n = len(obs["table"])
    if n > lim["max_vars"] + 1:
        ctx.fail("snapshot holds %d variables, budget is %d (+1 in progress)" % (n, lim["max_vars"]), desc, tag="count")
    for e in obs["table"]:
        if len(e["val"]) > lim["max_str"]:
            ctx.fail("value of length %d exceeds max string length %d" % (len(e["val"]), lim["max_str"]), desc, tag="strlen")
        rec = heap.objs[e["oid"]] if e["oid"] is not None else None
        if rec is not None and not rec["unprintable"] and rec["text"].startswith(e["val"]):
            # (a value whose text is not a prefix of the object's text at all is rendered wrongly: that is C02, not the cut)
            if e["trunc"] != (len(rec["text"]) > lim["max_str"]) or e["val"] != rec["text"][:lim["max_str"]]:
                ctx.fail("value/truncated flag wrong for %s: %r trunc=%s, text has length %d" % (
                    e["ty"], e["val"][:30], e["trunc"], len(rec["text"])), desc, tag="truncflag")
        if e["trunc"] and len(e["val"]) != lim["max_str"]:
            ctx.fail("value marked truncated but %d characters long, the limit is %d" % (len(e["val"]), lim["max_str"]), desc, tag="truncflag")
        if (e["ty"] in SEQ_TYPES or (rec is not None and issubclass(type(rec["obj"]), Exception))) and len(e["children"]) > lim["max_coll"]:
            ctx.fail("%s has %d children, max collection size is %d" % (e["ty"], len(e["children"]), lim["max_coll"]), desc, tag="collsize")
    d = e1.depths(obs)
    for vid, k in d.items():
        if k >= max(lim["max_depth"], 1) and not (k == 1 and lim["max_depth"] <= 1 and False):
            # a root (depth 0) is always recorded; below it nothing reaches max_var_depth
            if k > 0 and k >= lim["max_depth"]:
                ctx.fail("variable %d is nested at depth %d, max depth is %d" % (vid, k, lim["max_depth"]), desc, tag="depth")
    # breadth-first: within one traversal ids are handed out in recording order, so depth must not decrease.
    # (checked where there is a single traversal: one collected frame, no watches)
    flags = e1.collect_flags(case)
    if sum(flags) == 1 and not case["watches"]:
        last = -1
        for e in obs["table"]:
            k = d.get(e["vid"])
            if k is None:
                continue
            if k < last:
                ctx.fail("variable %d at depth %d was recorded after a variable at depth %d (not breadth-first)" % (
                    e["vid"], k, last), desc, tag="bfs-order")
                break
            last = k
        # locals are never crowded out: with #locals <= budget every local is on the frame
        top = case["frames"][0]["locals"]
        if flags[0] and len(top) <= lim["max_vars"] and lim["max_depth"] > 1:
            got = {v["name"] for v in obs["frames"][0]["vars"]}
            if got != set(top.keys()):
                ctx.fail("locals %s missing from the frame although the budget (%d) covers all %d locals" % (
                    sorted(set(top.keys()) - got), lim["max_vars"], len(top)), desc, tag="locals-first")


def interleaved(ctx, n, lits, cj):
    """Two tracepoints with different limits hit by two threads at overlapping times (forced: thread B's whole hit
    happens while thread A's collector is rendering one of A's locals): each snapshot obeys ITS OWN limits."""
    for i in range(n):
        rng = ctx.rng
        small = dict(max_vars=rng.choice([2, 3, 5, 10]), max_coll=rng.choice([1, 2, 3]), max_depth=rng.choice([2, 3]),
                     max_str=rng.choice([1, 5, 10]))
        big = dict(max_vars=1000, max_coll=10, max_depth=8, max_str=1024)
        a_small = rng.random() < 0.7
        case_a = e1.gen_case(rng, hostile_p=0.0, limits=small if a_small else big, max_nodes=40, n_frames=1, n_watch=0)
        case_b = e1.gen_case(rng, hostile_p=0.0, limits=big if a_small else small, max_nodes=40, n_frames=1, n_watch=0)
        case_a["frame_type"] = case_b["frame_type"] = "single_frame"
        hook = e1.Hook()
        items = list(case_a["frames"][0]["locals"].items())
        items.insert(rng.choice([0, 0, len(items) // 2]), ("hk", hook))
        d = case_a["frames"][0]["locals"]
        d.clear()
        d.update(items)
        case_a["frames"][0]["file"], case_b["frames"][0]["file"] = "/app/src/ta.py", "/app/src/tb.py"
        heap_a, heap_b = e1.read_heap(case_a), e1.read_heap(case_b)
        snaps, raised = e1.run_pair(case_a, case_b, hook)
        desc = dict(schedule="thread B's whole hit at tp-b happens while thread A's collector renders local 'hk' of tp-a"
                    if hook.fired else "sequential (the budget of tp-a never reached 'hk')",
                    tp_a=e1.describe(case_a, heap_a), tp_b=e1.describe(case_b, heap_b))
        ctx.case(dict(a=desc["tp_a"]["limits"], b=desc["tp_b"]["limits"], interleaved=bool(hook.fired),
                      heap=[(h["ty"], h["kind"], len(h["children"])) for h in desc["tp_a"]["heap"]]),
                 nontrivial=bool(hook.fired), bucket="two-thread limits")
        if raised is not None or set(snaps) != {"tp-a", "tp-b"}:
            e1.no_snapshot(ctx, desc, raised)        # a hit that delivers nothing is C03 / C06; the delivered snapshot is still examined
        for tid, case, heap in (("tp-a", case_a, heap_a), ("tp-b", case_b, heap_b)):
            if tid not in snaps:
                continue
            dk = dict(desc, snapshot_of=tid)
            try:
                obs = e1.observe(snaps[tid], heap)
                oracle(ctx, case, heap, obs, dk)
                lits.append(e1.snap_literal(case, heap, obs, e1.collect_flags(case)))
                cj.append(dk)
            except ValueError as ex:
                ctx.fail("snapshot of %s cannot be related to that thread's objects: %s" % (tid, ex), dk, kind="schedule", tag="unrelated")


def run(ctx, focus="C05"):
    import logging
    from ..lib.quiet import quiet_logging
    quiet_logging()
    ctx.rule = ("synthetic frame chains (1-3 frames) whose locals hold generated object graphs (scalars, long strings, "
                "lists/tuples/sets/dicts/objects, sharing, cycles, hostile values) x limits max_variables in {0,1,2,3,5,10,30,1000}, "
                "max_collection_size in {0,1,2,3,10}, max_var_depth in {0..5,8}, max_string_length in {0,1,5,10,64,1024} x "
                "frame_type x 0-3 watches, driven through the real TriggerHandler.trace_call; plus two tracepoints with different "
                "limits hit by two threads, one hit forced to happen in the middle of the other's collection. Non-trivial: the snapshot "
                "table is non-empty; distinct: distinct (limits, heap shape) description.")
    ctx.assumptions = [
        "id() is injective on the objects alive during one trigger (all generated objects are kept alive)",
        "the reader (harness/lib/objgen.py Heap) observes the same str()/len()/keys()/__dict__ as the agent (side-effect free dunders)",
        "the per-trigger time budget is not hit (virtual clock); watch values are supplied by the harness in place of eval()",
        "placeholder text of objects whose str() raises is canonicalised on both sides",
    ]
    ctx.prove()
    saved = e1.install_clock()
    lits, cj = [], []
    try:
        n = 2500 if ctx.thorough else 450
        for i in range(n):
            case = e1.gen_case(ctx.rng, hostile_p=0.03, max_nodes=ctx.rng.choice([8, 20, 40, 80 if ctx.thorough else 40]))
            heap = e1.read_heap(case)
            desc = e1.describe(case, heap)
            # a quarter of the cases hand their watch expressions over as the fields of a log message: same limits, same table
            as_fields = bool(case["watches"]) and ctx.rng.random() < 0.25
            snaps, raised = e1.run_impl(case, as_log_fields=as_fields)
            ctx.case(dict(limits=desc["limits"], frame_type=desc["frame_type"], heap=[(h["ty"], h["kind"], len(h["children"])) for h in desc["heap"]]),
                     nontrivial=bool(snaps and snaps[0].var_lookup), bucket="max_vars=%s" % case["limits"]["max_vars"])
            if raised is not None or len(snaps) != 1:
                e1.no_snapshot(ctx, desc, raised)
                continue
            obs = e1.observe(snaps[0], heap)
            oracle(ctx, case, heap, obs, desc)
            try:
                lits.append(e1.snap_literal(case, heap, obs, e1.collect_flags(case)))
                cj.append(desc)
            except ValueError as ex:
                ctx.fail("snapshot cannot be related to the program's objects: %s" % ex, desc, tag="unrelated")
        interleaved(ctx, 150 if ctx.thorough else 30, lits, cj)
    finally:
        e1.restore_clock(saved)
    e1.too_many_skipped(ctx, ctx.evaluations)
    ctx.correspond("collector", e1.IMPORTS, "snap_case", "check_snap_case_bounds", lits, cj, shard=60)


def replay(ctx, data):
    ctx.fail("replay re-runs the seeded generation: VERIF_SEED=%s check.py C05" % data.get("seed"))
