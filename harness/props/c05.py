"""C05 -- collection is bounded and spends its budget breadth-first (engine E1)."""
from ..lib import e1, objgen

SEQ_TYPES = {"list", "tuple", "set", "frozenset"}


def oracle(ctx, case, heap, obs, desc):
    lim = case["limits"]
    n = len(obs["table"])
    if n > lim["max_vars"] + 1:
        ctx.fail("snapshot holds %d variables, budget is %d (+1 in progress)" % (n, lim["max_vars"]), desc, tag="count")
    for e in obs["table"]:
        if len(e["val"]) > lim["max_str"]:
            ctx.fail("value of length %d exceeds max string length %d" % (len(e["val"]), lim["max_str"]), desc, tag="strlen")
        rec = heap.objs[e["oid"]] if e["oid"] is not None else None
        if rec is not None and not rec["unprintable"]:
            if e["trunc"] != (len(rec["text"]) > lim["max_str"]) or e["val"] != rec["text"][:lim["max_str"]]:
                ctx.fail("value/truncated flag wrong for %s: %r trunc=%s, text has length %d" % (
                    e["ty"], e["val"][:30], e["trunc"], len(rec["text"])), desc, tag="truncflag")
        if (e["ty"] in SEQ_TYPES or (rec is not None and isinstance(rec["obj"], Exception))) and len(e["children"]) > lim["max_coll"]:
            ctx.fail("%s has %d children, max collection size is %d" % (e["ty"], len(e["children"]), lim["max_coll"]), desc, tag="collsize")
    d = e1.depths(obs)
    for vid, k in d.items():
        if k >= max(lim["max_depth"], 1) and not (k == 1 and lim["max_depth"] <= 1 and False):
            # a root (depth 0) is always recorded; below it nothing reaches max_var_depth
            if k > 0 and k >= lim["max_depth"]:
                ctx.fail("variable %d is nested at depth %d, max depth is %d" % (vid, k, lim["max_depth"]), desc, tag="depth")
    # breadth-first: within one traversal ids are handed out in recording order, so depth must not decrease.
    # (checked where there is a single traversal: one collected frame, no watches)
    flags = e1.collect_flags(case)
    if sum(flags) == 1 and not case["watches"]:
        last = -1
        for e in obs["table"]:
            k = d.get(e["vid"])
            if k is None:
                continue
            if k < last:
                ctx.fail("variable %d at depth %d was recorded after a variable at depth %d (not breadth-first)" % (
                    e["vid"], k, last), desc, tag="bfs-order")
                break
            last = k
        # locals are never crowded out: with #locals <= budget every local is on the frame
        top = case["frames"][0]["locals"]
        if flags[0] and len(top) <= lim["max_vars"] and lim["max_depth"] > 1:
            got = {v["name"] for v in obs["frames"][0]["vars"]}
            if got != set(top.keys()):
                ctx.fail("locals %s missing from the frame although the budget (%d) covers all %d locals" % (
                    sorted(set(top.keys()) - got), lim["max_vars"], len(top)), desc, tag="locals-first")


def run(ctx, focus="C05"):
    import logging
    logging.getLogger("deep").setLevel(logging.CRITICAL + 1)
    ctx.rule = ("synthetic frame chains (1-3 frames) whose locals hold generated object graphs (scalars, long strings, "
                "lists/tuples/sets/dicts/objects, sharing, cycles, hostile values) x limits max_variables in {0,1,2,3,5,10,30,1000}, "
                "max_collection_size in {0,1,2,3,10}, max_var_depth in {0..5,8}, max_string_length in {0,1,5,10,64,1024} x "
                "frame_type x 0-3 watches, driven through the real TriggerHandler.trace_call. Non-trivial: the snapshot "
                "table is non-empty; distinct: distinct (limits, heap shape) description.")
    ctx.assumptions = [
        "id() is injective on the objects alive during one trigger (all generated objects are kept alive)",
        "the reader (harness/lib/objgen.py Heap) observes the same str()/len()/keys()/__dict__ as the agent (side-effect free dunders)",
        "the per-trigger time budget is not hit (virtual clock); watch values are supplied by the harness in place of eval()",
        "placeholder text of objects whose str() raises is canonicalised on both sides",
    ]
    ctx.prove()
    saved = e1.install_clock()
    lits, cj = [], []
    try:
        n = 2500 if ctx.thorough else 450
        for i in range(n):
            case = e1.gen_case(ctx.rng, hostile_p=0.03, max_nodes=ctx.rng.choice([8, 20, 40, 80 if ctx.thorough else 40]))
            heap = e1.read_heap(case)
            desc = e1.describe(case, heap)
            snaps, raised = e1.run_impl(case)
            ctx.case(dict(limits=desc["limits"], frame_type=desc["frame_type"], heap=[(h["ty"], h["kind"], len(h["children"])) for h in desc["heap"]]),
                     nontrivial=bool(snaps and snaps[0].var_lookup), bucket="max_vars=%s" % case["limits"]["max_vars"])
            if raised is not None or len(snaps) != 1:
                ctx.fail("no snapshot produced (%r)" % (raised,), desc, tag="no-snapshot")
                continue
            obs = e1.observe(snaps[0], heap)
            oracle(ctx, case, heap, obs, desc)
            try:
                lits.append(e1.snap_literal(case, heap, obs, e1.collect_flags(case)))
                cj.append(desc)
            except ValueError as ex:
                ctx.fail("snapshot cannot be related to the program's objects: %s" % ex, desc, tag="unrelated")
    finally:
        e1.restore_clock(saved)
    ctx.correspond("collector", e1.IMPORTS, "snap_case", "check_snap_case", lits, cj, shard=60)


def replay(ctx, data):
    ctx.fail("replay re-runs the seeded generation: VERIF_SEED=%s check.py C05" % data.get("seed"))
