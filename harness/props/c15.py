"""C15 -- deferred work (spans, captures) is completed exactly once, in its own thread (engine E2).

Tie: correspondence.  Well-formed per-thread event traces (calls with same-named nesting, lines,
caught and propagating exceptions, returns) are delivered by real threads, through synthetic frames,
to the real TriggerHandler configured with method/line span and capture tracepoints; the contexts the
handler opened and completed at every event are compared inside Coq with Callbacks.run.  A direct
oracle (spans closed exactly once, by the opening thread, after the opening event, while the opener
is running, store drained) is applied to the recorders."""
import collections
import os
import queue
import sys
import threading

from ..lib import coqlit as L
from ..lib import e2
from .. import known

IMPORTS = ["Base", "Callbacks"]
FUNCS = [("/app/a.py", "f"), ("/app/a.py", "g"), ("/app/b.py", "f")]


@known.matcher("capture-by-same-named-inner")
def _capture_inner(f):
    """A same-named invocation nested inside the opener, with no pending context of its own, completes the
    opener's deferred snapshot / span with ITS return event (contexts are matched by file and function name)."""
    return f.get("tag") == "completed-by-inner-invocation"


class Worker:
    """A real thread that delivers events to the handler one at a time, on request."""

    def __init__(self, world):
        self.q, self.r = queue.Queue(), queue.Queue()
        self.world = world
        self.t = threading.Thread(target=self._loop, daemon=True)
        self.t.start()
        self.ident = self.t.ident

    def _loop(self):
        while True:
            item = self.q.get()
            if item is None:
                return
            frame, kind, arg = item
            self.r.put(self.world.event(frame, kind, arg))

    def deliver(self, frame, kind, arg):
        self.q.put((frame, kind, arg))
        return self.r.get(timeout=30)

    def stop(self):
        self.q.put(None)
        self.t.join(10)


def gen_trace(rng, max_events):
    """Well-formed trace of one thread: list of (kind, file, func, line, frame_key, arg)."""
    out, stack, nfr = [], [], [0]

    def call(same_as=None):
        file, func = same_as or rng.choice(FUNCS)
        nfr[0] += 1
        stack.append(dict(file=file, func=func, key=nfr[0]))
        out.append(("call", file, func, 1, nfr[0], None))
    call()
    while stack and len(out) < max_events:
        top = stack[-1]
        r = rng.random()
        if r < 0.42:
            out.append(("line", top["file"], top["func"], rng.choice([2, 3, 4]), top["key"], None))
            if rng.random() < 0.25 and len(stack) < 5:
                # recursion right after a line: the line-opened context of the outer invocation is still pending while the inner
                # invocation of the SAME name runs its own lines
                call((top["file"], top["func"]))
                out.append(("line", top["file"], top["func"], out[-2][3], nfr[0], None))
        elif r < 0.62 and len(stack) < 5:
            call()
        elif r < 0.70:
            out.append(("exception", top["file"], top["func"], 3, top["key"], (ValueError, ValueError("e%d" % len(out)), None)))
            if rng.random() < 0.5:      # propagates: the frame unwinds
                out.append(("return", top["file"], top["func"], 3, top["key"], None))
                stack.pop()
        else:
            out.append(("return", top["file"], top["func"], 4, top["key"], "ret-%d" % top["key"]))
            stack.pop()
            if not stack and len(out) < max_events - 4 and rng.random() < 0.5:
                call()       # the thread goes on with another outermost call
    while stack:
        top = stack.pop()
        out.append(("return", top["file"], top["func"], 4, top["key"], "ret-%d" % top["key"]))
    return out


def gen_triggers(rng):
    from deep.api.tracepoint.trigger import LocationAction, Trigger, LineLocation, FunctionLocation, Location
    trigs, desc = [], []
    n = [0]

    def action(kind, count):
        n[0] += 1
        tp = "tp%d" % n[0]
        conf = {"fire_count": count, "fire_period": "0"}
        if kind == "span":
            return LocationAction(tp, None, dict(conf, span="x"), LocationAction.ActionType.Span), tp
        conf.update(frame_type="no_frame", watches=[])
        return LocationAction(tp, None, dict(conf, stage="method_capture" if kind == "mcap" else "line_capture"),
                              LocationAction.ActionType.Snapshot), tp
    for file, func in FUNCS:
        base = file.rsplit("/", 1)[1]
        if rng.random() < 0.7:
            acts = []
            for kind in rng.sample(["span", "mcap"], rng.choice([1, 1, 2])):
                a, tp = action(kind, rng.choice(["-1", "-1", "1", "2"]))
                acts.append(a)
                desc.append(dict(tp=tp, at="%s:%s()" % (base, func), kind=kind, fire_count=a.config["fire_count"]))
            # the position a method tracepoint was configured with (stage method_start / method_end / method_capture) does not move the
            # opening: a method location is entered at the call, whatever its position says
            pos = [Location.Position.START, Location.Position.START, Location.Position.END, Location.Position.CAPTURE][n[0] % 4]
            trigs.append(Trigger(FunctionLocation(base, func, pos), acts))
    for base in ("a.py", "b.py"):
        for line in (2, 3, 4):
            if rng.random() < 0.35:
                acts = []
                for kind in rng.sample(["span", "lcap"], rng.choice([1, 1, 2])):
                    a, tp = action(kind, rng.choice(["-1", "-1", "1", "3"]))
                    acts.append(a)
                    desc.append(dict(tp=tp, at="%s:%d" % (base, line), kind=kind, fire_count=a.config["fire_count"]))
                trigs.append(Trigger(LineLocation(base, line, Location.Position.START), acts))
    return trigs, desc


def lab(file, func):
    return "(%s, %s)" % (L.s(file.rsplit("/", 1)[1]), L.s(func))


def deep_trace(rng, depth, two_per=False):
    """Recursion far deeper than any fixed bound on the pending stack: every invocation opens a context."""
    file, func = FUNCS[0]
    out = []
    for k in range(1, depth + 1):
        out.append(("call", file, func, 1, k, None))
        if two_per or rng.random() < 0.3:
            out.append(("line", file, func, 2, k, None))
    for k in range(depth, 0, -1):
        out.append(("return", file, func, 4, k, "ret-%d" % k))
    return out


def nested_line_trace(rng, depth):
    """Same-named recursion right after a line that opens a context: the line-opened contexts of all the outer invocations are
    pending, one above the other, while the innermost invocation runs its lines; each ends at ITS invocation's next event."""
    file, func = FUNCS[0]
    out = []
    for k in range(1, depth + 1):
        out.append(("call", file, func, 1, k, None))
        out.append(("line", file, func, 2, k, None))
    for k in range(depth, 0, -1):
        for _ in range(rng.choice([1, 2])):
            out.append(("line", file, func, 3, k, None))
        out.append(("return", file, func, 4, k, "ret-%d" % k))
    return out


def run_case(ctx, nthreads, max_events, deep=0, nested_line=0, two_per=False):
    rng = ctx.rng
    world = e2.World(logger=False, spans=rng.choice([1, 1, 2]), metrics=0)
    world.clear_pending()
    trigs, tdesc = gen_triggers(rng)
    if deep:
        from deep.api.tracepoint.trigger import LocationAction, Trigger, FunctionLocation, Location
        file, func = FUNCS[0]
        kind = rng.choice(["span", "mcap"])
        conf = {"fire_count": "-1", "fire_period": "0"}
        act = (LocationAction("tp1", None, dict(conf, span="x"), LocationAction.ActionType.Span) if kind == "span" else
               LocationAction("tp1", None, dict(conf, frame_type="no_frame", watches=[], stage="method_capture"), LocationAction.ActionType.Snapshot))
        trigs = [Trigger(FunctionLocation(file.rsplit("/", 1)[1], func, Location.Position.START), [act])]
        tdesc = [dict(tp="tp1", at="%s:%s()" % (file.rsplit("/", 1)[1], func), kind=kind, fire_count="-1", recursion_depth=deep)]
        if two_per:
            # a second piece of deferred work per invocation (a span on a line of the recursing function): more contexts are
            # pending than there are frames on the call stack
            from deep.api.tracepoint.trigger import LineLocation
            trigs.append(Trigger(LineLocation(file.rsplit("/", 1)[1], 2, Location.Position.START),
                                 [LocationAction("tp2", None, dict(conf, span="line"), LocationAction.ActionType.Span)]))
            tdesc.append(dict(tp="tp2", at="%s:2" % file.rsplit("/", 1)[1], kind="span", fire_count="-1"))
    if nested_line:
        from deep.api.tracepoint.trigger import LocationAction, Trigger, LineLocation, Location
        file, func = FUNCS[0]
        kind = rng.choice(["span", "lcap"])
        conf = {"fire_count": "-1", "fire_period": "0"}
        act = (LocationAction("tp1", None, dict(conf, span="line"), LocationAction.ActionType.Span) if kind == "span" else
               LocationAction("tp1", None, dict(conf, frame_type="no_frame", watches=[], stage="line_capture"), LocationAction.ActionType.Snapshot))
        trigs = [Trigger(LineLocation(file.rsplit("/", 1)[1], 2, Location.Position.START), [act])]
        tdesc = [dict(tp="tp1", at="%s:2" % file.rsplit("/", 1)[1], kind=kind, fire_count="-1", nested_same_named_invocations=nested_line)]
    world.install(trigs)
    workers = [Worker(world) for _ in range(nthreads)]
    traces = [deep_trace(rng, deep, two_per) if deep else nested_line_trace(rng, nested_line) if nested_line else gen_trace(rng, max_events)
              for _ in range(nthreads)]
    frames = [dict() for _ in range(nthreads)]          # per thread: frame key -> frame object
    live = [[] for _ in range(nthreads)]                 # per thread: keys of running invocations
    pos = [0] * nthreads
    ctx_ids = {}                                         # id(CallbackContext) -> (tid, cid, opener key, open index, ctx object)
    ncid = [0] * nthreads
    model_events = [[] for _ in range(nthreads)]
    obs = [[] for _ in range(nthreads)]
    fails = []
    order = []
    gidx = 0
    total_events = sum(len(tr) for tr in traces)
    empty_at = rng.randrange(total_events) if rng.random() < 0.3 and not deep and not nested_line else None     # the service removes every tracepoint here
    while any(pos[t] < len(traces[t]) for t in range(nthreads)):
        if empty_at is not None and gidx == empty_at:
            world.install([])
        t = rng.choice([t for t in range(nthreads) if pos[t] < len(traces[t])])
        kind, file, func, line, key, arg = traces[t][pos[t]]
        pos[t] += 1
        order.append(t)
        if kind == "call":
            frames[t][key] = e2.mk_frame(file, func, line, {"k": key})
            live[t].append(key)
        fr = frames[t][key]
        fr.f_lineno = line
        store = world.pending().get(workers[t].ident)
        before = list(store) if store else []
        log0 = len(world.log)
        _, exc = workers[t].deliver(fr, kind, arg)
        if exc is not None:
            fails.append(("raised", "the handler raised %r at event %d of thread %d" % (exc, pos[t] - 1, t)))
        store = world.pending().get(workers[t].ident)
        after = list(store) if store else []
        before_ids, after_ids = {id(c) for c in before}, {id(c) for c in after}     # (all of them are alive: identity = id)
        new = [c for c in after if id(c) not in before_ids]
        gone = [c for c in reversed(before) if id(c) not in after_ids]      # top first
        opens = bool(new)
        if len(new) > 1:
            fails.append(("two-contexts", "two contexts opened at one event"))
        for c in new:
            ctx_ids[id(c)] = (t, ncid[t], key, gidx, c)
            ncid[t] += 1
        done_ids = []
        for c in gone:
            ct, cid, okey, oidx, _ = ctx_ids[id(c)]
            done_ids.append(cid)
            # ---- oracle on this completion
            if ct != t:
                fails.append(("foreign-thread", "a context of thread %d was completed by thread %d" % (ct, t)))
            if okey not in live[t]:
                fails.append(("late", "context %d completed after its opener (invocation %d) had returned" % (cid, okey)))
            if oidx >= gidx:
                fails.append(("early", "context %d completed at the event that opened it" % cid))
            has_capture = any(type(cb).__name__ == "DeferredSnapshotActionCallback" for cb in c._CallbackContext__callbacks)
            opener = frames[t][okey]
            same_name = (opener.f_code.co_filename, opener.f_code.co_name) == (file, func)
            # did the completing invocation have a context of its own PENDING when this event arrived?
            # ... of the same kind (an invocation holds at most one context opened by its call and one opened by a line)
            inner_has_own = any(ctx_ids[id(b)][2] == key and b.event == c.event for b in before)
            if c.event == "call" and has_capture and kind == "line":
                fails.append(("method-capture-at-line", "context %d, a method capture opened by the call of invocation %d, was completed at a "
                              "line event: its snapshot is sent without the value returned or raised by that invocation" % (cid, okey)))
            if okey != key and kind in ("return", "exception") and has_capture and not same_name:
                fails.append(("completed-by-foreign-invocation",
                              "context %d opened by invocation %d of %s() was completed by the %s event of %s(), another function" % (
                                  cid, okey, opener.f_code.co_name, kind, func)))
            elif okey != key and kind in ("return", "exception") and has_capture and inner_has_own:
                fails.append(("completed-with-inner-own-context",
                              "context %d opened by invocation %d of %s() was completed by the %s event of the nested invocation %d, "
                              "which had a pending context of its own (both were completed at one event)" % (cid, okey, func, kind, key)))
            elif okey != key and kind in ("return", "exception") and has_capture:
                fails.append(("completed-by-inner-invocation",
                              "context %d opened by invocation %d of %s() was completed by the %s event of the nested "
                              "invocation %d of the same name" % (cid, okey, func, kind, key)))
        # ---- a context that left the pending stack was COMPLETED (its deferred snapshots sent, its spans closed), not dropped
        due_snaps = sum(1 for c in gone for cb in c._CallbackContext__callbacks if type(cb).__name__ == "DeferredSnapshotActionCallback")
        got_snaps = sum(1 for what, _tp, _id, _p in world.log[log0:] if what == "snapshot")
        if got_snaps < due_snaps:
            fails.append(("dropped-uncompleted", "%d context(s) left the pending stack at a %s event (stack depth %d) but only %d of their %d "
                          "deferred snapshots were sent: pending work was dropped without being completed" % (
                              len(gone), kind, len(before), got_snaps, due_snaps)))
        # ---- oracle on the recorders: spans closed at this event belong to the contexts completed at this event
        for what, tp, ident, payload in world.log[log0:]:
            if ident != workers[t].ident:
                fails.append(("foreign-thread", "%s performed on another thread than the one that hit the event" % what))
            if what == "span-open":
                payload.opened_at, payload.opener_key, payload.tid = gidx, key, t
            if what == "span-close":
                if payload.closed != 1:
                    fails.append(("closed-twice", "span of %s closed %d times" % (tp, payload.closed)))
                if payload.tid != t:
                    fails.append(("foreign-thread", "span opened by thread %d closed by thread %d" % (payload.tid, t)))
                if payload.opened_at >= gidx:
                    fails.append(("early", "span closed at the event that opened it"))
                if payload.opener_key not in live[t]:
                    fails.append(("late", "span of %s closed after its opener returned" % tp))
            if what == "snapshot" and kind in ("return", "exception"):
                caps = [w for w in payload.watches if w.source == "CAPTURE"]
                if not caps:
                    fails.append(("no-capture", "deferred snapshot sent at a %s event without the captured value" % kind))
        model_events[t].append("(Call %s %s)" % (lab(file, func), L.b(opens)) if kind == "call" else
                               "(Line %s)" % L.b(opens) if kind == "line" else "Exc" if kind == "exception" else "Ret")
        obs[t].append(done_ids)
        if kind == "return":
            live[t].remove(key)
            if not live[t]:
                st = world.pending().get(workers[t].ident)
                if st:
                    fails.append(("left-pending", "thread %d finished its outermost call with %d context(s) pending" % (t, len(st))))
        gidx += 1
    for w in workers:
        w.stop()
    # every span ever opened was closed exactly once
    for p in world.cfg.plugins:
        for s in getattr(p, "spans", []):
            if s.closed != 1:
                fails.append(("not-once", "span of %s (opened at event %d) closed %d time(s) by the end" % (s.tp_id, s.opened_at, s.closed)))
    left = world.pending()
    leftover = {t: [ctx_ids[id(c)][1] for c in reversed(list(left.get(workers[t].ident) or []))] for t in range(nthreads)}
    world.clear_pending()
    desc = dict(threads=nthreads, tracepoints=tdesc, interleaving=order[:60], all_tracepoints_removed_at_event=empty_at,
                traces=[[(k, f.rsplit("/", 1)[1], fn, ln, key) for k, f, fn, ln, key, _ in tr] for tr in traces])
    nested_same = any(sum(1 for e in tr if e[0] == "call") >= 2 for tr in traces)
    ctx.case(dict(tracepoints=tdesc, traces=desc["traces"]), nontrivial=bool(ctx_ids) and nested_same,
             bucket="threads=%d contexts=%s" % (nthreads, "0" if not ctx_ids else "1-3" if len(ctx_ids) < 4 else "4+"))
    seen = set()
    for tag, what in fails:
        if tag not in seen:
            seen.add(tag)
            ctx.fail(what, desc, kind="history", tag=tag)
    lits = []
    for t in range(nthreads):
        lits.append("{| cb_events := %s; cb_obs := %s; cb_obs_pending := %s |}" % (
            L.lst(model_events[t]), L.lst(L.lst(L.nat(i) for i in ids) for ids in obs[t]), L.lst(L.nat(i) for i in leftover[t])))
    return lits, desc


def ident_reuse(ctx, rounds):
    """Threads that run one after another reuse thread idents.  While a later thread has a context pending, the last reference to
    an EARLIER, finished thread (of the same ident) is dropped and collected: the later thread's context is still completed at its
    return, by that thread, exactly once."""
    import gc
    from deep.api.tracepoint.trigger import LocationAction, Trigger, FunctionLocation, Location
    world = e2.World(logger=False, spans=1, metrics=0)
    world.clear_pending()
    conf = {"fire_count": "-1", "fire_period": "0"}
    world.install([Trigger(FunctionLocation("job.py", "job", Location.Position.START),
                           [LocationAction("tp-s", None, dict(conf, span="x"), LocationAction.ActionType.Span),
                            LocationAction("tp-c", None, dict(conf, frame_type="no_frame", watches=[], stage="method_capture"),
                                           LocationAction.ActionType.Snapshot)])])
    finished, idents = [], []
    for r in range(rounds):
        inside, go = threading.Event(), threading.Event()

        def body(r=r):
            fr = e2.mk_frame("/app/job.py", "job", 1, {"r": r})
            world.event(fr, "call")
            inside.set()
            go.wait(10)
            fr.f_lineno = 3
            world.event(fr, "return", "result-%d" % r)
        t = threading.Thread(target=body)
        t.start()
        inside.wait(10)
        idents.append(t.ident)
        finished.clear()          # the earlier Thread objects go away NOW, while this worker has work pending
        gc.collect()
        go.set()
        t.join(10)
        finished.append(t)
    spans = [s_ for p in world.cfg.plugins for s_ in getattr(p, "spans", [])]
    caps = [p for w, _t, _i, p in world.log if w == "snapshot"]
    reused = len(idents) - len(set(idents))
    j = dict(rounds=rounds, thread_idents_reused=reused, spans_opened=len(spans), spans_closed_once=sum(1 for s_ in spans if s_.closed == 1),
             deferred_snapshots_sent=len(caps))
    ctx.case(j, nontrivial=reused > 0, bucket="ident-reuse")
    if any(s_.closed != 1 for s_ in spans) or len(spans) != rounds:
        ctx.fail("%d sequential threads (%d on a reused ident) each opened a method span: %d spans opened, %d closed exactly once" % (
            rounds, reused, len(spans), j["spans_closed_once"]), j, kind="schedule", tag="not-once")
    if len(caps) != rounds:
        ctx.fail("%d sequential threads each deferred a method capture: %d were sent" % (rounds, len(caps)), j, kind="schedule", tag="dropped-uncompleted")
    left = {k: len(v) for k, v in world.pending().items() if v}
    if left:
        ctx.fail("contexts left pending after every thread finished: %r" % (left,), j, kind="schedule", tag="left-pending")
    world.clear_pending()


GEN_SRC = '''
def numbers(n):
    for i in range(n):
        yield i * i
    return "done"

def plain(x):
    return x + 1

def fails(x):
    raise ValueError("no %d" % x)

def main():
    out = [sum(numbers(3)), plain(4)]
    try:
        fails(2)
    except ValueError as e:
        out.append(str(e))
    return out
'''


def live_generators(ctx):
    """Real frames under sys.settrace: a capture tracepoint on a GENERATOR function (python reports every yield as a return of the
    frame and every resumption as a call), on a plain function and on one that raises: whatever was deferred is completed - each
    snapshot handed over once, on the opening thread, nothing left pending."""
    from deep.api.tracepoint.trigger import LocationAction, Trigger, FunctionLocation, Location
    d = os.path.join(os.path.dirname(os.path.dirname(os.path.dirname(os.path.abspath(__file__)))), "build", "live_c15")
    os.makedirs(d, exist_ok=True)
    path = os.path.join(d, "gens_%d.py" % os.getpid())
    base = os.path.basename(path)
    for nthreads in (1, 2):
        world = e2.World(logger=False, spans=0, metrics=0)
        world.clear_pending()
        trigs = []
        for fn in ("numbers", "plain", "fails"):
            conf = {"fire_count": "-1", "fire_period": "0", "frame_type": "no_frame", "watches": [], "stage": "method_capture"}
            trigs.append(Trigger(FunctionLocation(base, fn, Location.Position.CAPTURE),
                                 [LocationAction("cap-" + fn, None, conf, LocationAction.ActionType.Snapshot)]))
        world.install(trigs)
        calls = collections.Counter()

        def tracer(frame, event, arg, world=world):
            if event not in ("call", "line", "return", "exception"):
                return tracer
            if event == "call" and os.path.basename(frame.f_code.co_filename) == base and frame.f_code.co_name in ("numbers", "plain", "fails"):
                calls[(threading.get_ident(), frame.f_code.co_name)] += 1
            r = world.handler.trace_call(frame, event, arg)
            return tracer if r is not None else None
        glb = {"__name__": "gens"}
        exec(compile(GEN_SRC, path, "exec"), glb)
        results = []

        def body():
            sys.settrace(tracer)
            try:
                results.append(glb["main"]())
            finally:
                sys.settrace(None)
        # one thread AFTER the other (a later thread may get the identity of an earlier one and must inherit nothing): two threads
        # hitting one tracepoint at the same instant can lose a fire to the limiter (a hit whose timestamp precedes the last recorded
        # fire is refused), which is not this property's subject and would make "completions = entries" unsound
        for _ in range(nthreads):
            t = threading.Thread(target=body)
            t.start()
            t.join()
        got = collections.Counter((tid, tp[4:]) for what, tp, tid, _p in world.log if what == "snapshot")
        pending = {k: len(v) for k, v in world.pending().items() if v}
        j = dict(live=True, threads=nthreads, openings={"%s" % k[1]: v for k, v in calls.items()}, completed={"%s" % k[1]: v for k, v in got.items()},
                 program_results=results)
        ctx.case(j, nontrivial=True, bucket="live-generators")
        if results != [[5, 5, "no 2"]] * nthreads:
            ctx.fail("the traced program computed %r" % (results,), j, kind="history", tag="live-gen-host")
        for key, n in calls.items():
            if got.get(key, 0) != n:
                ctx.fail("function %s was entered (or resumed) %d times on a thread with a capture tracepoint that fires every time, "
                         "and %d deferred snapshots were completed there: a deferred snapshot was dropped or completed elsewhere" % (
                             key[1], n, got.get(key, 0)), j, kind="history", tag="live-gen-completed-once")
        if pending:
            ctx.fail("contexts left pending after the threads ended: %r" % (pending,), j, kind="history", tag="live-gen-pending")
        world.clear_pending()


def bundled_otel_spans(ctx):
    """The span plugin that comes with the agent, on a real OpenTelemetry SDK provider: the span a span tracepoint opens is still
    open while the function runs and is ended exactly once when the invocation returns / unwinds."""
    try:
        from opentelemetry import trace
        from opentelemetry.sdk.trace import TracerProvider, SpanProcessor
        from deep.api.plugin.otel import OTelPlugin
    except BaseException as e:
        ctx.skip("OpenTelemetry SDK / the bundled plugin is not available here: %r" % (e,))
        return
    from deep.api.tracepoint.trigger import LocationAction, Trigger, FunctionLocation, Location
    events = []

    class Rec(SpanProcessor):
        def on_start(self, span, parent_context=None):
            events.append(("start", span.name, threading.get_ident()))

        def on_end(self, span):
            events.append(("end", span.name, threading.get_ident()))
    provider = trace.get_tracer_provider()
    if not isinstance(provider, TracerProvider):
        provider = TracerProvider()
        trace.set_tracer_provider(provider)
        if trace.get_tracer_provider() is not provider:
            ctx.skip("a tracer provider of the SDK cannot be installed in this process")
            return
    provider.add_span_processor(Rec())
    for how in ("returns", "raises"):
        world = e2.World(logger=False, spans=0, metrics=0)
        world.clear_pending()
        try:
            world.cfg.plugins = [OTelPlugin(config=world.cfg)]
        except BaseException as e:
            ctx.skip("the bundled OTel plugin did not construct: %r" % (e,))
            return
        conf = {"fire_count": "-1", "fire_period": "0", "span": "method"}
        world.install([Trigger(FunctionLocation("m.py", "work", Location.Position.START),
                               [LocationAction("tp-otel", None, conf, LocationAction.ActionType.Span)])])
        del events[:]
        fr = e2.mk_frame("/app/m.py", "work", 5, {"n": 1})
        world.event(fr, "call")
        after_call = list(events)
        fr.f_lineno = 6
        world.event(fr, "line")
        during = list(events)
        if how == "raises":
            world.event(fr, "exception", (ValueError, ValueError("x"), None))
        world.event(fr, "return", None if how == "raises" else 3)
        after = list(events)
        j = dict(bundled_otel=True, invocation=how, after_call=[e_[0] for e_ in after_call], while_running=[e_[0] for e_ in during],
                 after_return=[e_[0] for e_ in after])
        ctx.case(j, nontrivial=True, bucket="bundled-otel")
        starts = [e_ for e_ in after if e_[0] == "start"]
        if len(starts) != 1:
            ctx.fail("a method span tracepoint with the bundled OTel plugin started %d SDK spans for one invocation" % len(starts), j,
                     kind="history", tag="otel-span-count")
            continue
        if any(e_[0] == "end" for e_ in during):
            ctx.fail("the SDK span was ended while the function was still running (after the call event: %r, after a line: %r): it must "
                     "stay open until the invocation is over" % ([e_[0] for e_ in after_call], [e_[0] for e_ in during]), j,
                     kind="history", tag="otel-span-ended-early")
        elif [e_[0] for e_ in after].count("end") != 1:
            ctx.fail("the SDK span was ended %d times by the end of the invocation" % [e_[0] for e_ in after].count("end"), j,
                     kind="history", tag="otel-span-ended-once")
        world.clear_pending()


def run(ctx):
    import logging
    from ..lib.quiet import quiet_logging
    quiet_logging()
    ctx.rule = ("1-3 real threads, each delivering a generated well-formed trace (up to 60 events: calls of 3 functions in 2 "
                "files with same-named nesting to depth 5, lines, caught and propagating exceptions, returns, several "
                "outermost calls per thread) through synthetic frames, interleaved at event granularity in a generated order; "
                "tracepoints: method span / method capture per function, line span / line capture per line, fire_count in "
                "{-1,1,2,3}, 1-2 span processors; plus recursion to depth 150-600 with a context per invocation. Non-trivial: at least one context opened and nested calls present.")
    ctx.assumptions = [
        "per-thread traces are well formed (the grammar CPython delivers: call (line | exception | nested)* return)",
        "contexts are matched by file and function NAME (the code's rule); an early completion by a same-named nested "
        "invocation is within the statement, a captured value taken from it is the recorded known finding",
    ]
    ctx.prove()
    lits, cj = [], []
    n = 600 if ctx.thorough else 90
    for i in range(n):
        ls, desc = run_case(ctx, ctx.rng.choice([1, 1, 2, 3]), ctx.rng.choice([12, 30, 60]))
        for x in ls:
            lits.append(x)
            cj.append(desc)
    for depth in ([2, 3, 4, 6] if ctx.thorough else [2, 3]):
        ls, desc = run_case(ctx, 1, 0, nested_line=depth)
        for x in ls:
            lits.append(x)
            cj.append(desc)
    ls, desc = run_case(ctx, 1, 0, deep=(900 if ctx.thorough else 600), two_per=True)       # 1200+ contexts pending in one thread
    for x in ls:
        lits.append(x)
        cj.append(desc)
    for depth in ([70, 150, 300, 600] if ctx.thorough else [150, 300]):
        ls, desc = run_case(ctx, 1, 0, deep=depth)
        for x in ls:
            lits.append(x)
            cj.append(desc)
    ctx.correspond("callbacks", IMPORTS, "cb_case", "check_cb_case", lits, cj, shard=100)
    ident_reuse(ctx, 60 if ctx.thorough else 25)
    live_generators(ctx)
    bundled_otel_spans(ctx)


def replay(ctx, data):
    ctx.fail("replay re-runs the seeded generation: VERIF_SEED=%s check.py C15" % data.get("seed"))
