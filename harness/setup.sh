#!/bin/bash
# Build the Coq development from files on disk only (offline), full .vo build, and gate on forbidden commands.
set -e
cd "$(dirname "$0")/../coq"
if grep -rnE '\b(Admitted|admit|Axiom|Parameter|Conjecture|Unset Guard|bypass_check|type-in-type|impredicative-set)\b' theories props gen --include='*.v' ; then
  echo "forbidden command found in the Coq sources" >&2
  exit 1
fi
PYTHONPATH=/repo/src PYTHONHASHSEED=0 /venv/bin/python ../harness/translate/gen.py
coq_makefile -f _CoqProject -o Makefile > /dev/null 2>&1
timeout 3000 make -j16 > ../build.log 2>&1 || { tail -50 ../build.log; exit 1; }
echo "coq build ok: $(grep -c 'Closed under the global context' ../build.log) closed assumption reports"
