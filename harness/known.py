"""Known findings: /verif/known_findings.txt is read, never written, at run time.

  known: property=<id> match=<matcher> <what fails>
  fixed: property=<id> <commit> <what failed>          (suppresses nothing)

A matcher is a named predicate over a failure record (dict with what / case / observed / tag)."""
import os
import re

HERE = os.path.dirname(os.path.dirname(os.path.abspath(__file__)))

MATCHERS = {}


def matcher(name):
    def deco(fn):
        MATCHERS[name] = fn
        return fn
    return deco


def load(cid):
    out = []
    path = os.path.join(HERE, "known_findings.txt")
    if not os.path.exists(path):
        return out
    for line in open(path):
        m = re.match(r"^known:\s+property=(\S+)\s+match=(\S+)\s+(.*)$", line.strip())
        if m and m.group(1) == cid:
            out.append(dict(property=m.group(1), matcher=m.group(2), text=m.group(3)))
    return out


def match(lines, failure):
    for k in lines:
        fn = MATCHERS.get(k["matcher"])
        if fn is not None and fn(failure):
            return k
    return None


# ---------------------------------------------------------------------------------------------
# matchers (each accepts only the specific input / call site / history of its finding)
# ---------------------------------------------------------------------------------------------
