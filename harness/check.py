#!/venv/bin/python
"""Entry point of every registered check:  check.py Cxx [--tier quick|thorough] [--replay path]."""
import argparse
import importlib
import json
import os
import sys

HERE = os.path.dirname(os.path.abspath(__file__))
sys.path.insert(0, os.path.dirname(HERE))
# the implementation under test is always /repo's current working tree
sys.path.insert(0, os.environ.get("VERIF_DEV_SRC", "/repo/src"))      # the override is for the seeded-change regression (worktrees) only
os.environ.setdefault("PYTHONHASHSEED", "0")


def main():
    ap = argparse.ArgumentParser()
    ap.add_argument("cid")
    ap.add_argument("--tier", default=os.environ.get("VERIF_TIER", "quick"))
    ap.add_argument("--replay", default=None)
    a = ap.parse_args()
    tier = a.tier if a.tier in ("quick", "thorough") else "quick"
    seed = int(os.environ.get("VERIF_SEED", "0") or 0)
    from harness.lib.report import Ctx
    ctx = Ctx(a.cid, tier, seed)
    mod = importlib.import_module("harness.props.%s" % a.cid.lower())
    if a.replay:
        # a replay file records the seed and tier of the run that found the failure and the tag of the failing
        # case: the same generation is re-run on the CURRENT tree and the failure is looked for again
        data = json.load(open(a.replay))
        ctx = Ctx(a.cid, data.get("tier", tier), int(data.get("seed", seed)))
        mod.run(ctx)
        sys.exit(ctx.finish_replay(data, a.replay))
    try:
        mod.run(ctx)
    except BaseException as e:      # the driver itself failed on the current tree: that is a finding about the tree, not a pass
        import traceback
        ctx.fail("the check's driver could not complete on the current tree: %r" % (e,), dict(traceback=traceback.format_exc()[-3000:]),
                 kind="driver", tag="driver-crashed")
    sys.exit(ctx.finish())


if __name__ == "__main__":
    main()
