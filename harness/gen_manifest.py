#!/venv/bin/python
"""Regenerate /verif/MANIFEST.json from the table below (kept in one place so it stays valid)."""
import json
import os

HERE = os.path.dirname(os.path.dirname(os.path.abspath(__file__)))
CMD = "PYTHONPATH=/repo/src PYTHONHASHSEED=0 /venv/bin/python harness/check.py %s --tier %s"

CHECKS = {
    "C18": dict(
        engine="E4-stores",
        technique="Coq proof (step invariants over all op sequences, merge laws) + in-Coq correspondence with real BoundedAttributes/Resource/Deep.start",
        text="14 Coq theorems over the executable model Attrs.v: capacity/distinct-keys/cleaned-values invariant for every "
             "reachable store state, exact FIFO-eviction and drop-count step law, conservation, frozen stores, "
             "merge precedence, schema rule, last-holder-wins for chains, mandatory keys. The model is tied to the code "
             "on every run by evaluating it inside Coq on the op sequences / resource chains the real classes just ran.",
        note="Trusted: Coq kernel+VM; harness generators/encoders; floats opaque; urllib unquote; non-string "
             "process.executable.name is outside the generated domain. 'merge does not modify operands' is checked on "
             "the implementation (the functional model cannot exhibit mutation).",
        design="5-C18"),
    "C19": dict(
        engine="E4-stores",
        technique="Coq proof (precedence characterisation, print/parse and join/split round trips, app-frame iff) + in-Coq correspondence with ConfigService/GRPCService/LongPoll/is_app_frame under controlled environments",
        text="9 Coq theorems over Config.v: resolution precedence (code > env-backed default > DEEP_<KEY> > absent, functions "
             "called), 'same from code or environment' for the typed uses (poll interval via decimal print/parse round trip, "
             "booleans via str2bool(str(v)), prefix lists via join/split round trip, no blank prefix ever), app-frame iff "
             "and short-path law, interpreter files never app frames. Tied to the code by running the real services under "
             "generated environments (deep.config re-imported each time) and comparing inside Coq.",
        note="Trusted: Coq kernel+VM; harness; settings restricted to None/text/small naturals/bools/lists/functions; "
             "POLL_TIMER texts are decimal integers; ASCII lower-casing; prefixes contain no comma.",
        design="5-C19"),
}

NOT_APPLICABLE = {}

ALL = ["C%02d" % i for i in range(1, 21)]


def main():
    checks = []
    for cid in ALL:
        if cid not in CHECKS:
            continue
        c = CHECKS[cid]
        checks.append(dict(
            property_id=cid, quick_cmd=CMD % (cid, "quick"), thorough_cmd=CMD % (cid, "thorough"),
            evidence_file="evidence/%s.json" % cid,
            replay_cmd_template="PYTHONPATH=/repo/src PYTHONHASHSEED=0 /venv/bin/python harness/check.py %s --replay {path}" % cid,
            engine=c["engine"],
            level_claimed=dict(category="proof", text=c["text"], design_ref="DESIGN.md section " + c["design"]),
            level_note=c["note"], technique=c["technique"]))
    na = []
    for cid in ALL:
        if cid not in CHECKS:
            na.append(dict(property_id=cid, reason=NOT_APPLICABLE.get(
                cid, "check not built yet in this development (planned, see DESIGN.md section 5); not claimed until its proof and correspondence run")))
    m = dict(
        version=1,
        setup_cmd="bash harness/setup.sh",
        hooks=dict(guard="DEEP_VERIF_HOOKS", enable="no hooks are used: all instrumentation is applied from outside "
                   "(monkeypatching, synthetic frames, fake channel); the guard name is reserved",
                   baseline_off_cmd="cd /repo && /venv/bin/python -m pytest -ra -q -p no:cacheprovider --timeout=900 --continue-on-collection-errors",
                   source_commits=[], add_only=True),
        engines=[
            dict(name="E4-stores", path="coq/theories/Attrs.v coq/theories/AttrsProofs.v coq/theories/Config.v harness/props/c18.py harness/props/c19.py",
                 serves_properties=["C18", "C19"], kind_free_text="Gallina models of the attribute store, resources, configuration resolution; proofs; in-Coq correspondence"),
        ],
        checks=checks,
        notes="Every check: (1) incremental full .vo build of coq/, (2) re-compiles coq/props/<id>.v and requires every "
              "Print Assumptions to be closed, (3) drives /repo/src's current code on generated inputs and compares with "
              "the model inside Coq (vm_compute), (4) applies a property oracle to the implementation's observations. "
              "See DESIGN.md.",
        not_applicable=na)
    with open(os.path.join(HERE, "MANIFEST.json"), "w") as f:
        json.dump(m, f, indent=1)
    print("wrote MANIFEST.json with %d checks, %d unclaimed" % (len(checks), len(na)))


if __name__ == "__main__":
    main()
