#!/venv/bin/python
"""Regenerate /verif/MANIFEST.json from the table below (kept in one place so it stays valid)."""
import json
import os

HERE = os.path.dirname(os.path.dirname(os.path.abspath(__file__)))
CMD = "PYTHONPATH=/repo/src PYTHONHASHSEED=0 /venv/bin/python harness/check.py %s --tier %s"

CHECKS = {
    "C08": dict(
        engine="E6-wire",
        technique="Coq proof (general losslessness law for table-driven record conversion; per converter: the table REGENERATED from /repo/src equals the intended pairing and is lossless for the REGENERATED field list; convert_value injective) + serialise/parse round trips of collector-produced snapshots against a field-by-field oracle + captured request metadata",
        text="9 Coq theorems: a conversion table in which every record field is the source of exactly one message field loses "
             "nothing for any record (unconvert (convert s) f = s f for every field f), and nothing is invented; instantiated "
             "for the six converters of push/__init__.py (snapshot, tracepoint, frame, variable, variable id, watch) whose "
             "tables and field lists are regenerated from the source on every run and must equal the pairing the protocol "
             "intends (none dropped, duplicated or swapped); attribute values (bool, text, int, float, sequences) are "
             "converted injectively; valid text is sent unchanged and whatever the text what is sent is valid unicode (sanitiser model, compared inside Coq with the real one). Search: snapshots from the real collector on generated/hostile graphs plus variations "
             "(error watches, lone surrogates, tuple attributes, numeric args, empty and 3000-entry tables) through the real "
             "convert_snapshot, SerializeToString, FromString, every field compared; 5 auth configurations with the metadata "
             "of every poll and send request captured. PARTIAL: protobuf's encoder and gRPC are exercised, not modelled.",
        note="Trusted: Coq kernel+VM; translator wiremap.py; the intended pairing (props/C08.v, from the .proto documentation); "
             "text that is not valid unicode arrives escaped (it cannot be carried otherwise).",
        design="5-C08"),
    "C01": dict(
        engine="E3-exnflow",
        technique="Coq proof over a skeleton REGENERATED from /repo/src by a fail-closed Python-ast translator (verified may-escape and return-path analyses of an exception-flow language with a nondeterministic fault semantics) + fault injection at named sites + differential live runs",
        text="3 Coq theorems re-proved on every run over coq/gen/Skeleton.v (TriggerHandler.trace_call with everything it calls "
             "inlined by name, every unresolved call / host operation an opaque step that may raise Exception- or "
             "BaseException-class errors): no execution ends by raising; every return hands the trace function back except on "
             "the 'shut down' and 'no tracepoints' branches; the returned value is the trace function or None. The analyses "
             "(esc, rets, ret_paths) are proved sound against the big-step semantics once and for all in ExnFlow.v. Search: "
             "40 fault sites x {Exception, BaseException} x call number x scenarios through the real handler, and a host "
             "program run with and without the agent under generated (also malformed) tracepoints. PARTIAL: that the agent's "
             "observations do not change host data is checked by the differential runs only.",
        note="Trusted: Coq kernel+VM; the translator (call resolution by name inside deep, dynamic dispatch = choice over same-named "
             "definitions, open-world alternative for receivers not rooted at self, no-raise whitelist listed in the evidence); "
             "Python's try/except/finally/with semantics as encoded; MemoryError/RecursionError/signals out of scope. Known "
             "observation outside the anchors: deep.start() reconfigures the root logger.",
        design="5-C01"),
    "C20": dict(
        engine="E3-exnflow",
        technique="Coq proof: loader = filter + stable insertion sort (membership iff, sortedness, failing candidate removable, stability) and, over loop bodies REGENERATED from /repo/src, 'every element attempted' for each of the nine plugin loops under Exception-class faults + in-Coq correspondence with the real load_plugins + differential fault runs",
        text="7 Coq theorems: exactly the candidates that import, construct and report active are loaded, sorted by declared "
             "order (equal orders keep input order); a candidate that fails affects no other; for each of the nine loops over "
             "plugins / callbacks / results / listeners (bodies regenerated from the source on every run) every execution over "
             "n elements, under any Exception-class failures of the callbacks, attempts all n and reaches the statements after "
             "the loop. Tied to the code by generated candidate sets through the real load_plugins (compared inside Coq) and by "
             "span / metric / decorator / logger / resource-provider plugins failing at random through the real handler and "
             "Deep.start. Tie T2: SpanActionContext.can_trigger is translated from source on every run (coq/gen/PSpans.v): C20_the_code_span_needs_a_processor.",
        note="Trusted: Coq kernel+VM; translator and whitelist as for C01; a plugin fails by raising an Exception subclass.",
        design="5-C20"),
    "C09": dict(
        engine="E5-services",
        technique="Coq proof (exactly-once and flush invariants of the task-handler state machine over all label sequences: submissions, completions in any order the two-worker pool allows, flush steps; result()-style waiting refuted) + in-Coq correspondence with the real TaskHandler driven by gated tasks, and the real PushService with a recording stub",
        text="6 Coq theorems over Tasks.v: every accepted task is executed at most once and exactly once when done, only by a "
             "worker transition; a finishing (failing) task changes no other task; flush returns normally and, when it has "
             "returned, the handler is closed and every accepted task is finished; a submission after closing is refused and "
             "nothing is enqueued; waiting with result() is refuted by a checked witness. Tied to the code by histories of "
             "gated tasks on the real ThreadPoolExecutor-backed TaskHandler (done flags and flush outcome after every "
             "operation compared inside Coq) and PushService batches (send count, sending thread, auth metadata, failures).",
        note="Trusted: Coq kernel+VM; harness; concurrent.futures executor semantics (environment model); slow = within the 10 s wait; "
             "thread settling by bounded waits (30 ms) in the harness.",
        design="5-C09"),
    "C14": dict(
        engine="E5-services",
        technique="Coq proof over functions REGENERATED from /repo/src by a fail-closed Python-ast translator (pure.py) and proved equal to the model + Coq proof (lifecycle state machine: start idempotent, NO_TRACE never writes hooks over all op sequences and faults, shutdown restores the pre-start hooks and attempts every step for every fault oracle, inert afterwards; unguarded discipline refuted) + in-Coq correspondence with the real Deep/TriggerHandler start/shutdown",
        text="16 Coq theorems over Lifecycle.v: a repeated start is the identity; a start that FAILS after the hooks were installed leaves the hooks as they were and a later start / shutdown cycle still restores them (the variant without that clean-up is refuted by witness); with tracing disabled no sequence of agent "
             "operations with any faults changes either hook register; start followed by shutdown leaves both registers as "
             "they were, whatever fails, with polling stopped, started=false and the handler inert; a shutdown of a started "
             "agent attempts hooks, drain, stop-poll and EVERY plugin in order for every fault oracle; an inert handler acts "
             "on nothing and a later start re-enables it; the unguarded step sequence is refuted by a checked witness. Tied "
             "to the code by op sequences on the real Deep object with fault-raising doubles for flush / poller / plugins, "
             "hooks read with sys.gettrace / threading.gettrace, an event delivered in another thread after every step. Tie T2: TriggerHandler.start / shutdown are translated from source on every run (coq/gen/PHooks.v) and proved to be the handler part of the model's start / shutdown; C14_the_code_restores_the_hooks is stated over the translated code.",
        note="Trusted: Coq kernel+VM; harness; 'fail' = raise (a peer that never answers is liveness, outside the model); gRPC "
             "channel, poller, delivery replaced by doubles; the host does not replace the agent's hooks while it owns them.",
        design="5-C14"),
    "C12": dict(
        engine="E5-services",
        technique="Coq proof over functions REGENERATED from /repo/src by a fail-closed Python-ast translator (pure.py) and proved equal to the model + Coq proof (convergence invariant over all histories of poll answers / register / unregister / task executions in any order of the two running tasks; reported-hash invariant; no-change and failed-poll frame laws; captured-config discipline refuted by witness) + in-Coq correspondence with the real service under a controlled task handler + physical two-worker runs",
        text="10 Coq theorems over ConfigSvc.v: in every reachable state with no update task pending the handler's installed list "
             "is the latest polled configuration followed by the live registrations; the hash reported is that of the last "
             "update answer; a no-change answer changes only the timestamp; a failed or malformed poll changes nothing; tasks "
             "installing the configuration captured at submit are refuted by a checked witness (update, update, second task "
             "first). Tied to the code by generated histories through the real LongPoll.poll (scripted stub), "
             "TracepointConfigService, ConfigService and TriggerHandler with a task handler that lets the harness pick which "
             "of the two running tasks installs first; installed list after every step compared inside Coq. Tie T2: update_no_change, update_new_config, __trigger_update, update_listeners and the handler's listener are translated from source on every run (coq/gen/PService.v) and proved to be the model's steps; C12_the_code_installs_the_current_state is stated over the translated code (what a task installs does not depend on what it captured). LongPoll.poll itself is translated too (coq/gen/PPoll.v, tie TiePoll.v): C12_the_code_poll_is_a_model_step (for every service state, clock and service behaviour one poll is exactly PollNoChange / PollUpdate with the answer's time, hash and tracepoints), C12_the_code_poll_reports_the_current_hash (the request carries the hash currently held; the outcome depends on the service only through the answer to that hash).",
        note="Trusted: Coq kernel+VM; harness; an update task's installation is atomic (the service's lock); pool of two workers; "
             "timer loop continuing after a failing poll is exercised on the real RepeatedTimer, not proved.",
        design="5-C12"),
    "C13": dict(
        engine="E5-services",
        technique="Coq proof over functions REGENERATED from /repo/src by a fail-closed Python-ast translator (pure.py) and proved equal to the model + Coq proof (handle freshness/uniqueness invariant over all histories; register adds alongside; unregister removes exactly the registration of that handle; twice is the identity; location-as-handle refuted) + in-Coq correspondence with the real service and API",
        text="8 Coq theorems over ConfigSvc.v: handles of live registrations are pairwise distinct in every reachable state; a "
             "registration is appended under a fresh handle and leaves the service's configuration alone; unregistering a "
             "handle removes the registration that returned it and no other, whatever shares its location; a second "
             "unregister is the identity; service updates keep the registrations; at quiescence installed = service's + "
             "registered; the location-as-handle discipline is refuted by a checked witness. Tied to the code by histories "
             "weighted to register/unregister on shared lines (repeated and never-returned handles) and by the public "
             "register_tracepoint / unregister objects (watches given out of order and repeated must be installed as given). Tie T2: add_custom / remove_custom are translated from source on every run (coq/gen/PService.v) and proved to be the model's Register / RegisterRefused / Unregister steps.",
        note="Trusted: Coq kernel+VM; harness; uuid4 handles are distinct (modelled as a counter).",
        design="5-C13"),
    "C11": dict(
        engine="E2-handler",
        technique="Coq proof over functions REGENERATED from /repo/src by a fail-closed Python-ast translator (pure.py) and proved equal to the model + Coq proof (decision table of build_trigger for every argument map: iff-characterisation of each action kind, carried settings, placement, one action per kind; an uninterpretable tracepoint changes nothing else; merged response keeps all actions up to permutation) + EXHAUSTIVE in-Coq correspondence over the interacting keys",
        text="11 Coq theorems over TriggerTable.v, for every argument map, watches and metrics: a snapshot action iff collection "
             "is not switched off (carrying log message, watches, frame/stack type), a log action iff a message is given and "
             "collection is off, one metric action with every definition iff any, a span action iff requested, every action "
             "with the tracepoint's own id/condition/fire count/fire period, at most one action per kind, location per "
             "stage/method_name/span; a response with an uninterpretable member converts as if it were absent, and what is "
             "installed at a location is (up to order) the actions of all interpretable members placed there. Tied to the "
             "code by the exhaustive 1024-row table through the real build_trigger, response lists through convert_response, "
             "and add_custom with an unknown stage. Tie T2: build_trigger and the four action builders are translated from source on every run (coq/gen/PTable.v) and proved to give the model's table for EVERY argument map.",
        note="Trusted: Coq kernel+VM; harness; argument values are text; nameless method locations never match (observation, "
             "outside the statement); capture stages are not copied into the action config by the builders (observation).",
        design="5-C11"),
    "C16": dict(
        engine="E2-handler",
        technique="Coq proof (print/scan round trip of the brace scanner: render(print segs) = '[deep] ' ++ texts, for all segment lists and all frame states; literal templates; one message per collected hit) + in-Coq correspondence with the real log action and with CPython's string.Formatter scanner",
        text="7 Coq theorems over Template.v: for every list of segments (any literal characters incl. braces, fields with any "
             "brace-free expression) and every evaluation function, rendering the printed template gives '[deep] ' followed "
             "by the literals and, in place, each field's value text or error text; brace-free templates are emitted as "
             "they are; one message per collected hit; labels each in its own place; LOG watches distribute over the fields "
             "in order. Tied to the code by generated templates x frame states through the real handler (log-only and "
             "collecting tracepoints), message / snapshot.log_msg compared inside Coq, scanner compared with CPython's.",
        note="Trusted: Coq kernel+VM; harness; field expressions without colon / exclamation mark / brace (format specs and "
             "conversions are outside the statement); CPython's Formatter; labels and LOG watches are checked by the oracle.",
        design="5-C16"),
    "C17": dict(
        engine="E2-handler",
        technique="Coq proof over functions REGENERATED from /repo/src by a fail-closed Python-ast translator (pure.py) and proved equal to the model + Coq proof (dispatch membership iff, exactly-once decomposition and |metrics| x |processors| count, call fields, value defaulting, no-processor no-budget) + in-Coq correspondence with the real metric action",
        text="8 Coq theorems over Metric.v: on a permitted hit the calls are exactly one per (definition, processor) pair, those "
             "of one definition being one per processor in order; operation = lower-cased type, namespace defaults to 'deep', "
             "name/help/unit passed on; value = the expression's number, else 1 (absent, non-numeric, failing); with no "
             "processor nothing is reported and the stats are unchanged. Tied to the code by generated definition lists x "
             "0-3 recording processors x 1-3 hits through the real handler; calls in order and fire count compared in Coq; processors loaded by the agent's own load_plugins with every subset switched off by PLUGIN_<NAME> (a switched-off processor receives nothing; none active: nothing reported, no budget used). Tie T2: MetricActionContext.can_trigger and _convert_type are translated from source on every run (coq/gen/PMetrics.v): C17_the_code_needs_a_processor, C17_the_code_operation_is_the_model.",
        note="Trusted: Coq kernel+VM; harness; numbers compared by printed text; processors that fail are C20.",
        design="5-C17"),
    "C03": dict(
        engine="E2-handler",
        technique="Coq proof over functions REGENERATED from /repo/src by a fail-closed Python-ast translator (pure.py) and proved equal to the model + Coq proof (location matching iff-characterisations, soundness/completeness/silence/independence of the per-event action selection, merge keeps actions up to permutation) + in-Coq correspondence with the real handler on synthetic events, poll responses and live multi-threaded programs",
        text="13 Coq theorems over Match.v and Handler.v: a line location matches exactly the line events of that file name and line, a "
             "named method location exactly the call events of that function name in that file, return/exception events "
             "match nothing; whatever acts at an event belongs to an installed trigger at that location with an open gate "
             "(only-when), every such action acts (when), no matching trigger means no action, each trigger contributes what "
             "it contributes alone wherever it stands, and the merge of same-location tracepoints of a response keeps every "
             "action; in the composition (Handler.v) whatever fires was matched, permitted by its own limits and its condition held, and over any event sequence an action's statistics are those of the limiter run on the events at its own location. Tied to the code by generated trigger lists x events of all kinds, the same through convert_response, gated event sequences under a virtual clock, live programs (generator, caught exception, 3 threads) and threads overlapping inside one another's actions. Tie T2: LineLocation/FunctionLocation.at_location are translated from source on every run (coq/gen/PMatch.v); C03_the_code_matches_exactly is stated over the translated code; TriggerHandler._trace_call and location_from_event are translated too (coq/gen/PEvent.v): a normal form for every instantiation of its callees (every matching action gets one turn, in order: `if can_trigger and acquire: process`) and, with the translated matching, equality with the model's composition Handler.handle (TieEvent.v; the limiter instantiation is the library lemma TieEventHit.v).",
        note="Trusted: Coq kernel+VM; harness; scope is the events CPython delivers to the handler; gates open (C04/C10 decide gates); "
             "effect order within one event normalised.",
        design="5-C03"),
    "C15": dict(
        engine="E2-handler",
        technique="Coq proof over functions REGENERATED from /repo/src by a fail-closed Python-ast translator (pure.py) and proved equal to the model + Coq proof (grouped-by-live-invocation invariant of the pending store over all well-formed traces and all opening choices; at-most-once, not-late, in-extent, drained, thread independence; top-only discipline refuted) + in-Coq correspondence with the real handler driven by real threads",
        text="9 Coq theorems over Callbacks.v: for every well-formed event trace of a thread and every choice of events that open "
             "contexts, each context is completed at most once and strictly after it was opened; a pending context always "
             "belongs to a running invocation and the return of an invocation completes everything it opened; a completion "
             "happens at an event of an invocation with the opener's file/function name inside the opener's extent; when the "
             "outermost invocation has returned nothing is pending and every context was completed exactly once; threads' "
             "stores evolve independently under any interleaving; the pre-repair top-only rule is refuted by a checked witness. "
             "Tied to the code by 1-3 real threads delivering generated traces (same-named nesting, caught/propagating "
             "exceptions) to the real handler with span/capture tracepoints; opened/completed contexts per event compared in Coq. Tie T2: CallbackContext.at_location and the BODY of the loop of __process_call_backs are translated from source on every run (coq/gen/PCallbacks.v); the loop over the translated body is proved equal to the model's complete for every pending stack (C15_the_code_loop_is_the_model).",
        note="Trusted: Coq kernel+VM; harness; CPython's event grammar per thread. Known finding: a capture completed by a "
             "same-named nested invocation carries that invocation's value (name matching).",
        design="5-C15"),
    "C04": dict(
        engine="E2-handler",
        technique="Coq proof over functions REGENERATED from /repo/src by a fail-closed Python-ast translator (pure.py) and proved equal to the model + Coq proof (state invariant over all hit histories: count, spacing, window, liveness; invariant of the N-thread interleaving semantics over all schedules; unlocked discipline refuted by witness) + in-Coq correspondence under a virtual clock and forced schedules",
        text="15 Coq theorems over Limiter.v: for every hit history and every setting (text, number, absent, unparsable -> "
             "defaults 1/1000) at most fire_count collections unless -1, consecutive collections >= fire_period ms apart "
             "(boundary collects), none outside the window the action holds, permitted true hits do collect; for ANY number "
             "of threads and ANY schedule of their steps (check; condition; atomic claim; collect) the same bounds hold in "
             "every reachable state; the check-then-record discipline without the claim is refuted by a checked witness. "
             "Tied to the code by hit histories through the real handler under a virtual clock and by 2-4 threads parked "
             "inside condition/watch evaluation and released in generated orders, both compared inside Coq. Tie T2: in_window, fire, can_trigger, try_trigger are translated from source on every run (coq/gen/PLimits.v) and proved equal to the model's; C04_the_code_allows_only_within_limits / _records_iff_allowed are stated over the translated code. The settings (LocationAction.__get_int, fire_count, fire_period) are translated too: C04_the_code_settings_are_the_model, C04_the_code_defaults.",
        note="Trusted: Coq kernel+VM; harness; hit times positive; numerals without blanks/underscores; atomicity of the code "
             "between two parking points is by the GIL, exercised not proved. Known finding: window arguments never reach the action.",
        design="5-C04"),
    "C10": dict(
        engine="E2-handler",
        technique="Coq proof over functions REGENERATED from /repo/src by a fail-closed Python-ast translator (pure.py) and proved equal to the model + Coq proof (gate characterisation, failing condition rejects for every error text, rejected hits keep the budget, three-scope name resolution, per-expression results) + in-Coq correspondence with real evaluate_expression / can_trigger / handler",
        text="9 Coq theorems over Cond.v + Limiter.v: a hit collects only if limits allow and the condition's value passes "
             "str2bool; a condition that fails to evaluate rejects whatever its message; a rejected hit leaves the stats "
             "unchanged, so after any number of rejected hits a permitted true hit collects; names resolve in locals, then "
             "the frame's module globals, then builtins, and nowhere else; each watch has its own result and a failing one "
             "does not change the others. Tied to the code by name lookups over generated scopes (including names of the "
             "agent's own modules), 21 values x 11 exception kinds through can_trigger, mixed histories through the handler. Tie T2: ActionContext.can_trigger and str2bool are translated from source on every run (coq/gen/PGate.v, PTruth.v); C10_the_code_gate is stated over the translated code.",
        note="Trusted: Coq kernel+VM; harness; CPython's eval for the expression language itself; expressions side-effect free.",
        design="5-C10"),
    "C02": dict(
        engine="E1-collector",
        technique="Coq proof over functions REGENERATED from /repo/src by a fail-closed Python-ast translator (pure.py) and proved equal to the model + Coq proof (frame description laws, entry fidelity as a step invariant of the work-list collector, children by kind) + in-Coq correspondence with real TriggerHandler/FrameCollector/VariableSetProcessor on synthetic frames + live programs with an independent recorder",
        text="14 Coq theorems over Collector.v/Frames.v: one described frame per stack frame in order with its file, function, "
             "line and class; app flag and short path per the C19 laws; frame_type selects which frames carry variables; every "
             "table entry of every reachable collector state carries its object's type name, text cut at the limit, truncation "
             "flag and identity; the text of an exact dict/list/tuple/set/frozenset is 'Size: n' with n ALL its elements, computed "
             "by the model (C02_container_text); children are the object's children by kind (keys, first max_collection_size indexes, "
             "attributes with private-name demangling). Tied to the code by running the real handler on generated object "
             "graphs in synthetic frame chains and comparing table, frame variables, watches and frame descriptions inside "
             "Coq (1-3 tracepoints on the line, every snapshot compared); plus live generated programs under sys.settrace with an "
             "independent reader of f_locals/f_back. Tie T2: should_collect_vars (which frames carry variables, for every frame_type text), var_modifiers, parse_short_name, correct_names (private attribute names) and process_list_breadth_first (elements in order, named by index) are translated from source on every run and proved equal to the model's.",
        note="Trusted: Coq kernel+VM; harness reader (objgen.Heap) and generators; id() injective on live objects; watch "
             "values supplied by the harness in place of eval (expression evaluation is C10); time budget not hit.",
        design="5-C02"),
    "C05": dict(
        engine="E1-collector",
        technique="Coq proof over functions REGENERATED from /repo/src by a fail-closed Python-ast translator (pure.py) and proved equal to the model + Coq proof (step invariants of the work-list collector lifted over all fuel: count, string, collection, depth bounds; FIFO depth monotonicity; LIFO refuted by witness) + in-Coq correspondence with the real collector",
        text="18 Coq theorems over Collector.v, for every heap (any width, depth, cycles), every limit setting and every fuel: "
             "variable count <= max(initial, max_variables+1); value length <= max_string_length with the truncation flag "
             "exact; list-like children <= max_collection_size; nesting depth < max_var_depth; with the FIFO work list the "
             "recording order is non-decreasing in depth and whatever is still waiting is at least as deep as everything recorded (shallower variables win), and a checked witness shows the LIFO "
             "discipline violates it. Tied to the code by evaluating the model inside Coq on the graphs the real "
             "TriggerHandler just collected (table, frame variables, watches must be equal). Tie T2 (coq/gen/PCollect.v, translated from source on every run): truncate_string, check_var_count, and the traversal itself - one iteration of breadth_first_search's work-list loop, VariableSetProcessor.search_function, process_variable and Node.add_children - proved to compute the model's run for every heap, state and fuel (TieTraverse.v), so the breadth-first, budget and termination theorems are stated over the translated loop; process_list_breadth_first (collection-size cap) and process_child_nodes (no-child types, depth gate) - proved to be the model's children_of (TieChildren.v).",
        note="Trusted: Coq kernel+VM; harness reader and generators; id() injective on live objects; time budget not hit.",
        design="5-C05"),
    "C06": dict(
        engine="E1-collector",
        technique="Coq proof (totality of the model's observation primitives, leaf objects enqueue nothing, per-action independence) + in-Coq correspondence with the real collector on hostile values, 1-3 actions per event, line/return/exception events",
        text="4 Coq theorems over Collector.v: every recorded entry (offending objects included) carries its real type name and "
             "guarded text; an object without children adds nothing to the work list; the snapshot of an action among "
             "l1 ++ A :: l2 equals its snapshot alone; unselected frames touch neither cache nor table. Tied to the code by "
             "hostile-weighted generated graphs (bytes, datetime, deque, Enum, slots, generators, raising dunders, non-string "
             "keys, lone surrogates) through the real handler with 1-3 tracepoints on one event, compared inside Coq, "
             "and every produced snapshot is converted for delivery.",
        note="Trusted: Coq kernel+VM; harness; raising dunders raise Exception subclasses; placeholder text of unprintable objects canonicalised.",
        design="5-C06"),
    "C07": dict(
        engine="E1-collector",
        technique="Coq proof over functions REGENERATED from /repo/src by a fail-closed Python-ast translator (pure.py) and proved equal to the model + Coq proof (closure and identity-cache injectivity as step invariants over all fuel; locals()-alias refutation witness) + in-Coq correspondence with the real collector on graphs with sharing and cycles",
        text="11 Coq theorems over Collector.v: the traversal of any heap (cycles, sharing) is finished after mu steps (explicit measure); in every reachable collector state every reference (roots, children, queued "
             "parents) is in the table's domain; the identity cache is injective (one id per object, distinct objects "
             "distinct ids); entries never exceed distinct reachable objects; a checked refutation witness for a local bound "
             "to the frame's own locals() (recorded known finding). Tied to the code on sharing/cycle-weighted graphs, tiny "
             "budgets, watches already in / first seen outside the frame, compared inside Coq. Tie T2: process_variable is translated from source on every run (coq/gen/PCollect.v) and proved to be the model's step on one object: identity first (a known object keeps its id, nothing added, not expanded again), a new object gets the next id and exactly one entry carrying its identity (TieTraverse.v); VariableSetProcessor.process_variable (one root: locals, a watch or captured value) over the translated traversal is the model's collect_root, and a root already recorded answers its id with nothing added (TieRoot.v).",
        note="Trusted: Coq kernel+VM; harness; id() injective on live objects. Known finding: locals() aliasing.",
        design="5-C07"),
    "C18": dict(
        engine="E4-stores",
        technique="Coq proof over functions REGENERATED from /repo/src by a fail-closed Python-ast translator (pure.py) and proved equal to the model + Coq proof (step invariants over all op sequences, merge laws) + in-Coq correspondence with real BoundedAttributes/Resource/Deep.start",
        text="18 Coq theorems over the executable model Attrs.v: capacity/distinct-keys/cleaned-values invariant for every "
             "reachable store state, exact FIFO-eviction and drop-count step law, conservation, frozen stores, "
             "merge precedence, schema rule, last-holder-wins for chains, mandatory keys. The model is tied to the code "
             "on every run by evaluating it inside Coq on the op sequences / resource chains the real classes just ran. Tie T2: BoundedAttributes.__setitem__ / __delitem__ are translated from source on every run (coq/gen/PStore.v) and proved equal to the model's set_item / del_item for every store, key text and value; C18_the_code_keeps_the_capacity is stated over the translated code. Resource.merge is translated too (coq/gen/PMerge.v) and proved equal to the model's merge for every pair of resources.",
        note="Trusted: Coq kernel+VM; harness generators/encoders; floats opaque; urllib unquote; non-string "
             "process.executable.name is outside the generated domain. 'merge does not modify operands' is checked on "
             "the implementation (the functional model cannot exhibit mutation).",
        design="5-C18"),
    "C19": dict(
        engine="E4-stores",
        technique="Coq proof over functions REGENERATED from /repo/src by a fail-closed Python-ast translator (pure.py) and proved equal to the model + Coq proof (precedence characterisation, print/parse and join/split round trips, app-frame iff) + in-Coq correspondence with ConfigService/GRPCService/LongPoll/is_app_frame under controlled environments",
        text="13 Coq theorems over Config.v: resolution precedence (code > env-backed default > DEEP_<KEY> > absent, functions "
             "called), 'same from code or environment' for the typed uses (poll interval via decimal print/parse round trip, "
             "booleans via str2bool(str(v)), prefix lists via join/split round trip, no blank prefix ever), app-frame iff "
             "and short-path law, interpreter files never app frames. Tied to the code by running the real services under "
             "generated environments (deep.config re-imported each time) and comparing inside Coq. Tie T2: ConfigService.__getattribute__ (the resolution itself: own attribute, code-supplied map, deep.config with functions called, DEEP_ variable as text), is_app_frame and str2bool are translated from source on every run (coq/gen/PResolve.v, PFrames.v, PTruth.v) and proved equal to the model's.",
        note="Trusted: Coq kernel+VM; harness; settings restricted to None/text/small naturals/bools/lists/functions; "
             "POLL_TIMER texts are decimal integers; ASCII lower-casing; prefixes contain no comma.",
        design="5-C19"),
}

NOT_APPLICABLE = {}

ALL = ["C%02d" % i for i in range(1, 21)]


def main():
    checks = []
    for cid in ALL:
        if cid not in CHECKS:
            continue
        c = CHECKS[cid]
        checks.append(dict(
            property_id=cid, quick_cmd=CMD % (cid, "quick"), thorough_cmd=CMD % (cid, "thorough"),
            evidence_file="evidence/%s.json" % cid,
            replay_cmd_template="PYTHONPATH=/repo/src PYTHONHASHSEED=0 /venv/bin/python harness/check.py %s --replay {path}" % cid,
            engine=c["engine"],
            level_claimed=dict(category="proof", text=c["text"], design_ref="DESIGN.md section " + c["design"]),
            level_note=c["note"], technique=c["technique"]))
    na = []
    for cid in ALL:
        if cid not in CHECKS:
            na.append(dict(property_id=cid, reason=NOT_APPLICABLE.get(
                cid, "check not built yet in this development (planned, see DESIGN.md section 5); not claimed until its proof and correspondence run")))
    m = dict(
        version=1,
        setup_cmd="bash harness/setup.sh",
        hooks=dict(guard="DEEP_VERIF_HOOKS", enable="no hooks are used: all instrumentation is applied from outside "
                   "(monkeypatching, synthetic frames, fake channel); the guard name is reserved",
                   baseline_off_cmd="cd /repo && /venv/bin/python -m pytest -ra -q -p no:cacheprovider --timeout=900 --continue-on-collection-errors",
                   source_commits=[], add_only=True),
        engines=[
            dict(name="E1-collector", path="coq/theories/Collector.v coq/theories/CollectorProofs.v coq/theories/Frames.v harness/lib/e1.py harness/lib/objgen.py harness/props/c02.py harness/props/c05.py harness/props/c06.py harness/props/c07.py",
                 serves_properties=["C02", "C05", "C06", "C07"], kind_free_text="Gallina work-list collector over abstract heaps; step invariants; in-Coq correspondence on generated object graphs"),
            dict(name="E2-handler", path="coq/theories/Limiter.v coq/theories/LimiterProofs.v coq/theories/Cond.v harness/lib/e2.py harness/props/c04.py harness/props/c10.py coq/theories/Match.v coq/theories/MatchProofs.v coq/theories/Callbacks.v coq/theories/CallbacksProofs.v harness/props/c03.py harness/props/c15.py coq/theories/Template.v coq/theories/TemplateProofs.v coq/theories/Metric.v coq/theories/MetricProofs.v harness/props/c16.py harness/props/c17.py coq/theories/TriggerTable.v coq/theories/TriggerTableProofs.v harness/props/c11.py",
                 serves_properties=["C03", "C04", "C10", "C11", "C15", "C16", "C17"], kind_free_text="Gallina models of the rate limiter (sequential and interleaved), condition gate and scope; real TriggerHandler with recording plugins, virtual clock, synthetic frames, forced schedules"),
            dict(name="E5-services", path="coq/theories/ConfigSvc.v coq/theories/ConfigSvcProofs.v harness/lib/e5.py harness/props/c12.py harness/props/c13.py coq/theories/Tasks.v coq/theories/TasksProofs.v coq/theories/Lifecycle.v coq/theories/LifecycleProofs.v harness/props/c09.py harness/props/c14.py",
                 serves_properties=["C09", "C12", "C13", "C14"], kind_free_text="Gallina state machines of the configuration service / task handler / lifecycle; real services under controlled executors and scripted stubs"),
            dict(name="E3-exnflow", path="coq/theories/ExnFlow.v coq/gen/Skeleton.v harness/translate/exnflow.py harness/translate/gen.py coq/theories/Plugins.v coq/theories/PluginsProofs.v harness/props/c01.py harness/props/c20.py",
                 serves_properties=["C01", "C14", "C20"], kind_free_text="exception-flow language with verified may-escape / return-path / loop analyses; skeletons regenerated from the Python source by a fail-closed ast translator on every run; fault injection"),
            dict(name="E6-wire", path="coq/theories/Wire.v coq/theories/WireProofs.v coq/gen/WireMap.v harness/translate/wiremap.py harness/props/c08.py",
                 serves_properties=["C08"], kind_free_text="records as finite maps, table-driven conversion, losslessness law; tables regenerated from the converter functions; serialise/parse oracle"),
            dict(name="E7-translated-functions", path="harness/translate/pure.py coq/theories/PureSupport.v coq/gen/PLimits.v coq/gen/PMatch.v coq/gen/PCollect.v coq/gen/PChildren.v coq/gen/PRender.v coq/gen/PSelect.v coq/gen/PEvent.v coq/gen/PTruth.v coq/gen/PResolve.v coq/gen/PGate.v coq/gen/PTable.v coq/gen/PFrames.v coq/gen/PStore.v coq/gen/PMerge.v coq/gen/PLine.v coq/gen/PService.v coq/gen/PRegistry.v coq/gen/PPoll.v coq/theories/TiePoll.v coq/gen/PCallbacks.v coq/gen/PMetrics.v coq/gen/PHooks.v coq/gen/PSpans.v coq/theories/TieSpans.v coq/theories/TieLimits.v coq/theories/TieMatch.v coq/theories/TieCollect.v coq/theories/TieTraverse.v coq/theories/TieRoot.v coq/theories/TieNames.v coq/theories/TieChildren.v coq/theories/TieRender.v coq/theories/TieSelect.v coq/theories/TieEvent.v coq/theories/TieEventHit.v coq/theories/TieTruth.v coq/theories/TieResolve.v coq/theories/TieGate.v coq/theories/TieHit.v coq/theories/TieTable.v coq/theories/TieFrames.v coq/theories/TieStore.v coq/theories/TieMerge.v coq/theories/TieLine.v coq/theories/TieService.v coq/theories/TieRegistry.v coq/theories/TieCallbacks.v coq/theories/TieMetrics.v coq/theories/TieHooks.v tools/mutate_pure.py",
                 serves_properties=["C02", "C03", "C04", "C05", "C07", "C08", "C10", "C11", "C12", "C13", "C14", "C15", "C17", "C18", "C19", "C20"],
                 kind_free_text="61 functions of the agent translated statement by statement into Gallina on every run by a fail-closed Python-ast translator and proved equal to the functions of the hand-written models; property theorems stated over the translated code"),
            dict(name="E4-stores", path="coq/theories/Attrs.v coq/theories/AttrsProofs.v coq/theories/Config.v harness/props/c18.py harness/props/c19.py",
                 serves_properties=["C18", "C19"], kind_free_text="Gallina models of the attribute store, resources, configuration resolution; proofs; in-Coq correspondence"),
        ],
        checks=checks,
        notes="Every check: (1) incremental full .vo build of coq/, (2) re-compiles coq/props/<id>.v and requires every "
              "Print Assumptions to be closed, (3) drives /repo/src's current code on generated inputs and compares with "
              "the model inside Coq (vm_compute), (4) applies a property oracle to the implementation's observations. "
              "See DESIGN.md.",
        not_applicable=na)
    with open(os.path.join(HERE, "MANIFEST.json"), "w") as f:
        json.dump(m, f, indent=1)
    print("wrote MANIFEST.json with %d checks, %d unclaimed" % (len(checks), len(na)))


if __name__ == "__main__":
    main()
