"""The agent's logger stays ENABLED during the checks (as in production) - a message that cannot be rendered, or a helper that
renders eagerly, is part of the behaviour under test - but its records go to a bounded in-memory sink instead of stderr."""
import collections
import logging

SINK = collections.deque(maxlen=200)


class _Sink(logging.Handler):
    def emit(self, record):
        try:
            SINK.append(self.format(record))
        except Exception:           # what the stdlib's handlers do with a record that cannot be rendered: report, never raise
            SINK.append("<unrenderable log record>")


def quiet_logging():
    logging.raiseExceptions = False
    for name in ("deep", None):
        lg = logging.getLogger(name)
        for h in list(lg.handlers):
            lg.removeHandler(h)
        lg.addHandler(_Sink())
        lg.setLevel(logging.DEBUG if name == "deep" else logging.WARNING)
    logging.getLogger("deep").propagate = False
