"""Build the Coq development, re-check a property file, evaluate generated case files."""
import fcntl
import os
import re
import subprocess
import time
from concurrent.futures import ThreadPoolExecutor

VERIF = os.path.dirname(os.path.dirname(os.path.dirname(os.path.abspath(__file__))))
COQ = os.path.join(VERIF, "coq")
BUILD = os.path.join(VERIF, "build")
QFLAGS = ["-Q", "theories", "Deep", "-Q", "gen", "DeepGen", "-Q", "props", "DeepProps"]


class _Lock:
    def __enter__(self):
        os.makedirs(BUILD, exist_ok=True)
        self.f = open(os.path.join(BUILD, ".lock"), "w")
        fcntl.flock(self.f, fcntl.LOCK_EX)
        return self

    def __exit__(self, *a):
        fcntl.flock(self.f, fcntl.LOCK_UN)
        self.f.close()


def ensure_built(timeout=3000):
    """Incremental full (.vo) build of the whole development, keeping going past a file that does not compile
    (so that a broken obligation of one property does not take the others with it).  A file whose compilation
    failed must not leave an older .vo behind: those are removed, and whatever imports them then fails to load.
    Returns (ok, log_tail)."""
    with _Lock():
        if not os.path.exists(os.path.join(COQ, "Makefile")) or \
                os.path.getmtime(os.path.join(COQ, "_CoqProject")) > os.path.getmtime(os.path.join(COQ, "Makefile")):
            subprocess.run(["coq_makefile", "-f", "_CoqProject", "-o", "Makefile"], cwd=COQ,
                           stdout=subprocess.DEVNULL, stderr=subprocess.DEVNULL)
        p = subprocess.run(["timeout", str(timeout), "make", "-k", "-j16"], cwd=COQ, stdout=subprocess.PIPE,
                           stderr=subprocess.STDOUT, text=True)
        if p.returncode != 0:
            for sub in ("theories", "gen", "props"):
                d = os.path.join(COQ, sub)
                for f in os.listdir(d):
                    if f.endswith(".v"):
                        vo = os.path.join(d, f + "o")
                        if os.path.exists(vo) and os.path.getmtime(vo) < os.path.getmtime(os.path.join(d, f)):
                            os.remove(vo)
        return p.returncode == 0, p.stdout[-4000:]


def write_gen(name, text):
    """Rewrite coq/gen/<name>.v only if its content changed (keeps make incremental)."""
    path = os.path.join(COQ, "gen", name + ".v")
    with _Lock():
        old = open(path).read() if os.path.exists(path) else None
        if old != text:
            with open(path, "w") as f:
                f.write(text)
    return path


THM_RE = re.compile(r"^\s*(Theorem|Lemma|Corollary|Example)\s+([A-Za-z0-9_']+)", re.M)


def check_props(cid, timeout=900):
    """Re-compile props/<cid>.v and read its Print Assumptions output.

    Returns dict(ok, theorems=[names], closed=n, axioms=[...], log)."""
    path = os.path.join(COQ, "props", cid + ".v")
    src = open(path).read()
    names = [m.group(2) for m in THM_RE.finditer(src)]
    bad = re.findall(r"\b(Admitted|admit|Axiom|Parameter|Conjecture|Abort)\b", src)
    d = os.path.join(BUILD, "props")
    os.makedirs(d, exist_ok=True)
    # compile a scratch copy so that concurrent checks never race on the .vo in the tree
    scratch = os.path.join(d, "Chk_%s_%d.v" % (cid, os.getpid()))
    with open(scratch, "w") as f:
        f.write(src)
    t0 = time.time()
    p = subprocess.run(["timeout", str(timeout), "coqc"] + QFLAGS + [scratch], cwd=COQ, stdout=subprocess.PIPE,
                       stderr=subprocess.STDOUT, text=True)
    for ext in (".v", ".vo", ".vok", ".vos", ".glob"):
        try:
            os.remove(scratch[:-2] + ext)
        except OSError:
            pass
    try:
        os.remove(os.path.join(d, ".Chk_%s_%d.aux" % (cid, os.getpid())))
    except OSError:
        pass
    out = p.stdout
    closed = out.count("Closed under the global context")
    axioms = []
    for blk in re.findall(r"Axioms:\n((?:.+\n?)+?)(?:\n|$)", out):
        for line in blk.splitlines():
            m = re.match(r"^([A-Za-z0-9_.']+)\s*:", line)
            if m:
                axioms.append(m.group(1))
    n_print = src.count("Print Assumptions")
    ok = p.returncode == 0 and not bad and not axioms and closed == n_print
    return dict(ok=ok, theorems=names, closed=closed, prints=n_print, axioms=sorted(set(axioms)), forbidden=bad,
                returncode=p.returncode, log=out[-3000:], wall_s=round(time.time() - t0, 2),
                cmd="coqc -Q theories Deep -Q gen DeepGen -Q props DeepProps props/%s.v" % cid)


def _run_one(path, timeout):
    p = subprocess.run(["timeout", str(timeout), "coqc"] + QFLAGS + [path], cwd=COQ, stdout=subprocess.PIPE,
                       stderr=subprocess.STDOUT, text=True)
    return p.returncode, p.stdout


def eval_cases(cid, name, imports, case_type, checker, literals, shard=300, timeout=900, extra_defs=""):
    """Write shards  Definition cases : list <case_type> := [...]  and evaluate
    bad_indices <checker> cases  inside Coq.  Returns (bad_global_indices, errors, n_shards)."""
    d = os.path.join(BUILD, "cases", cid)
    os.makedirs(d, exist_ok=True)
    for f in os.listdir(d):
        if f.startswith(name + "_") or f.startswith("." + name + "_"):
            try:
                os.remove(os.path.join(d, f))
            except OSError:
                pass
    paths = []
    for k in range(0, max(len(literals), 1), shard):
        part = literals[k:k + shard]
        path = os.path.join(d, "%s_%d.v" % (name, k // shard))
        with open(path, "w") as f:
            f.write("From Deep Require Import %s.\n" % " ".join(imports))
            f.write("Local Open Scope Z_scope.\n")
            f.write(extra_defs)
            f.write("Definition cases : list (%s) := [\n" % case_type)
            f.write(";\n".join(part))
            f.write("\n].\n")
            f.write("Eval vm_compute in (bad_indices (%s) cases).\n" % checker)
        paths.append((k, path))
    bad, errors = [], []
    with ThreadPoolExecutor(max_workers=min(16, max(1, len(paths)))) as ex:
        futs = [(k, path, ex.submit(_run_one, path, timeout)) for k, path in paths]
        for k, path, fut in futs:
            rc, out = fut.result()
            m = re.search(r"=\s*(\[[^\]]*\])\s*:\s*list nat", out, re.S)
            if rc != 0 or not m:
                errors.append(dict(shard=path, rc=rc, tail=out[-1500:]))
                continue
            for tok in re.findall(r"\d+", m.group(1)):
                bad.append(k + int(tok))
    return sorted(bad), errors, len(paths)


def eval_term(cid, name, imports, term, timeout=300, extra_defs=""):
    """Evaluate one term with vm_compute and return Coq's raw answer (used to explain a mismatch)."""
    d = os.path.join(BUILD, "cases", cid)
    os.makedirs(d, exist_ok=True)
    path = os.path.join(d, "%s.v" % name)
    with open(path, "w") as f:
        f.write("From Deep Require Import %s.\nLocal Open Scope Z_scope.\n%s" % (" ".join(imports), extra_defs))
        f.write("Eval vm_compute in (%s).\n" % term)
    rc, out = _run_one(path, timeout)
    return out[-4000:]


def coqchk(cid, timeout=1500):
    """Independent re-check of the compiled property file and everything it depends on (thorough tier)."""
    t0 = time.time()
    p = subprocess.run(["timeout", str(timeout), "coqchk", "-silent", "-o"] + QFLAGS + ["DeepProps.%s" % cid], cwd=COQ,
                       stdout=subprocess.PIPE, stderr=subprocess.STDOUT, text=True)
    out = p.stdout
    m = re.search(r"\* Axioms:(.*?)\n\s*\n\* Constants", out, re.S)
    axioms = (m.group(1).strip() if m else "?")
    clean = p.returncode == 0 and axioms == "<none>" and all(("%s: <none>" % k) in out for k in (
        "type-in-type", "unsafe (co)fixpoints", "positivity is assumed"))
    return dict(ok=clean, returncode=p.returncode, axioms=axioms, wall_s=round(time.time() - t0, 1),
                cmd="coqchk -silent -o -Q theories Deep -Q gen DeepGen -Q props DeepProps DeepProps.%s" % cid, tail=out[-600:])
